"""Fail-closed translator for C14: regenerates coq/Gen/IndexedList.v from class IndexedList in
collada/util.py and Collada._setIndexedList in collada/__init__.py.

argv = [repo, gen_dir].  Every mutator is read statement by statement; each statement must be one
of the known forms below and becomes one instruction of the method's program, IN SOURCE ORDER
(list operation before/after the index update, argument materialised before/after a mutation are
therefore visible in the output).  The helper methods (_addindex, _position, __getitem__, get,
__contains__) are matched against templates with holes for the exception classes they catch.
Anything else: exit non-zero after restoring the golden copy harness/translate/golden/IndexedList.v.
"""
import ast
import os
import shutil
import sys
import textwrap


class Reject(Exception):
    pass


def need(cond, why):
    if not cond:
        raise Reject(why)


def dump(src):
    return ast.dump(ast.parse(textwrap.dedent(src)).body[0])


def strip_doc(body):
    body = list(body)
    if body and isinstance(body[0], ast.Expr) and isinstance(body[0].value, ast.Constant) \
            and isinstance(body[0].value.value, str):
        body = body[1:]
    return body


# statement -> instruction (exact forms; parameter names are part of the form)
SIMPLE = {
    'ind = self._position(ind)': 'IPosition',
    'newList = list(newList)': 'IMaterialise',
    'if isinstance(ind, slice):\n    new_obj = list(new_obj)': 'IMaterialiseIfSlice',
    'ind = list.index(self, obj)': 'IListIndex',
    'list.__delitem__(self, ind)': 'IList LDelItem',
    'list.__setitem__(self, ind, new_obj)': 'IList LSetItem',
    'list.insert(self, ind, new_obj)': 'IList LInsert',
    'obj = list.pop(self, ind)': 'IList LPop',
    'list.extend(self, newList)': 'IList LExtend',
    'list.append(self, obj)': 'IList LAppend',
    'return list.append(self, obj)': 'IList LAppend',
    'list.clear(self)': 'IList LClear',
    'list.reverse(self)': 'IList LReverse',
    'list.sort(self, *args, **kwargs)': 'IList LSort',
    'super(IndexedList, self).__init__(items)': 'IList LInit',
    'self._reindex()': 'IReindex',
    'self._addindex(obj)': 'IAddIndexArg',
    'self._addindex(new_obj)': 'IAddIndexArg',
    'for obj in newList:\n    _add(obj)': 'IAddIndexEach',
    'for obj in newList:\n    self._addindex(obj)': 'IAddIndexEach',
    'for obj in self:\n    _add(obj)': 'IAddIndexSelfEach',
    'for obj in self:\n    self._addindex(obj)': 'IAddIndexSelfEach',
    'self._index = {}': 'IIndexClear',
    'self.extend(newList)': 'ICallExtend',
}
SIMPLE = {dump(k): v for k, v in SIMPLE.items()}
# statements without effect on list or index
NEUTRAL = {dump(s) for s in ('_add = self._addindex', 'return self', 'return obj', 'self._attrs = tuple(attrs)',
                             '_idx = self._index')}

EXN = {'KeyError': 'PyKeyError', 'TypeError': 'PyTypeError', 'IndexError': 'PyIndexError',
       'ValueError': 'PyValueError', 'AttributeError': 'PyAttributeError'}


def exn_list(node):
    """except X / except (X, Y)"""
    if node is None:
        raise Reject('bare except')
    elts = node.elts if isinstance(node, ast.Tuple) else [node]
    out = []
    for e in elts:
        need(isinstance(e, ast.Name) and e.id in EXN, 'unknown exception class in except clause')
        out.append(EXN[e.id])
    return out


def c_exns(l):
    return '[' + '; '.join(l) + ']'


def lookup_or_self(st):
    """try: obj = self._index[ind_or_obj]  except (...): obj = ind_or_obj"""
    if not isinstance(st, ast.Try):
        return None
    need(not st.orelse and not st.finalbody and len(st.handlers) == 1, 'remove: unexpected try shape')
    need(len(st.body) == 1 and ast.dump(st.body[0]) == dump('obj = self._index[ind_or_obj]'), 'remove: unexpected try body')
    h = st.handlers[0]
    need(h.name is None and len(h.body) == 1 and ast.dump(h.body[0]) == dump('obj = ind_or_obj'), 'remove: unexpected handler')
    return 'ILookupOrSelf %s' % c_exns(exn_list(h.type))


SIGNATURES = {
    '__init__': ['self', 'items', 'attrs'], '_reindex': ['self'], '__delitem__': ['self', 'ind'],
    '__setitem__': ['self', 'ind', 'new_obj'], '__iadd__': ['self', 'newList'], 'append': ['self', 'obj'],
    'extend': ['self', 'newList'], 'insert': ['self', 'ind', 'new_obj'], 'pop': ['self', 'ind'],
    'remove': ['self', 'ind_or_obj'], 'clear': ['self'], 'reverse': ['self'], 'sort': ['self'],
}


def program(fn):
    need([a.arg for a in fn.args.args] == SIGNATURES[fn.name], '%s: signature changed' % fn.name)
    if fn.name == 'pop':
        need(len(fn.args.defaults) == 1 and ast.dump(fn.args.defaults[0]) == ast.dump(ast.parse('-1').body[0].value),
             'pop: default position changed')
    else:
        need(not fn.args.defaults, '%s: unexpected defaults' % fn.name)
    out = []
    for st in strip_doc(fn.body):
        d = ast.dump(st)
        if d in SIMPLE:
            out.append(SIMPLE[d])
        elif d in NEUTRAL:
            continue
        else:
            ins = lookup_or_self(st)
            need(ins is not None, '%s: statement outside the accepted forms: %s' % (fn.name, ast.unparse(st)[:80]))
            out.append(ins)
    return out


def unify(t, s, env):
    if isinstance(t, ast.Name) and t.id.startswith('HOLE_'):
        env[t.id] = s
        return True
    if type(t) is not type(s):
        return False
    if isinstance(t, ast.AST):
        return all(unify(getattr(t, f, None), getattr(s, f, None), env) for f in t._fields)
    if isinstance(t, list):
        return len(t) == len(s) and all(unify(a, b, env) for a, b in zip(t, s))
    return t == s


def match(fn, template, what):
    tfn = ast.parse(textwrap.dedent(template)).body[0]
    env = {}
    need(ast.dump(fn.args) == ast.dump(tfn.args), '%s: signature changed' % what)
    need(unify(strip_doc(tfn.body), strip_doc(fn.body), env), '%s: body outside the accepted template' % what)
    return env


ADDINDEX = '''
def _addindex(self, obj):
    _idx = self._index
    for attr in self._attrs:
        _idx[getattr(obj, attr)] = obj
'''
POSITION = '''
def _position(self, ind):
    if isinstance(ind, (int, slice)):
        return ind
    obj = self._index[ind]
    return list.index(self, obj)
'''
GETITEM = '''
def __getitem__(self, ind):
    try:
        return self._index[ind]
    except HOLE_X:
        if isinstance(ind, str):
            raise
        res = list.__getitem__(self, ind)
        if isinstance(ind, slice):
            return IndexedList(res, self._attrs)
        return res
'''
GET = '''
def get(self, key, default=None):
    try:
        return self._index[key]
    except HOLE_X:
        return default
'''
CONTAINS = '''
def __contains__(self, item):
    try:
        if item in self._index:
            return True
    except HOLE_X:
        pass
    return list.__contains__(self, item)
'''
SETLIST = '''
def _setIndexedList(self, propname, data):
    setattr(self, propname, IndexedList(data, ('id',)))
'''

METHODS = ['__init__', '_reindex', 'append', 'extend', '__iadd__', 'insert', 'pop', 'remove', '__setitem__',
           '__delitem__', 'clear', 'reverse', 'sort']


def find_class(tree, name):
    for c in tree.body:
        if isinstance(c, ast.ClassDef) and c.name == name:
            return {f.name: f for f in c.body if isinstance(f, ast.FunctionDef)}, c
    raise Reject('class %s not found' % name)


def generate(repo):
    util = ast.parse(open(os.path.join(repo, 'collada', 'util.py'), encoding='utf-8').read())
    init = ast.parse(open(os.path.join(repo, 'collada', '__init__.py'), encoding='utf-8').read())
    fns, cls = find_class(util, 'IndexedList')
    need([ast.unparse(b) for b in cls.bases] == ['list'], 'IndexedList is no longer a subclass of list')
    known = set(METHODS) | {'_addindex', '_delindex', '_position', '__getitem__', 'get', '__contains__'}
    extra = set(fns) - known
    need(not extra, 'IndexedList has methods this translator does not know: %s' % sorted(extra))
    progs = {}
    for m in METHODS:
        if m == 'sort' and m not in fns:
            progs[m] = None
            continue
        need(m in fns, 'IndexedList.%s not found' % m)
        progs[m] = program(fns[m])
    match(fns['_addindex'], ADDINDEX, '_addindex')
    match(fns['_position'], POSITION, '_position')
    gi = exn_list(match(fns['__getitem__'], GETITEM, '__getitem__')['HOLE_X'])
    ge = exn_list(match(fns['get'], GET, 'get')['HOLE_X'])
    co = exn_list(match(fns['__contains__'], CONTAINS, '__contains__')['HOLE_X'])
    cfns, _ = find_class(init, 'Collada')
    need('_setIndexedList' in cfns, 'Collada._setIndexedList not found')
    match(cfns['_setIndexedList'], SETLIST, 'Collada._setIndexedList')

    def c_prog(p):
        return '[' + '; '.join(p) + ']'
    names = {'__init__': 'init', '_reindex': 'reindex', '__iadd__': 'iadd', '__setitem__': 'setitem',
             '__delitem__': 'delitem'}
    lines = [
        '(* GENERATED by harness/translate/indexedlist.py from class IndexedList (collada/util.py) and',
        '   Collada._setIndexedList (collada/__init__.py).  Do not edit: it is rewritten on every build.',
        '   One instruction per statement of the method, in source order. *)',
        'From Coq Require Import List.',
        'From PC Require Import Base.Outcome Base.IlProg.',
        'Import ListNotations.',
        '',
    ]
    for m in METHODS:
        if progs[m] is None:
            continue
        lines.append('Definition prog_%s : list instr :=\n  %s.' % (names.get(m, m), c_prog(progs[m])))
    lines += [
        '',
        '(* exception classes caught around the dict look-up self._index[key] *)',
        'Definition getitem_caught : list exn := %s.' % c_exns(gi),
        'Definition get_caught : list exn := %s.' % c_exns(ge),
        'Definition contains_caught : list exn := %s.' % c_exns(co),
        '',
        '(* _addindex: index[getattr(obj, attr)] = obj for every attr;  _position: ints pass, keys go through',
        '   the dict and list.index;  Collada._setIndexedList wraps the assigned data in',
        '   IndexedList(data, (\'id\',)) -- all three matched against their templates. *)',
        'Definition helpers_match_templates : bool := true.',
        '',
    ]
    return '\n'.join(lines)


def main(argv):
    repo, gen = argv[1], argv[2]
    out = os.path.join(gen, 'IndexedList.v')
    golden = os.path.join(os.path.dirname(os.path.abspath(__file__)), 'golden', 'IndexedList.v')
    os.makedirs(gen, exist_ok=True)
    try:
        text = generate(repo)
    except Reject as e:
        # fail closed: the committed golden copy becomes the definition again
        if os.path.exists(golden) and (not os.path.exists(out) or open(out).read() != open(golden).read()):
            shutil.copyfile(golden, out)
        sys.stderr.write('indexedlist translator: source outside the accepted grammar: %s\n' % e)
        return 1
    if os.path.exists(out) and open(out, encoding='utf-8').read() == text:
        print('Gen/IndexedList.v up to date')
        return 0
    tmp = out + '.tmp%d' % os.getpid()
    with open(tmp, 'w', encoding='utf-8') as f:
        f.write(text)
    os.replace(tmp, out)
    print('Gen/IndexedList.v rewritten')
    return 0


if __name__ == '__main__':
    sys.exit(main(sys.argv))
