"""Fail-closed translator for C11: regenerates coq/Gen/Strips.v from the source of
collada.triangleset._extendFromStrip and _extendFromFan.

argv = [repo, gen_dir].  Only the exact statement shapes below are accepted; anything else
exits non-zero and leaves the committed copy of Gen/Strips.v in place.

_extendFromStrip(indexlist, index):
    A = numpy.array([index[s], index[s], index[s]])
    B = numpy.array([index[s], index[s], index[s]])
    indexlist.append(X.swapaxes(0, 1).ravel())      X, Y = A, B in either order
    indexlist.append(Y.swapaxes(0, 1).ravel())
_extendFromFan(indexlist, index):
    c = numpy.concatenate((numpy.repeat(index[s], COUNT, 0), index[s], index[s]), 1)
    indexlist.append(c.reshape(-1))
  COUNT ::= len(index) - K | max(len(index) - K, M) | max(M, len(index) - K)
s ::= lower:upper[:step] with optional integer literals (unary minus allowed), step > 0.
"""
import ast
import os
import shutil
import sys


class Reject(Exception):
    pass


def need(cond, why):
    if not cond:
        raise Reject(why)


def int_lit(node):
    if isinstance(node, ast.Constant) and type(node.value) is int:
        return node.value
    if isinstance(node, ast.UnaryOp) and isinstance(node.op, ast.USub) and \
            isinstance(node.operand, ast.Constant) and type(node.operand.value) is int:
        return -node.operand.value
    raise Reject('not an integer literal: ' + ast.dump(node))


def slice_of(node, arr):
    need(isinstance(node, ast.Subscript), 'expected %s[...]' % arr)
    need(isinstance(node.value, ast.Name) and node.value.id == arr, 'slice of something other than %s' % arr)
    sl = node.slice
    need(isinstance(sl, ast.Slice), 'subscript is not a slice')
    lo = None if sl.lower is None else int_lit(sl.lower)
    hi = None if sl.upper is None else int_lit(sl.upper)
    st = 1 if sl.step is None else int_lit(sl.step)
    need(st > 0, 'non-positive slice step')
    return (lo, hi, st)


def is_attr_call(node, attr, nargs):
    return isinstance(node, ast.Call) and isinstance(node.func, ast.Attribute) and node.func.attr == attr \
        and len(node.args) == nargs and not node.keywords


def is_numpy(node, name):
    return isinstance(node, ast.Attribute) and node.attr == name and isinstance(node.value, ast.Name) \
        and node.value.id == 'numpy'


def body_of(fn):
    body = list(fn.body)
    if body and isinstance(body[0], ast.Expr) and isinstance(body[0].value, ast.Constant) \
            and isinstance(body[0].value.value, str):
        body = body[1:]
    return body


def params(fn):
    a = fn.args
    need(not (a.vararg or a.kwarg or a.kwonlyargs or a.defaults or a.posonlyargs), 'unexpected signature')
    need(len(a.args) == 2, 'expected two parameters')
    return a.args[0].arg, a.args[1].arg


def strip(fn):
    lst, arr = params(fn)
    body = body_of(fn)
    need(len(body) == 4, '_extendFromStrip: expected four statements')
    groups = {}
    names = []
    for st in body[:2]:
        need(isinstance(st, ast.Assign) and len(st.targets) == 1 and isinstance(st.targets[0], ast.Name),
             '_extendFromStrip: expected NAME = numpy.array([...])')
        v = st.value
        need(isinstance(v, ast.Call) and is_numpy(v.func, 'array') and len(v.args) == 1 and not v.keywords,
             '_extendFromStrip: expected numpy.array([...])')
        need(isinstance(v.args[0], ast.List) and len(v.args[0].elts) == 3, '_extendFromStrip: expected three slices')
        name = st.targets[0].id
        need(name not in groups and name not in (lst, arr), '_extendFromStrip: name reused')
        groups[name] = [slice_of(e, arr) for e in v.args[0].elts]
        names.append(name)
    order = []
    for st in body[2:]:
        need(isinstance(st, ast.Expr) and is_attr_call(st.value, 'append', 1), '_extendFromStrip: expected append')
        need(isinstance(st.value.func.value, ast.Name) and st.value.func.value.id == lst, 'append to something else')
        r = st.value.args[0]
        need(is_attr_call(r, 'ravel', 0), 'expected .ravel()')
        sw = r.func.value
        need(is_attr_call(sw, 'swapaxes', 2) and [int_lit(x) for x in sw.args] in ([0, 1], [1, 0]),
             'expected .swapaxes(0, 1)')
        need(isinstance(sw.func.value, ast.Name) and sw.func.value.id in groups, 'unknown array appended')
        order.append(sw.func.value.id)
    need(sorted(order) == sorted(names), '_extendFromStrip: each array must be appended exactly once')
    return groups[order[0]], groups[order[1]]


def fan_count(node, arr):
    def len_minus(n):
        need(isinstance(n, ast.BinOp) and isinstance(n.op, ast.Sub), 'expected len(index) - K')
        c = n.left
        need(isinstance(c, ast.Call) and isinstance(c.func, ast.Name) and c.func.id == 'len' and len(c.args) == 1
             and not c.keywords and isinstance(c.args[0], ast.Name) and c.args[0].id == arr, 'expected len(index)')
        return int_lit(n.right)
    if isinstance(node, ast.Call) and isinstance(node.func, ast.Name) and node.func.id == 'max':
        need(len(node.args) == 2 and not node.keywords, 'max of two')
        a, b = node.args
        try:
            m = int_lit(a)
            k = len_minus(b)
        except Reject:
            m = int_lit(b)
            k = len_minus(a)
        return 'Z.max (n - (%d)) (%d)' % (k, m)
    return 'n - (%d)' % len_minus(node)


def fan(fn):
    lst, arr = params(fn)
    body = body_of(fn)
    need(len(body) == 2, '_extendFromFan: expected two statements')
    st = body[0]
    need(isinstance(st, ast.Assign) and len(st.targets) == 1 and isinstance(st.targets[0], ast.Name),
         '_extendFromFan: expected NAME = numpy.concatenate(...)')
    name = st.targets[0].id
    v = st.value
    need(isinstance(v, ast.Call) and is_numpy(v.func, 'concatenate') and len(v.args) == 2 and not v.keywords
         and int_lit(v.args[1]) == 1, 'expected numpy.concatenate((...), 1)')
    t = v.args[0]
    need(isinstance(t, (ast.Tuple, ast.List)) and len(t.elts) == 3, 'expected three pieces')
    rep = t.elts[0]
    need(isinstance(rep, ast.Call) and is_numpy(rep.func, 'repeat') and len(rep.args) == 3 and not rep.keywords
         and int_lit(rep.args[2]) == 0, 'expected numpy.repeat(index[...], count, 0)')
    centre = slice_of(rep.args[0], arr)
    count = fan_count(rep.args[1], arr)
    b = slice_of(t.elts[1], arr)
    c = slice_of(t.elts[2], arr)
    st = body[1]
    need(isinstance(st, ast.Expr) and is_attr_call(st.value, 'append', 1) and
         isinstance(st.value.func.value, ast.Name) and st.value.func.value.id == lst, 'expected indexlist.append')
    r = st.value.args[0]
    need(is_attr_call(r, 'reshape', 1) and int_lit(r.args[0]) == -1 and isinstance(r.func.value, ast.Name)
         and r.func.value.id == name, 'expected c.reshape(-1)')
    return centre, count, b, c


def c_opt(z):
    return 'None' if z is None else '(Some (%d)%%Z)' % z


def c_slice(s):
    return '(%s, %s, %d%%nat)' % (c_opt(s[0]), c_opt(s[1]), s[2])


def c_slice3(g):
    return '(%s, %s, %s)' % tuple(c_slice(s) for s in g)


def main(argv):
    repo, gen = argv[1], argv[2]
    src = open(os.path.join(repo, 'collada', 'triangleset.py'), encoding='utf-8').read()
    tree = ast.parse(src)
    fns = {n.name: n for n in tree.body if isinstance(n, ast.FunctionDef)}
    try:
        need('_extendFromStrip' in fns and '_extendFromFan' in fns, 'functions not found at module level')
        first, second = strip(fns['_extendFromStrip'])
        centre, count, fb, fc = fan(fns['_extendFromFan'])
    except Reject as e:
        # fail closed: the committed golden copy becomes the definition again
        golden = os.path.join(os.path.dirname(os.path.abspath(__file__)), 'golden', 'Strips.v')
        target = os.path.join(gen, 'Strips.v')
        if os.path.exists(golden) and (not os.path.exists(target) or open(target).read() != open(golden).read()):
            os.makedirs(gen, exist_ok=True)
            shutil.copyfile(golden, target)
        sys.stderr.write('strips translator: source outside the accepted grammar: %s\n' % e)
        return 1
    text = (
        '(* GENERATED by harness/translate/strips.py from collada/triangleset.py\n'
        '   (_extendFromStrip, _extendFromFan).  Do not edit: it is rewritten on every build. *)\n'
        'From Coq Require Import List ZArith.\n'
        'From PC Require Import Base.PySlice.\n'
        '\n'
        '(* _extendFromStrip: the two numpy.array([index[..], index[..], index[..]]) groups, in the order\n'
        '   in which they are appended to the index list *)\n'
        'Definition strip_first : slice3 :=\n  %s.\n'
        'Definition strip_second : slice3 :=\n  %s.\n'
        '\n'
        '(* _extendFromFan: numpy.concatenate((numpy.repeat(index[centre], count, 0), index[b], index[c]), 1);\n'
        '   n stands for len(index) *)\n'
        'Definition fan_centre : slice1 := %s.\n'
        'Definition fan_count (n : Z) : Z := (%s)%%Z.\n'
        'Definition fan_b : slice1 := %s.\n'
        'Definition fan_c : slice1 := %s.\n'
    ) % (c_slice3(first), c_slice3(second), c_slice(centre), count, c_slice(fb), c_slice(fc))
    out = os.path.join(gen, 'Strips.v')
    os.makedirs(gen, exist_ok=True)
    if os.path.exists(out) and open(out, encoding='utf-8').read() == text:
        print('Gen/Strips.v up to date')
        return 0
    tmp = out + '.tmp%d' % os.getpid()
    with open(tmp, 'w', encoding='utf-8') as f:
        f.write(text)
    os.replace(tmp, out)
    print('Gen/Strips.v rewritten')
    return 0


if __name__ == '__main__':
    sys.exit(main(sys.argv))
