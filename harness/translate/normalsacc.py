"""Fail-closed translator for C18: regenerates coq/Gen/NormalsAcc.v (the accumulation primitive
`code_accumulate`) from the source of TriangleSet.generateNormals,
BoundTriangleSet.generateNormals and TriangleSet.generateTexTangentsAndBinormals.

argv = [repo, gen_dir].  Accepted statement shapes, for an array name A, k in {0,1,2}, rows R:
    numpy.add.at(A, self._vertex_index[:, k], R)      -> add_at
    A[self._vertex_index[:, k]] += R                  -> fancy_iadd
Each function must accumulate with k = 0, 1, 2 in this order per array, and every statement in
the three functions must have the same shape; anything else exits non-zero and leaves the
committed golden copy (harness/translate/golden/NormalsAcc.v) in Gen/ (the correspondence still runs)."""
import ast
import os
import sys


HERE = os.path.dirname(os.path.abspath(__file__))
GOLDEN = os.path.join(HERE, 'golden', 'NormalsAcc.v')


class Reject(Exception):
    pass


def write_if_changed(path, text):
    if os.path.exists(path) and open(path, encoding='utf-8').read() == text:
        return False
    tmp = path + '.tmp%d' % os.getpid()
    with open(tmp, 'w', encoding='utf-8') as f:
        f.write(text)
    os.replace(tmp, path)
    return True


def vertex_col(node):
    """self._vertex_index[:, k] -> k"""
    if not (isinstance(node, ast.Subscript) and isinstance(node.value, ast.Attribute)
            and node.value.attr == '_vertex_index' and isinstance(node.value.value, ast.Name)
            and node.value.value.id == 'self'):
        return None
    sl = node.slice
    if not (isinstance(sl, ast.Tuple) and len(sl.elts) == 2 and isinstance(sl.elts[0], ast.Slice)
            and sl.elts[0].lower is None and sl.elts[0].upper is None and sl.elts[0].step is None
            and isinstance(sl.elts[1], ast.Constant) and type(sl.elts[1].value) is int):
        return None
    return sl.elts[1].value


def classify(stmt):
    """-> (kind, array, k, rows) or None"""
    if isinstance(stmt, ast.AugAssign) and isinstance(stmt.op, ast.Add) and isinstance(stmt.target, ast.Subscript) \
            and isinstance(stmt.target.value, ast.Name) and isinstance(stmt.value, ast.Name):
        k = vertex_col(stmt.target.slice)
        if k is not None:
            return ('fancy_iadd', stmt.target.value.id, k, stmt.value.id)
    if isinstance(stmt, ast.Expr) and isinstance(stmt.value, ast.Call) and not stmt.value.keywords \
            and len(stmt.value.args) == 3:
        f = stmt.value.func
        if isinstance(f, ast.Attribute) and f.attr == 'at' and isinstance(f.value, ast.Attribute) and f.value.attr == 'add' \
                and isinstance(f.value.value, ast.Name) and f.value.value.id == 'numpy':
            a, i, r = stmt.value.args
            k = vertex_col(i)
            if isinstance(a, ast.Name) and isinstance(r, ast.Name) and k is not None:
                return ('add_at', a.id, k, r.id)
    return None


def accumulations(fn, arrays):
    found = {a: [] for a in arrays}
    for stmt in fn.body:
        # any other write into one of the arrays makes the function unrecognised
        c = classify(stmt)
        if c is not None:
            if c[1] not in found:
                raise Reject('%s: accumulation into unexpected array %s' % (fn.name, c[1]))
            found[c[1]].append(c)
            continue
        for node in ast.walk(stmt):
            if isinstance(node, (ast.AugAssign, ast.Assign)):
                targets = [node.target] if isinstance(node, ast.AugAssign) else node.targets
                for t in targets:
                    if isinstance(t, ast.Subscript) and isinstance(t.value, ast.Name) and t.value.id in found:
                        raise Reject('%s: unrecognised write into %s' % (fn.name, t.value.id))
    kinds = set()
    for a, lst in found.items():
        if [c[2] for c in lst] != [0, 1, 2]:
            raise Reject('%s: %s is not accumulated over corners 0,1,2 (%r)' % (fn.name, a, [c[2] for c in lst]))
        if len({c[3] for c in lst}) != 1:
            raise Reject('%s: %s accumulates different rows' % (fn.name, a))
        kinds |= {c[0] for c in lst}
    return kinds


def main(argv):
    repo, gen = argv[1], argv[2]
    path = os.path.join(gen, 'NormalsAcc.v')
    kinds = set()
    try:
        src = open(os.path.join(repo, 'collada', 'triangleset.py')).read()
        tree = ast.parse(src)
        classes = {n.name: n for n in tree.body if isinstance(n, ast.ClassDef)}
        for cname, fname, arrays in (('TriangleSet', 'generateNormals', ['norms']),
                                     ('BoundTriangleSet', 'generateNormals', ['norms']),
                                     ('TriangleSet', 'generateTexTangentsAndBinormals', ['tans1', 'tans2'])):
            if cname not in classes:
                raise Reject('class %s not found' % cname)
            fns = [n for n in classes[cname].body if isinstance(n, ast.FunctionDef) and n.name == fname]
            if len(fns) != 1:
                raise Reject('%s.%s not found' % (cname, fname))
            kinds |= accumulations(fns[0], arrays)
        if len(kinds) != 1:
            raise Reject('mixed accumulation statements: %r' % sorted(kinds))
    except (Reject, SyntaxError, OSError) as e:
        # fail closed: the committed golden copy is put back (a previous run may have left another one)
        if os.path.exists(GOLDEN):
            write_if_changed(path, open(GOLDEN, encoding='utf-8').read())
        sys.stderr.write('normalsacc: source left the accepted grammar: %s\n' % e)
        return 1
    kind = kinds.pop()
    text = ('(* GENERATED by harness/translate/normalsacc.py from collada/triangleset.py - do not edit.\n'
            '   The per-vertex accumulation of generateNormals (both classes) and\n'
            '   generateTexTangentsAndBinormals: %s. *)\n'
            'From PC Require Import Model.Normals.\n\n'
            'Definition code_accumulate (o : ops) : list (vec o) -> list nat -> list (vec o) -> list (vec o) :=\n'
            '  %s o.\n' % ('numpy.add.at(A, idx, rows)' if kind == 'add_at' else 'A[idx] += rows', kind))
    write_if_changed(path, text)
    print('NormalsAcc.v: code_accumulate := %s' % kind)
    return 0


if __name__ == '__main__':
    sys.exit(main(sys.argv))
