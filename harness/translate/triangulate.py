"""Fail-closed translator for C11: regenerates coq/Gen/Triangulate.v from the source of
    collada.polylist.Polylist.triangleset          (mask clearing guards/offsets, the three gathers)
    collada.polylist.Polygon.triangles             (range bound, corner subscripts of all six arrays)
    collada.polylist.BoundPolylist.triangleset     (must go through original.triangleset().bind)
    collada.triangleset.BoundTriangleSet.__init__  (which attribute of the unbound set each index attribute copies)
    collada.triangleset.TriangleSet.load           (iteration order over <p>, reshape width, concatenation order)
    collada.triangleset._indexExtendFunctions      (tag -> expansion function)

argv = [repo, gen_dir].  Each function is unified with a template that has holes (HOLE_*) only where a
parameter is read off; any other difference makes the translator exit non-zero and the committed copy of
Gen/Triangulate.v stays in place.
"""
import ast
import os
import shutil
import sys
import textwrap


class Reject(Exception):
    pass


def need(cond, why):
    if not cond:
        raise Reject(why)


def strip_doc(fn):
    body = list(fn.body)
    if body and isinstance(body[0], ast.Expr) and isinstance(body[0].value, ast.Constant) \
            and isinstance(body[0].value.value, str):
        body = body[1:]
    return body


def unify(t, s, env):
    if isinstance(t, ast.Name) and t.id.startswith('HOLE_'):
        if t.id in env:
            return ast.dump(env[t.id]) == ast.dump(s)
        env[t.id] = s
        return True
    if type(t) is not type(s):
        return False
    if isinstance(t, ast.AST):
        for f in t._fields:
            if not unify(getattr(t, f, None), getattr(s, f, None), env):
                return False
        return True
    if isinstance(t, list):
        return len(t) == len(s) and all(unify(a, b, env) for a, b in zip(t, s))
    return t == s


def match_body(fn, template, what):
    tfn = ast.parse(textwrap.dedent(template)).body[0]
    env = {}
    need(ast.dump(fn.args) == ast.dump(tfn.args), '%s: signature changed' % what)
    need(unify(strip_doc(tfn), strip_doc(fn), env), '%s: body outside the accepted template' % what)
    return env


def int_lit(node):
    if isinstance(node, ast.Constant) and type(node.value) is int:
        return node.value
    if isinstance(node, ast.UnaryOp) and isinstance(node.op, ast.USub) and \
            isinstance(node.operand, ast.Constant) and type(node.operand.value) is int:
        return -node.operand.value
    raise Reject('not an integer literal: ' + ast.dump(node))


def var_plus(node, var):
    """var | var + K | var - K  ->  K"""
    if isinstance(node, ast.Name) and node.id == var:
        return 0
    if isinstance(node, ast.BinOp) and isinstance(node.left, ast.Name) and node.left.id == var:
        if isinstance(node.op, ast.Add):
            return int_lit(node.right)
        if isinstance(node.op, ast.Sub):
            return -int_lit(node.right)
    raise Reject('not %s + K: %s' % (var, ast.dump(node)))


# ---------------------------------------------------------------- Polylist.triangleset

TRISET = '''
def triangleset(self):
    if self._triangleset is None:
        indexselector = numpy.zeros(self.nvertices) == 0
        vcounts = numpy.asarray(self.vcounts)
%s
        indexselector = numpy.arange(self.nvertices)[indexselector]
        firstpolyindex = numpy.arange(self.nvertices)
        firstpolyindex = firstpolyindex - numpy.repeat(self.polyends - self.vcounts, self.vcounts)
        firstpolyindex = firstpolyindex[indexselector]
        if len(self.index) > 0:
            triindex = numpy.dstack((self.index[HOLE_E0], self.index[HOLE_E1], self.index[HOLE_E2]))
            triindex = numpy.swapaxes(triindex, 1, 2).flatten()
        else:
            triindex = numpy.array([], dtype=self.index.dtype)
        triset = triangleset.TriangleSet(self.sources, self.material, triindex, self.xmlnode)
        self._triangleset = triset
    return self._triangleset
'''


def gather(node):
    if isinstance(node, ast.BinOp) and isinstance(node.op, ast.Sub) and isinstance(node.left, ast.Name) \
            and node.left.id == 'indexselector' and isinstance(node.right, ast.Name) and node.right.id == 'firstpolyindex':
        return 'GSelMinusFirst'
    return '(GSelPlus (%d)%%Z)' % var_plus(node, 'indexselector')


def triset(fn):
    env = None
    for n in range(0, 5):
        clears = '\n'.join('        indexselector[self.polyends[vcounts >= HOLE_G%d] - HOLE_D%d] = False' % (i, i)
                           for i in range(n))
        try:
            env = match_body(fn, TRISET % clears, 'Polylist.triangleset')
            break
        except Reject:
            env = None
    need(env is not None, 'Polylist.triangleset: body outside the accepted template')
    cl = []
    for i in range(n):
        g, d = int_lit(env['HOLE_G%d' % i]), int_lit(env['HOLE_D%d' % i])
        need(g >= 0, 'negative guard')
        cl.append('(%d%%nat, (%d)%%Z)' % (g, d))
    return cl, [gather(env['HOLE_E%d' % i]) for i in range(3)]


# ---------------------------------------------------------------- Polygon.triangles

ARRAYS = ['indices', 'vertices', 'normals', 'normal_indices', 'texcoords', 'texcoord_indices']
POLY = '''
def triangles(self):
    npts = len(self.vertices)
    for i in range(npts - HOLE_K):
        tri_indices = numpy.array([
            self.indices[HOLE_indices0], self.indices[HOLE_indices1], self.indices[HOLE_indices2]
        ], dtype=numpy.float32)
        tri_vertices = numpy.array([
            self.vertices[HOLE_vertices0], self.vertices[HOLE_vertices1], self.vertices[HOLE_vertices2]
        ], dtype=numpy.float32)
        if self.normals is None:
            tri_normals = None
            normal_indices = None
        else:
            tri_normals = numpy.array([
                self.normals[HOLE_normals0], self.normals[HOLE_normals1], self.normals[HOLE_normals2]
            ], dtype=numpy.float32)
            normal_indices = numpy.array([
                self.normal_indices[HOLE_normal_indices0],
                self.normal_indices[HOLE_normal_indices1],
                self.normal_indices[HOLE_normal_indices2]
            ], dtype=numpy.float32)
        tri_texcoords = []
        tri_texcoord_indices = []
        for texcoord, texcoord_indices in zip(
                self.texcoords, self.texcoord_indices):
            tri_texcoords.append(numpy.array([
                texcoord[HOLE_texcoords0],
                texcoord[HOLE_texcoords1],
                texcoord[HOLE_texcoords2]
            ], dtype=numpy.float32))
            tri_texcoord_indices.append(numpy.array([
                texcoord_indices[HOLE_texcoord_indices0],
                texcoord_indices[HOLE_texcoord_indices1],
                texcoord_indices[HOLE_texcoord_indices2]
            ], dtype=numpy.float32))
        tri = triangleset.Triangle(
            tri_indices, tri_vertices,
            normal_indices, tri_normals,
            tri_texcoord_indices, tri_texcoords,
            self.material)
        yield tri
'''


def iexpr(node):
    try:
        return '(IConst (%d)%%Z)' % int_lit(node)
    except Reject:
        return '(ILoop (%d)%%Z)' % var_plus(node, 'i')


def poly(fn):
    env = match_body(fn, POLY, 'Polygon.triangles')
    k = int_lit(env['HOLE_K'])
    cs = {}
    for a in ARRAYS:
        cs[a] = '(%s, %s, %s)' % tuple(iexpr(env['HOLE_%s%d' % (a, j)]) for j in range(3))
    return k, cs


# ---------------------------------------------------------------- bound path

BOUNDPL = '''
def triangleset(self):
    if self._triangleset is None:
        triset = self.original.triangleset()
        boundtriset = triset.bind(self.matrix, self.materialnodebysymbol)
        self._triangleset = boundtriset
    return self._triangleset
'''

FIELDS = {'index': 'FIndex', '_vertex_index': 'FVertexIndex', '_normal_index': 'FNormalIndex',
          '_texcoord_indexset': 'FTexcoordIndexset', '_textangent_indexset': 'FTextangentIndexset',
          '_texbinormal_indexset': 'FTexbinormalIndexset'}


def bound_ts(fn):
    need([a.arg for a in fn.args.args][:2] == ['self', 'ts'], 'BoundTriangleSet.__init__: signature changed')
    copies = {}
    for st in ast.walk(fn):
        if isinstance(st, ast.Assign):
            for tg in st.targets:
                if isinstance(tg, ast.Attribute) and isinstance(tg.value, ast.Name) and tg.value.id == 'self' \
                        and tg.attr in FIELDS:
                    need(tg.attr not in copies and len(st.targets) == 1, 'BoundTriangleSet: %s assigned twice' % tg.attr)
                    v = st.value
                    need(isinstance(v, ast.Attribute) and isinstance(v.value, ast.Name) and v.value.id == 'ts'
                         and v.attr in FIELDS, 'BoundTriangleSet: self.%s is not a plain copy of an index attribute of ts' % tg.attr)
                    copies[tg.attr] = v.attr
        elif isinstance(st, (ast.AugAssign, ast.AnnAssign)):
            tg = st.target
            need(not (isinstance(tg, ast.Attribute) and tg.attr in FIELDS), 'BoundTriangleSet: augmented assignment to an index attribute')
    need(set(copies) == set(FIELDS), 'BoundTriangleSet.__init__: not every index attribute is assigned')
    # the constructor's top-level statements only (no assignment hidden in a branch)
    top = {tg.attr for st in fn.body if isinstance(st, ast.Assign) for tg in st.targets
           if isinstance(tg, ast.Attribute) and tg.attr in FIELDS}
    need(top == set(FIELDS), 'BoundTriangleSet.__init__: an index attribute is assigned conditionally')
    return [(FIELDS[k], FIELDS[copies[k]]) for k in FIELDS]


# ---------------------------------------------------------------- TriangleSet.load

LOAD = '''
def load(collada, localscope, node):
    indexnodes = node.findall(collada.tag('p'))
    if not indexnodes:
        raise DaeIncompleteError('Missing index in triangle set')
    source_array = primitive.Primitive._getInputs(collada, localscope, node.findall(collada.tag('input')))

    def parse_p(indexnode):
        if indexnode.text is None or indexnode.text.isspace():
            index = numpy.array([], dtype=numpy.int32)
        else:
            index = numpy.fromstring(indexnode.text, dtype=numpy.int32, sep=' ')
        index[numpy.isnan(index)] = 0
        return index
    indexlist = []
    tag_bare = node.tag.split('}')[-1]
    extendfunc = _indexExtendFunctions[tag_bare]
    max_offset = max(input[0] for input_type_array in source_array.values()
                     for input in input_type_array)
    try:
        for indexnode in HOLE_ITER:
            index = parse_p(indexnode)
            if extendfunc is None:
                break
            extendfunc(indexlist, index.reshape((-1, max_offset + HOLE_W)))
        else:
            index = numpy.concatenate(HOLE_CAT)
    except BaseException:
        raise DaeMalformedError('Corrupted index in triangleset')
    triset = TriangleSet(source_array, node.get('material'), index, node)
    triset.xmlnode = node
    return triset
'''


def direction(node, name):
    """name -> forward; reversed(name), name[::-1], list(reversed(name)) -> backward"""
    def is_name(n):
        return isinstance(n, ast.Name) and n.id == name
    if is_name(node):
        return 'false'
    if isinstance(node, ast.Call) and isinstance(node.func, ast.Name) and node.func.id == 'list' and len(node.args) == 1 \
            and not node.keywords:
        node = node.args[0]
    if isinstance(node, ast.Call) and isinstance(node.func, ast.Name) and node.func.id == 'reversed' \
            and len(node.args) == 1 and not node.keywords and is_name(node.args[0]):
        return 'true'
    if isinstance(node, ast.Subscript) and is_name(node.value) and isinstance(node.slice, ast.Slice) \
            and node.slice.lower is None and node.slice.upper is None and node.slice.step is not None \
            and int_lit(node.slice.step) == -1:
        return 'true'
    raise Reject('unexpected iteration over %s: %s' % (name, ast.dump(node)))


def load(fn):
    env = match_body(fn, LOAD, 'TriangleSet.load')
    return direction(env['HOLE_ITER'], 'indexnodes'), int_lit(env['HOLE_W']), direction(env['HOLE_CAT'], 'indexlist')


def dispatch(tree):
    for st in tree.body:
        if isinstance(st, ast.Assign) and len(st.targets) == 1 and isinstance(st.targets[0], ast.Name) \
                and st.targets[0].id == '_indexExtendFunctions':
            need(isinstance(st.value, ast.Dict), '_indexExtendFunctions is not a dict display')
            d = {}
            for k, v in zip(st.value.keys, st.value.values):
                need(isinstance(k, ast.Constant) and isinstance(k.value, str), 'non-literal key')
                if isinstance(v, ast.Constant) and v.value is None:
                    d[k.value] = 'ENone'
                elif isinstance(v, ast.Name) and v.id == '_extendFromStrip':
                    d[k.value] = 'EStrip'
                elif isinstance(v, ast.Name) and v.id == '_extendFromFan':
                    d[k.value] = 'EFan'
                else:
                    raise Reject('unknown expansion function for %s' % k.value)
            need(set(d) == {'tristrips', 'trifans', 'triangles'}, '_indexExtendFunctions has other keys')
            return d
    raise Reject('_indexExtendFunctions not found')


def find_method(tree, cls, name):
    for c in tree.body:
        if isinstance(c, ast.ClassDef) and c.name == cls:
            for f in c.body:
                if isinstance(f, ast.FunctionDef) and f.name == name:
                    return f
    raise Reject('%s.%s not found' % (cls, name))


def main(argv):
    repo, gen = argv[1], argv[2]
    try:
        pl = ast.parse(open(os.path.join(repo, 'collada', 'polylist.py'), encoding='utf-8').read())
        tsm = ast.parse(open(os.path.join(repo, 'collada', 'triangleset.py'), encoding='utf-8').read())
        clears, gathers = triset(find_method(pl, 'Polylist', 'triangleset'))
        k, cs = poly(find_method(pl, 'Polygon', 'triangles'))
        match_body(find_method(pl, 'BoundPolylist', 'triangleset'), BOUNDPL, 'BoundPolylist.triangleset')
        copies = bound_ts(find_method(tsm, 'BoundTriangleSet', '__init__'))
        it, w, cat = load(find_method(tsm, 'TriangleSet', 'load'))
        disp = dispatch(tsm)
    except Reject as e:
        # fail closed: the committed golden copy becomes the definition again
        golden = os.path.join(os.path.dirname(os.path.abspath(__file__)), 'golden', 'Triangulate.v')
        target = os.path.join(gen, 'Triangulate.v')
        if os.path.exists(golden) and (not os.path.exists(target) or open(target).read() != open(golden).read()):
            os.makedirs(gen, exist_ok=True)
            shutil.copyfile(golden, target)
        sys.stderr.write('triangulate translator: source outside the accepted grammar: %s\n' % e)
        return 1
    text = (
        '(* GENERATED by harness/translate/triangulate.py from collada/polylist.py and collada/triangleset.py.\n'
        '   Do not edit: it is rewritten on every build. *)\n'
        'From Coq Require Import List ZArith.\n'
        'From PC Require Import Base.NpProg.\n'
        'Import ListNotations.\n'
        '\n'
        '(* Polylist.triangleset: indexselector[self.polyends[vcounts >= g] - d] = False, in this order *)\n'
        'Definition tri_clears : list clear_spec := [%s].\n'
        '(* ... numpy.dstack((self.index[e0], self.index[e1], self.index[e2])) *)\n'
        'Definition tri_gathers : gexpr * gexpr * gexpr := (%s, %s, %s).\n'
        '\n'
        '(* Polygon.triangles: for i in range(npts - K), and the subscripts of the three corners of each array *)\n'
        'Definition poly_range_sub : Z := (%d)%%Z.\n'
        '%s'
        '\n'
        '(* BoundPolylist.triangleset is self.original.triangleset().bind(...) (template matched);\n'
        '   BoundTriangleSet.__init__: (bound attribute, attribute of the unbound set it is copied from) *)\n'
        'Definition bound_copies : list (tsfield * tsfield) := [%s].\n'
        '\n'
        '(* TriangleSet.load: order of iteration over the <p> elements, width of the reshape as a function of\n'
        '   max_offset, order of the final numpy.concatenate, and _indexExtendFunctions *)\n'
        'Definition load_iter_reversed : bool := %s.\n'
        'Definition load_cols (max_offset : Z) : Z := (max_offset + (%d))%%Z.\n'
        'Definition load_concat_reversed : bool := %s.\n'
        'Definition load_tristrips : ext_fn := %s.\n'
        'Definition load_trifans : ext_fn := %s.\n'
        'Definition load_triangles : ext_fn := %s.\n'
    ) % ('; '.join(clears), gathers[0], gathers[1], gathers[2], k,
         ''.join('Definition poly_%s : corners := %s.\n' % (a, cs[a]) for a in ARRAYS),
         '; '.join('(%s, %s)' % c for c in copies), it, w, cat,
         disp['tristrips'], disp['trifans'], disp['triangles'])
    out = os.path.join(gen, 'Triangulate.v')
    os.makedirs(gen, exist_ok=True)
    if os.path.exists(out) and open(out, encoding='utf-8').read() == text:
        print('Gen/Triangulate.v up to date')
        return 0
    tmp = out + '.tmp%d' % os.getpid()
    with open(tmp, 'w', encoding='utf-8') as f:
        f.write(text)
    os.replace(tmp, out)
    print('Gen/Triangulate.v rewritten')
    return 0


if __name__ == '__main__':
    sys.exit(main(sys.argv))
