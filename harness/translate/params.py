"""Fail-closed translator: collada/common.py + collada/__init__.py (+ the loaders) -> coq/Gen/Params.v

Regenerated on every build:
  * dcls_base   : the direct base of every DaeError class (ClassDef bases of common.py)
  * load_order  : the sequence of self._load*() calls at the end of Collada.__init__
  * lookups     : which library lists each loader consults (collada.<lib> attribute reads inside
                  the `load`/`_load*` functions of the classes belonging to each library)
Exit status is non-zero (and Gen/Params.v is left as committed) whenever the source no longer
matches the accepted grammar; the proofs are stated against the generated definitions."""
import ast
import os
import sys

CLASSES = ['DaeError', 'DaeIncompleteError', 'DaeBrokenRefError', 'DaeMalformedError',
           'DaeUnsupportedError', 'DaeSaveValidationError']
STEPS = {'_loadAssetInfo': 'LAsset', '_loadImages': 'LImages', '_loadEffects': 'LEffects',
         '_loadMaterials': 'LMaterials', '_loadAnimations': 'LAnimations', '_loadGeometry': 'LGeometry',
         '_loadControllers': 'LControllers', '_loadLights': 'LLights', '_loadCameras': 'LCameras',
         '_loadNodes': 'LNodes', '_loadScenes': 'LScenes', '_loadDefaultScene': 'LDefaultScene'}
LIBATTR = {'images': 'LImages', 'effects': 'LEffects', 'materials': 'LMaterials', 'animations': 'LAnimations',
           'geometries': 'LGeometry', 'controllers': 'LControllers', 'lights': 'LLights', 'cameras': 'LCameras',
           'nodes': 'LNodes', 'scenes': 'LScenes'}
# class -> the load steps during which its loader runs
OWNER = {
    ('material.py', 'CImage'): ['LImages', 'LEffects'],
    ('material.py', 'Surface'): ['LEffects'], ('material.py', 'Sampler2D'): ['LEffects'],
    ('material.py', 'Map'): ['LEffects'], ('material.py', 'Effect'): ['LEffects'],
    ('material.py', 'Material'): ['LMaterials'],
    ('geometry.py', 'Geometry'): ['LGeometry'],
    ('controller.py', 'Controller'): ['LControllers'], ('controller.py', 'Skin'): ['LControllers'],
    ('controller.py', 'Morph'): ['LControllers'],
    ('scene.py', 'Scene'): ['LScenes'],
}
NODE_CLASSES = ['Node', 'NodeNode', 'GeometryNode', 'ControllerNode', 'MaterialNode', 'CameraNode', 'LightNode',
                'ExtraNode', 'TranslateTransform', 'RotateTransform', 'ScaleTransform', 'MatrixTransform',
                'LookAtTransform']
for _c in NODE_CLASSES:
    OWNER[('scene.py', _c)] = ['LNodes', 'LScenes']
NO_LOOKUP_FILES = ['source.py', 'primitive.py', 'triangleset.py', 'polylist.py', 'polygons.py', 'lineset.py',
                   'light.py', 'camera.py', 'animation.py', 'asset.py']


PYCLS = {'ValueError': 'PC_ValueError', 'TypeError': 'PC_TypeError', 'AttributeError': 'PC_AttributeError',
         'LookupError': 'PC_LookupError', 'IndexError': 'PC_IndexError', 'KeyError': 'PC_KeyError',
         'ArithmeticError': 'PC_ArithmeticError', 'Exception': 'PC_Exception'}


class Reject(Exception):
    pass


def raw_load_errors(repo):
    """the tuple common.DaeRawLoadErrors: which built-in classes a load boundary converts"""
    tree = ast.parse(open(os.path.join(repo, 'collada', 'common.py')).read())
    found = None
    for n in tree.body:
        if isinstance(n, ast.Assign) and len(n.targets) == 1 and isinstance(n.targets[0], ast.Name) \
                and n.targets[0].id == 'DaeRawLoadErrors':
            if found is not None or not isinstance(n.value, ast.Tuple):
                raise Reject('DaeRawLoadErrors is not a single tuple assignment')
            found = []
            for e in n.value.elts:
                if not isinstance(e, ast.Name) or e.id not in PYCLS:
                    raise Reject('DaeRawLoadErrors names an unknown class')
                found.append(PYCLS[e.id])
    if found is None:
        raise Reject('common.DaeRawLoadErrors not found')
    return found


def _is_boundary(tr):
    """try: ... except DaeError as ex: <x>.handleError(ex)  except DaeRawLoadErrors as ex: <x>.handleRawLoadError(..)"""
    names = []
    for h in tr.handlers:
        if isinstance(h.type, ast.Name):
            names.append(h.type.id)
            if h.type.id == 'DaeRawLoadErrors':
                calls = [c for c in ast.walk(h) if isinstance(c, ast.Call) and isinstance(c.func, ast.Attribute)
                         and c.func.attr == 'handleRawLoadError']
                if len(calls) != 1 or len(h.body) != 1:
                    raise Reject('a DaeRawLoadErrors handler does something else than handleRawLoadError')
    return 'DaeError' in names and 'DaeRawLoadErrors' in names, 'DaeError' in names


def boundaries(repo):
    """the load steps whose per-object try/except converts DaeRawLoadErrors, and whether the child
    loop of Node.load does"""
    tree = ast.parse(open(os.path.join(repo, 'collada', '__init__.py')).read())
    cls = [n for n in tree.body if isinstance(n, ast.ClassDef) and n.name == 'Collada'][0]
    libs = []
    for f in cls.body:
        if isinstance(f, ast.FunctionDef) and f.name in STEPS:
            tries = [t for t in ast.walk(f) if isinstance(t, ast.Try)]
            flags = [_is_boundary(t) for t in tries]
            guarded = [fl for fl in flags if fl[1]]          # try blocks that catch DaeError at all
            if guarded and all(fl[0] for fl in guarded):
                libs.append(STEPS[f.name])
    tree = ast.parse(open(os.path.join(repo, 'collada', 'scene.py')).read())
    node = [n for n in tree.body if isinstance(n, ast.ClassDef) and n.name == 'Node']
    child = False
    if len(node) == 1:
        for f in node[0].body:
            if isinstance(f, ast.FunctionDef) and f.name == 'load':
                tries = [t for t in ast.walk(f) if isinstance(t, ast.Try)]
                child = bool(tries) and all(_is_boundary(t)[0] for t in tries)
    return libs, child


def hierarchy(repo):
    tree = ast.parse(open(os.path.join(repo, 'collada', 'common.py')).read())
    base = {}
    for n in tree.body:
        if isinstance(n, ast.ClassDef) and n.name.startswith('Dae') and n.name.endswith('Error'):
            if len(n.bases) != 1 or not isinstance(n.bases[0], ast.Name) or n.keywords:
                raise Reject('class %s: unsupported bases' % n.name)
            base[n.name] = n.bases[0].id
    if sorted(base) != sorted(CLASSES):
        raise Reject('DaeError classes of common.py are %s' % sorted(base))
    out = {}
    for c, b in base.items():
        if b in base:
            out[c] = b
        elif b in ('Exception', 'BaseException', 'object') or b.endswith('Error') or b.endswith('Exception'):
            out[c] = None  # a built-in base: not below DaeError
        else:
            raise Reject('class %s: unknown base %s' % (c, b))
    return out


def load_order(repo):
    tree = ast.parse(open(os.path.join(repo, 'collada', '__init__.py')).read())
    cls = [n for n in tree.body if isinstance(n, ast.ClassDef) and n.name == 'Collada']
    if len(cls) != 1:
        raise Reject('class Collada not found')
    init = [n for n in cls[0].body if isinstance(n, ast.FunctionDef) and n.name == '__init__']
    if len(init) != 1:
        raise Reject('Collada.__init__ not found')

    def call_name(st):
        if isinstance(st, ast.Expr) and isinstance(st.value, ast.Call) and not st.value.args and not st.value.keywords:
            f = st.value.func
            if isinstance(f, ast.Attribute) and isinstance(f.value, ast.Name) and f.value.id == 'self' \
                    and f.attr.startswith('_load'):
                return f.attr
        return None
    body = init[0].body
    names = [call_name(st) for st in body]
    if not any(names):
        raise Reject('no self._load*() calls in Collada.__init__')
    first = next(i for i, n in enumerate(names) if n)
    tail = names[first:]
    if any(n is None for n in tail):
        raise Reject('statements other than self._load*() follow the first load call')
    # no _load call may hide anywhere else in __init__ (conditionals, loops)
    hidden = 0
    for node in ast.walk(init[0]):
        if isinstance(node, ast.Attribute) and isinstance(node.value, ast.Name) and node.value.id == 'self' \
                and node.attr.startswith('_load'):
            hidden += 1
    if hidden != len(tail):
        raise Reject('a _load* method is referenced outside the final call sequence')
    if sorted(tail) != sorted(STEPS):
        raise Reject('load calls are %s' % tail)
    return [STEPS[n] for n in tail]


def loader_functions(classdef):
    for n in classdef.body:
        if isinstance(n, ast.FunctionDef) and (n.name == 'load' or n.name.startswith('_load')
                                               or n.name == 'getEffectParameters'):
            yield n


def lib_reads(fn, objname):
    out = set()
    for node in ast.walk(fn):
        if isinstance(node, ast.Attribute) and isinstance(node.value, ast.Name) and node.value.id == objname \
                and node.attr in LIBATTR:
            out.add(LIBATTR[node.attr])
    return out


def lookups(repo):
    pairs = set()
    cdir = os.path.join(repo, 'collada')
    for fn in sorted(os.listdir(cdir)):
        if not fn.endswith('.py') or fn in ('__init__.py', '__main__.py'):
            continue
        tree = ast.parse(open(os.path.join(cdir, fn)).read())
        for n in tree.body:
            if isinstance(n, ast.ClassDef):
                reads = set()
                for f in loader_functions(n):
                    reads |= lib_reads(f, 'collada')
                if not reads:
                    continue
                owners = OWNER.get((fn, n.name))
                if owners is None:
                    raise Reject('%s: class %s reads %s but belongs to no known load step' % (fn, n.name, sorted(reads)))
                for o in owners:
                    for r in reads:
                        pairs.add((o, r))
            elif isinstance(n, ast.FunctionDef):
                if lib_reads(n, 'collada') and n.name != 'loadNode':
                    raise Reject('%s: module-level function %s reads a library list' % (fn, n.name))
    # Collada._load* methods: self.<lib>
    tree = ast.parse(open(os.path.join(cdir, '__init__.py')).read())
    cls = [n for n in tree.body if isinstance(n, ast.ClassDef) and n.name == 'Collada'][0]
    for f in cls.body:
        if isinstance(f, ast.FunctionDef) and f.name.startswith('_load'):
            if f.name not in STEPS:
                raise Reject('unknown load method %s' % f.name)
            for r in lib_reads(f, 'self'):
                pairs.add((STEPS[f.name], r))
    return sorted(pairs)


def render(base, order, pairs, raw=(), bounds=((), False)):
    lines = ['(* GENERATED by harness/translate/params.py from collada/common.py, collada/__init__.py and the',
             '   loader classes - do not edit.  Regenerated on every build; proofs are stated against it. *)',
             'From Coq Require Import List.', 'From PC Require Import Base.Libs.', 'Import ListNotations.', '',
             '(* direct base class inside the DaeError family; None = a built-in exception class *)',
             'Definition dcls_base (k : dcls) : option dcls :=', '  match k with']
    for c in CLASSES:
        b = base[c]
        lines.append('  | K_%s => %s' % (c, 'None' if b is None else 'Some K_%s' % b))
    lines += ['  end.', '', '(* the self._load*() calls of Collada.__init__, in source order *)',
              'Definition load_order : list lib :=', '  [' + '; '.join(order) + '].', '',
              '(* (step, library list it reads): collada.<lib> reads inside the loaders run by that step *)',
              'Definition lookups : list (lib * lib) :=',
              '  [' + '; '.join('(%s, %s)' % p for p in pairs) + '].', '',
              '(* common.DaeRawLoadErrors: the built-in classes a load boundary reports as DaeMalformedError *)',
              'Definition raw_load_errors : list pycls :=', '  [' + '; '.join(raw) + '].', '',
              '(* load steps whose per-object try/except has the DaeRawLoadErrors clause; the child loop of Node.load *)',
              'Definition raw_boundaries : list lib :=', '  [' + '; '.join(bounds[0]) + '].',
              'Definition node_child_boundary : bool := %s.' % ('true' if bounds[1] else 'false'), '']
    return '\n'.join(lines)


def main(argv):
    repo, gen = argv[1], argv[2]
    try:
        text = render(hierarchy(repo), load_order(repo), lookups(repo), raw_load_errors(repo), boundaries(repo))
    except (Reject, SyntaxError, OSError) as e:
        sys.stderr.write('params: source does not match the accepted grammar: %s\n' % (e,))
        return 1
    p = os.path.join(gen, 'Params.v')
    os.makedirs(gen, exist_ok=True)
    if not os.path.exists(p) or open(p).read() != text:
        with open(p, 'w') as f:
            f.write(text)
    print('Params.v: %d classes, %d load steps, %d lookups' % (len(CLASSES), len(STEPS), text.count('(L') ))
    return 0


if __name__ == '__main__':
    sys.exit(main(sys.argv))
