"""Fail-closed translator for C18: regenerates coq/Gen/Tangents.v from the source of
TriangleSet.generateTexTangentsAndBinormals - the scalar expressions of sdir / tdir and the
per-corner Gram-Schmidt step, including WHICH index array selects the corner's normal and the
corner's accumulated tangent.

argv = [repo, gen_dir].  Accepted grammar (anything else: exit 1, golden copy put back):
    tris = self._vertex[self._vertex_index]
    uvs = self._texcoordset[0][self._texcoord_indexset[0]]
    NAME = EXPR                       EXPR ::= tris[:, A, K] | uvs[:, A, K] | NAME | EXPR (+|-|*) EXPR
                                              | 1.0 / EXPR            (A, K integer literals)
    sdir = numpy.vstack((N, N, N)).T  (tdir likewise)
    tans1 / tans2 = numpy.zeros(...) and their three accumulation statements (either shape, see
                                      normalsacc.py) with rows sdir / tdir
    norm = ARR[IDX];  tan1 = ARR[IDX];  tan2 = ARR[IDX]      ARR ::= self._normal | tans1 | tans2
                                                            IDX ::= self._normal_index | self._vertex_index
    X.shape = (...)
    tangent = normalize_v3(V - V * dot_v3(V, V)[:, numpy.newaxis])       V ::= norm | tan1
    tanw = dot_v3(numpy.cross(V, V), V);  tanw = numpy.sign(tanw)          V ::= norm | tan1 | tan2
    binorm = numpy.cross(B, B).flatten();  binorm = binorm * tanw[:, numpy.newaxis]   B ::= norm | tangent
    assignments to self._tex* are not translated; every translated scalar/vector name must be
    assigned exactly once."""
import ast
import os
import sys

HERE = os.path.dirname(os.path.abspath(__file__))
GOLDEN = os.path.join(HERE, 'golden', 'Tangents.v')


class Reject(Exception):
    pass


def write_if_changed(path, text):
    if os.path.exists(path) and open(path, encoding='utf-8').read() == text:
        return False
    tmp = path + '.tmp%d' % os.getpid()
    with open(tmp, 'w', encoding='utf-8') as f:
        f.write(text)
    os.replace(tmp, path)
    return True


def self_attr(node, name=None):
    ok = isinstance(node, ast.Attribute) and isinstance(node.value, ast.Name) and node.value.id == 'self'
    return ok and (name is None or node.attr == name)


def int_const(node):
    if isinstance(node, ast.Constant) and type(node.value) is int:
        return node.value
    raise Reject('integer literal expected: ' + ast.dump(node))


COMP3 = ['vx o', 'vy o', 'vz o']
COMP2 = ['fst', 'snd']


def expr(node, scalars):
    """scalar arithmetic -> Gallina"""
    if isinstance(node, ast.Name):
        if node.id not in scalars:
            raise Reject('unknown scalar %s' % node.id)
        return node.id
    if isinstance(node, ast.Subscript) and isinstance(node.value, ast.Name) and node.value.id in ('tris', 'uvs'):
        sl = node.slice
        if not (isinstance(sl, ast.Tuple) and len(sl.elts) == 3 and isinstance(sl.elts[0], ast.Slice)
                and sl.elts[0].lower is None and sl.elts[0].upper is None and sl.elts[0].step is None):
            raise Reject('unexpected subscript of %s' % node.value.id)
        a, k = int_const(sl.elts[1]), int_const(sl.elts[2])
        if node.value.id == 'tris':
            if a not in (0, 1, 2) or k not in (0, 1, 2):
                raise Reject('tris[:, %d, %d]' % (a, k))
            return '(%s p%d)' % (COMP3[k], a)
        if a not in (0, 1, 2) or k not in (0, 1):
            raise Reject('uvs[:, %d, %d]' % (a, k))
        return '(%s w%d)' % (COMP2[k], a)
    if isinstance(node, ast.BinOp):
        if isinstance(node.op, ast.Div):
            if isinstance(node.left, ast.Constant) and node.left.value in (1, 1.0):
                return '(rinv %s)' % expr(node.right, scalars)
            raise Reject('division other than 1.0 / x')
        op = {ast.Add: 'radd', ast.Sub: 'rsub', ast.Mult: 'rmul'}.get(type(node.op))
        if op is None:
            raise Reject('operator ' + type(node.op).__name__)
        return '(%s o %s %s)' % (op, expr(node.left, scalars), expr(node.right, scalars))
    raise Reject('expression ' + ast.dump(node)[:80])


def gather(node):
    """ARR[IDX] -> (array, index) names"""
    if not isinstance(node, ast.Subscript):
        return None
    v, i = node.value, node.slice
    arr = 'normals' if self_attr(v, '_normal') else v.id if isinstance(v, ast.Name) and v.id in ('tans1', 'tans2') else None
    idx = 'n' if self_attr(i, '_normal_index') else 't' if self_attr(i, '_vertex_index') else None
    if arr is None or idx is None:
        return None
    return arr, idx


def translate(repo):
    src = open(os.path.join(repo, 'collada', 'triangleset.py')).read()
    tree = ast.parse(src)
    cls = [n for n in tree.body if isinstance(n, ast.ClassDef) and n.name == 'TriangleSet']
    if len(cls) != 1:
        raise Reject('class TriangleSet not found')
    fns = [n for n in cls[0].body if isinstance(n, ast.FunctionDef) and n.name == 'generateTexTangentsAndBinormals']
    if len(fns) != 1:
        raise Reject('generateTexTangentsAndBinormals not found')
    lets, scalars, vectors, gathers, assigned, extra = [], set(), {}, {}, {}, {}
    tangent = None
    acc = {'tans1': [], 'tans2': []}
    for stmt in fns[0].body:
        if isinstance(stmt, ast.Expr) and isinstance(stmt.value, ast.Constant):
            continue                                         # docstring
        if isinstance(stmt, ast.Assign) and len(stmt.targets) == 1 and isinstance(stmt.targets[0], ast.Name):
            name, val = stmt.targets[0].id, stmt.value
            assigned[name] = assigned.get(name, 0) + 1
            if name == 'tanw' or name == 'binorm':
                extra.setdefault(name, []).append(val)       # binormal and its handedness: checked below
                continue
            if name == 'tris':
                if not (isinstance(val, ast.Subscript) and self_attr(val.value, '_vertex') and self_attr(val.slice, '_vertex_index')):
                    raise Reject('tris is not self._vertex[self._vertex_index]')
                continue
            if name == 'uvs':
                if ast.unparse(val) != 'self._texcoordset[0][self._texcoord_indexset[0]]':
                    raise Reject('uvs is not self._texcoordset[0][self._texcoord_indexset[0]]')
                continue
            if name in ('tans1', 'tans2'):
                if not (isinstance(val, ast.Call) and ast.unparse(val.func) == 'numpy.zeros'):
                    raise Reject('%s is not numpy.zeros(...)' % name)
                continue
            if name in ('sdir', 'tdir'):
                if not (isinstance(val, ast.Attribute) and val.attr == 'T' and isinstance(val.value, ast.Call)
                        and ast.unparse(val.value.func) == 'numpy.vstack' and len(val.value.args) == 1
                        and isinstance(val.value.args[0], ast.Tuple) and len(val.value.args[0].elts) == 3
                        and all(isinstance(e, ast.Name) and e.id in scalars for e in val.value.args[0].elts)):
                    raise Reject('%s is not numpy.vstack((a, b, c)).T of known scalars' % name)
                vectors[name] = [e.id for e in val.value.args[0].elts]
                continue
            if name in ('norm', 'tan1', 'tan2'):
                g = gather(val)
                if g is None:
                    raise Reject('%s is not ARR[IDX]' % name)
                gathers[name] = g
                continue
            if name == 'tangent':
                tangent = val
                continue
            # a scalar definition
            lets.append((name, expr(val, scalars)))
            scalars.add(name)
            continue
        if isinstance(stmt, ast.Assign) and len(stmt.targets) == 1:
            t = stmt.targets[0]
            if isinstance(t, ast.Attribute) and t.attr == 'shape':
                continue
            if self_attr(t) and t.attr.startswith('_tex'):
                continue
            raise Reject('unrecognised assignment to ' + ast.unparse(t))
        # accumulation statements
        tgt = None
        if isinstance(stmt, ast.AugAssign) and isinstance(stmt.target, ast.Subscript) and isinstance(stmt.target.value, ast.Name):
            tgt, rows = stmt.target.value.id, stmt.value
        elif isinstance(stmt, ast.Expr) and isinstance(stmt.value, ast.Call) and ast.unparse(stmt.value.func) == 'numpy.add.at' \
                and len(stmt.value.args) == 3 and isinstance(stmt.value.args[0], ast.Name):
            tgt, rows = stmt.value.args[0].id, stmt.value.args[2]
        if tgt in acc and isinstance(rows, ast.Name):
            acc[tgt].append(rows.id)
            continue
        raise Reject('unrecognised statement: ' + ast.unparse(stmt)[:80])
    for name in list(scalars) + ['sdir', 'tdir', 'norm', 'tan1', 'tangent', 'tris', 'uvs', 'tans1', 'tans2']:
        if assigned.get(name, 0) != 1:
            raise Reject('%s is assigned %d times' % (name, assigned.get(name, 0)))
    if acc['tans1'] != ['sdir'] * 3 or acc['tans2'] != ['tdir'] * 3:
        raise Reject('tans1/tans2 do not accumulate sdir/tdir three times: %r' % acc)
    if 'norm' not in gathers or 'tan1' not in gathers:
        raise Reject('norm / tan1 not gathered')
    if gathers['norm'][0] != 'normals' or gathers['tan1'][0] != 'tans1':
        raise Reject('norm / tan1 gathered from %r / %r' % (gathers['norm'][0], gathers['tan1'][0]))
    # tangent = normalize_v3(A - B * dot_v3(C, D)[:, numpy.newaxis])
    ok = isinstance(tangent, ast.Call) and ast.unparse(tangent.func) == 'normalize_v3' and len(tangent.args) == 1
    e = tangent.args[0] if ok else None
    ok = ok and isinstance(e, ast.BinOp) and isinstance(e.op, ast.Sub) and isinstance(e.left, ast.Name) \
        and isinstance(e.right, ast.BinOp) and isinstance(e.right.op, ast.Mult) and isinstance(e.right.left, ast.Name)
    d = e.right.right if ok else None
    ok = ok and isinstance(d, ast.Subscript) and ast.unparse(d.slice) == '(slice(None, None, None), numpy.newaxis)' \
        or (ok and isinstance(d, ast.Subscript) and ast.unparse(d).endswith('[:, numpy.newaxis]'))
    ok = ok and isinstance(d.value, ast.Call) and ast.unparse(d.value.func) == 'dot_v3' and len(d.value.args) == 2 \
        and all(isinstance(a, ast.Name) for a in d.value.args)
    if not ok:
        raise Reject('tangent is not normalize_v3(A - B * dot_v3(C, D)[:, numpy.newaxis])')
    names = [e.left.id, e.right.left.id, d.value.args[0].id, d.value.args[1].id]
    if any(n not in ('norm', 'tan1') for n in names):
        raise Reject('tangent expression over %r' % names)
    A, B, C, D = names
    # tanw = dot_v3(numpy.cross(X, Y), Z); tanw = numpy.sign(tanw)
    # binorm = numpy.cross(P, Q).flatten(); binorm = binorm * tanw[:, numpy.newaxis]
    tw, bn = extra.get('tanw', []), extra.get('binorm', [])
    if len(tw) != 2 or len(bn) != 2:
        raise Reject('tanw / binorm are not assigned twice each')
    t0 = tw[0]
    if not (isinstance(t0, ast.Call) and ast.unparse(t0.func) == 'dot_v3' and len(t0.args) == 2
            and isinstance(t0.args[0], ast.Call) and ast.unparse(t0.args[0].func) == 'numpy.cross'
            and len(t0.args[0].args) == 2 and all(isinstance(a, ast.Name) for a in t0.args[0].args)
            and isinstance(t0.args[1], ast.Name)):
        raise Reject('tanw is not dot_v3(numpy.cross(X, Y), Z)')
    X, Y, Z = t0.args[0].args[0].id, t0.args[0].args[1].id, t0.args[1].id
    if any(n not in ('norm', 'tan1', 'tan2') for n in (X, Y, Z)):
        raise Reject('tanw over %r' % ((X, Y, Z),))
    if ast.unparse(tw[1]) != 'numpy.sign(tanw)':
        raise Reject('second tanw is not numpy.sign(tanw)')
    b0 = bn[0]
    if not (isinstance(b0, ast.Call) and isinstance(b0.func, ast.Attribute) and b0.func.attr == 'flatten' and not b0.args
            and isinstance(b0.func.value, ast.Call) and ast.unparse(b0.func.value.func) == 'numpy.cross'
            and len(b0.func.value.args) == 2 and all(isinstance(a, ast.Name) for a in b0.func.value.args)):
        raise Reject('binorm is not numpy.cross(P, Q).flatten()')
    P, Q = (a.id for a in b0.func.value.args)
    if any(n not in ('norm', 'tangent') for n in (P, Q)):
        raise Reject('binorm over %r' % ((P, Q),))
    if ast.unparse(bn[1]) != 'binorm * tanw[:, numpy.newaxis]':
        raise Reject('second binorm is not binorm * tanw[:, numpy.newaxis]')
    if 'tan2' not in gathers or gathers['tan2'][0] != 'tans2':
        raise Reject('tan2 is not gathered from tans2')
    let_text = ''.join('    let %s := %s in\n' % (n, x) for n, x in lets)
    idx = {'n': 'n', 't': 't'}
    text = ('(* GENERATED by harness/translate/tangents.py from collada/triangleset.py - do not edit.\n'
            '   generateTexTangentsAndBinormals: the scalar expressions of sdir / tdir, and the per-corner\n'
            '   Gram-Schmidt step with the index arrays the code gathers the normal and the accumulated\n'
            '   tangent through (t = self._vertex_index row, n = self._normal_index row). *)\n'
            'From Coq Require Import List.\n'
            'From PC Require Import Model.Normals Gen.NormalsAcc.\n\n'
            'Section GenTangents.\n'
            '  Variable o : ops.\n'
            '  Variable rinv : car o -> car o.\n\n'
            '  Definition code_sdir (p0 p1 p2 : vec o) (w0 w1 w2 : uv o) : vec o :=\n%s    (%s, %s, %s).\n\n'
            '  Definition code_tdir (p0 p1 p2 : vec o) (w0 w1 w2 : uv o) : vec o :=\n%s    (%s, %s, %s).\n\n'
            '  (* norm = self._normal[%s]; tan1 = tans1[%s]; the vector that normalize_v3 then receives *)\n'
            '  Definition code_corner_tangent (normals tans1 : list (vec o)) (t n : tri) (c : nat) : vec o :=\n'
            '    let norm := vnth o normals (corner %s c) in\n'
            '    let tan1 := vnth o tans1 (corner %s c) in\n'
            '    vsub o %s (vscale o (dot_v3 o %s %s) %s).\n\n'
            '  Definition code_sdir_of (verts : list (vec o)) (uvs : list (uv o)) (t u : tri) : vec o :=\n'
            '    code_sdir (vnth o verts (c0 t)) (vnth o verts (c1 t)) (vnth o verts (c2 t))\n'
            '              (uvnth o uvs (c0 u)) (uvnth o uvs (c1 u)) (uvnth o uvs (c2 u)).\n\n'
            '  Definition code_gen_tangents_raw (verts : list (vec o)) (uvs : list (uv o)) (normals : list (vec o))\n'
            '             (tris uvtris ntris : list tri) : list (vec o) :=\n'
            '    let tans1 := accumulate3 o (code_accumulate o) (length verts) tris\n'
            '                   (rows2 o (code_sdir_of verts uvs) tris uvtris) in\n'
            '    corner_rows o (code_corner_tangent normals tans1) tris ntris.\n\n'
            '  (* ---- binormal: tanw = sign(dot_v3(cross(%s, %s), %s)); binorm = cross(%s, %s) * tanw ---- *)\n'
            '  Variable nrm : vec o -> vec o.     (* normalize_v3 on one row *)\n'
            '  Variable sgn : car o -> car o.     (* numpy.sign *)\n\n'
            '  Definition code_tdir_of (verts : list (vec o)) (uvs : list (uv o)) (t u : tri) : vec o :=\n'
            '    code_tdir (vnth o verts (c0 t)) (vnth o verts (c1 t)) (vnth o verts (c2 t))\n'
            '              (uvnth o uvs (c0 u)) (uvnth o uvs (c1 u)) (uvnth o uvs (c2 u)).\n\n'
            '  Definition code_corner_handedness (normals tans1 tans2 : list (vec o)) (t n : tri) (c : nat) : car o :=\n'
            '    let norm := vnth o normals (corner %s c) in\n'
            '    let tan1 := vnth o tans1 (corner %s c) in\n'
            '    let tan2 := vnth o tans2 (corner %s c) in\n'
            '    sgn (dot_v3 o (cross o %s %s) %s).\n\n'
            '  Definition code_corner_binormal (normals tans1 tans2 : list (vec o)) (t n : tri) (c : nat) : vec o :=\n'
            '    let norm := vnth o normals (corner %s c) in\n'
            '    let tangent := nrm (code_corner_tangent normals tans1 t n c) in\n'
            '    let tanw := code_corner_handedness normals tans1 tans2 t n c in\n'
            '    let binorm := cross o %s %s in\n'
            '    (rmul o (vx o binorm) tanw, rmul o (vy o binorm) tanw, rmul o (vz o binorm) tanw).\n\n'
            '  Definition code_gen_binormals (verts : list (vec o)) (uvs : list (uv o)) (normals : list (vec o))\n'
            '             (tris uvtris ntris : list tri) : list (vec o) :=\n'
            '    let tans1 := accumulate3 o (code_accumulate o) (length verts) tris\n'
            '                   (rows2 o (code_sdir_of verts uvs) tris uvtris) in\n'
            '    let tans2 := accumulate3 o (code_accumulate o) (length verts) tris\n'
            '                   (rows2 o (code_tdir_of verts uvs) tris uvtris) in\n'
            '    corner_rows o (code_corner_binormal normals tans1 tans2) tris ntris.\n'
            'End GenTangents.\n'
            % (let_text, vectors['sdir'][0], vectors['sdir'][1], vectors['sdir'][2],
               let_text, vectors['tdir'][0], vectors['tdir'][1], vectors['tdir'][2],
               'self._normal_index' if gathers['norm'][1] == 'n' else 'self._vertex_index',
               'self._normal_index' if gathers['tan1'][1] == 'n' else 'self._vertex_index',
               idx[gathers['norm'][1]], idx[gathers['tan1'][1]], A, C, D, B,
               X, Y, Z, P, Q,
               idx[gathers['norm'][1]], idx[gathers['tan1'][1]], idx[gathers['tan2'][1]], X, Y, Z,
               idx[gathers['norm'][1]], P, Q))
    return text


def main(argv):
    repo, gen = argv[1], argv[2]
    out = os.path.join(gen, 'Tangents.v')
    try:
        text = translate(repo)
    except (Reject, SyntaxError, OSError, KeyError, AttributeError, IndexError) as e:
        if os.path.exists(GOLDEN):
            write_if_changed(out, open(GOLDEN, encoding='utf-8').read())
        sys.stderr.write('tangents: source left the accepted grammar: %s\n' % (e,))
        return 1
    write_if_changed(out, text)
    print('Tangents.v: sdir/tdir expressions and corner gathers regenerated')
    return 0


if __name__ == '__main__':
    sys.exit(main(sys.argv))
