"""Fail-closed translator: collada/scene.py (+ util.toUnitVec) -> coq/Gen/Transforms.v.

argv = [repo, gen_dir].  Re-emits, as Gallina over an abstract ring-with-extras `ops R`:

  * makeRotationMatrix: the sixteen entries, and which of c/s is cos/sin;
  * Translate/Scale/LookAt/Matrix/Rotate constructors: which cells of the identity they
    write, with what; the degree->radian expression; the loaders' argument order;
  * the node-matrix folds of Node.__init__ and Node.save (argument order of numpy.dot);
  * Node.objects / NodeNode.objects / Scene.objects / the four instance nodes: the matrix
    they pass on (argument order of numpy.dot, what is handed to the children), the
    traversal kind string each instance node answers to.

The accepted grammar is narrow.  Anything else -> exit 1 after restoring the committed
golden copy (harness/translate/golden/Transforms.v), so the build then checks the proofs
against the last accepted reading and the property rests on the correspondence alone.
A change INSIDE the grammar (a flipped sign, swapped dot arguments, rows for columns)
is re-emitted faithfully and makes a theorem of Properties/C13.v or C12.v fail to check.
"""
import ast
import os
import shutil
import sys

HERE = os.path.dirname(os.path.abspath(__file__))
GOLDEN = os.path.join(HERE, 'golden', 'Transforms.v')


class Reject(Exception):
    pass


def need(cond, msg):
    if not cond:
        raise Reject(msg)


def dotted(n):
    """a.b.c as a string, or None"""
    if isinstance(n, ast.Name):
        return n.id
    if isinstance(n, ast.Attribute):
        b = dotted(n.value)
        return None if b is None else b + '.' + n.attr
    return None


def find_def(body, name, kind=(ast.FunctionDef,)):
    for n in body:
        if isinstance(n, kind) and n.name == name:
            return n
    raise Reject('no definition of %s' % name)


def strip_doc(stmts):
    """drop docstrings / bare string expressions (attribute docstrings)"""
    return [s for s in stmts if not (isinstance(s, ast.Expr) and isinstance(s.value, ast.Constant)
                                     and isinstance(s.value.value, str))]


def argnames(fn):
    need(not fn.args.vararg and not fn.args.kwarg and not fn.args.kwonlyargs, '%s: unusual signature' % fn.name)
    return [a.arg for a in fn.args.args]


# ------------------------------------------------------------------ scalar expressions

def const_int(n):
    if isinstance(n, ast.Constant) and isinstance(n.value, (int, float)) and not isinstance(n.value, bool):
        v = n.value
        if float(v) == int(v):
            return int(v)
    if isinstance(n, ast.UnaryOp) and isinstance(n.op, ast.USub):
        v = const_int(n.operand)
        return None if v is None else -v
    return None


def lit(k):
    """small integer literal as a ring term"""
    if k == 0:
        return '(o0 O)'
    if k == 1:
        return '(o1 O)'
    if k < 0:
        return '(oopp O %s)' % lit(-k)
    need(k <= 4, 'integer literal %d in a ring expression' % k)
    return '(oadd O %s (o1 O))' % lit(k - 1)


def scalar(n, env):
    """Python scalar arithmetic over names in env -> ring term (prefix form)"""
    if isinstance(n, ast.Name):
        need(n.id in env, 'unknown name %s in arithmetic' % n.id)
        return env[n.id]
    if isinstance(n, ast.Constant):
        k = const_int(n)
        need(k is not None, 'non-integer constant %r' % (n.value,))
        if isinstance(n.value, float) or abs(k) > 4:
            return '(oofZ O (%d)%%Z)' % k
        return lit(k)
    if isinstance(n, ast.Attribute) and dotted(n) == 'numpy.pi':
        return '(opi O)'
    if isinstance(n, ast.UnaryOp) and isinstance(n.op, ast.USub):
        return '(oopp O %s)' % scalar(n.operand, env)
    if isinstance(n, ast.UnaryOp) and isinstance(n.op, ast.UAdd):
        return scalar(n.operand, env)
    if isinstance(n, ast.BinOp):
        op = {ast.Add: 'oadd', ast.Sub: 'osub', ast.Mult: 'omul', ast.Div: 'odiv'}.get(type(n.op))
        need(op is not None, 'operator %s' % type(n.op).__name__)
        return '(%s O %s %s)' % (op, scalar(n.left, env), scalar(n.right, env))
    if isinstance(n, ast.Call) and dotted(n.func) in ('numpy.cos', 'numpy.sin', 'numpy.sqrt') and len(n.args) == 1 and not n.keywords:
        f = {'numpy.cos': 'ocos', 'numpy.sin': 'osin', 'numpy.sqrt': 'osqrt'}[dotted(n.func)]
        return '(%s O %s)' % (f, scalar(n.args[0], env))
    if isinstance(n, ast.Call) and dotted(n.func) == 'numpy.vdot' and len(n.args) == 2 and not n.keywords:
        return '(vdot (oadd O) (omul O) %s %s)' % (vector(n.args[0], env), vector(n.args[1], env))
    raise Reject('scalar expression not in the grammar: %s' % ast.dump(n)[:120])


def vector(n, env):
    """3-vector expressions: names, numpy.subtract/add/cross/multiply(k, v), toUnitVec(v), v / k (componentwise)"""
    if isinstance(n, ast.Name):
        need(n.id in env, 'unknown vector name %s' % n.id)
        return env[n.id]
    if isinstance(n, ast.Call) and not n.keywords:
        f = dotted(n.func)
        a = n.args
        if f == 'numpy.subtract' and len(a) == 2:
            return '(vsub (osub O) %s %s)' % (vector(a[0], env), vector(a[1], env))
        if f == 'numpy.add' and len(a) == 2:
            return '(vadd (oadd O) %s %s)' % (vector(a[0], env), vector(a[1], env))
        if f == 'numpy.cross' and len(a) == 2:
            return '(vcross (omul O) (osub O) %s %s)' % (vector(a[0], env), vector(a[1], env))
        if f == 'numpy.multiply' and len(a) == 2:
            return '(vscale (omul O) %s %s)' % (scalar(a[0], {}), vector(a[1], env))
        if f in ('toUnitVec', 'collada.util.toUnitVec') and len(a) == 1:
            return '(toUnitVec O %s)' % vector(a[0], env)
    if isinstance(n, ast.UnaryOp) and isinstance(n.op, ast.USub):
        return '(vscale (omul O) (oopp O (o1 O)) %s)' % vector(n.operand, env)
    if isinstance(n, ast.BinOp) and isinstance(n.op, ast.Div):
        # vec / k, componentwise
        return '(vdivs (odiv O) %s %s)' % (vector(n.left, env), scalar(n.right, env))
    raise Reject('vector expression not in the grammar: %s' % ast.dump(n)[:120])


# ------------------------------------------------------------------ pieces

def is_identity4(n):
    return (isinstance(n, ast.Call) and dotted(n.func) == 'numpy.identity' and len(n.args) == 1
            and const_int(n.args[0]) == 4
            and all(k.arg == 'dtype' and dotted(k.value) == 'numpy.float32' for k in n.keywords))


def tr_rotation(mod):
    fn = find_def(mod.body, 'makeRotationMatrix')
    need(argnames(fn) == ['x', 'y', 'z', 'angle'], 'makeRotationMatrix signature')
    body = strip_doc(fn.body)
    need(len(body) >= 2 and isinstance(body[-1], ast.Return), 'makeRotationMatrix: no final return')
    env = {a: a for a in ('x', 'y', 'z', 'angle')}
    lets = []
    for st in body[:-1]:
        need(isinstance(st, ast.Assign) and len(st.targets) == 1 and isinstance(st.targets[0], ast.Name),
             'makeRotationMatrix: statement other than a simple assignment')
        nm = st.targets[0].id
        need(nm not in env, 'makeRotationMatrix: %s rebound' % nm)
        lets.append((nm, scalar(st.value, env)))
        env[nm] = nm
    ret = body[-1].value
    need(isinstance(ret, ast.Call) and dotted(ret.func) == 'numpy.array' and len(ret.args) == 1
         and all(k.arg == 'dtype' and dotted(k.value) == 'numpy.float32' for k in ret.keywords),
         'makeRotationMatrix: return is not numpy.array([[..]], dtype=float32)')
    rows = ret.args[0]
    need(isinstance(rows, ast.List) and len(rows.elts) == 4 and
         all(isinstance(r, ast.List) and len(r.elts) == 4 for r in rows.elts), 'makeRotationMatrix: not 4x4 literal')
    cells = [scalar(e, env) for r in rows.elts for e in r.elts]
    out = ['(* scene.py makeRotationMatrix(x, y, z, angle): angle in radians *)',
           'Definition make_rotation {R : Type} (O : ops R) (x y z angle : R) : mat R :=']
    for nm, e in lets:
        out.append('  let %s := %s in' % (nm, e))
    out.append('  Mat')
    for i in range(4):
        out.append('    ' + ' '.join(cells[4 * i:4 * i + 4]))
    out[-1] += '.'
    return out


def matrix_writes(stmts, env, cls):
    """self.matrix = numpy.identity(4, float32) followed by cell/slice assignments.
    Returns the Gallina term of the final matrix."""
    term = None
    for st in stmts:
        if not (isinstance(st, ast.Assign) and len(st.targets) == 1):
            continue
        tg = st.targets[0]
        if dotted(tg) == 'self.matrix':
            need(term is None and is_identity4(st.value), '%s: self.matrix is not started from identity(4)' % cls)
            term = '(mid (o0 O) (o1 O))'
        elif isinstance(tg, ast.Subscript) and dotted(tg.value) == 'self.matrix':
            need(term is not None, '%s: cell written before identity' % cls)
            sl = tg.slice
            need(isinstance(sl, ast.Tuple) and len(sl.elts) == 2, '%s: subscript is not [i, j]' % cls)

            def rng(ix):
                k = const_int(ix)
                if k is not None:
                    need(0 <= k < 4, '%s: index out of range' % cls)
                    return [k], False
                need(isinstance(ix, ast.Slice) and ix.step is None, '%s: index form' % cls)
                lo = 0 if ix.lower is None else const_int(ix.lower)
                hi = 4 if ix.upper is None else const_int(ix.upper)
                need(lo is not None and hi is not None and 0 <= lo <= hi <= 4, '%s: slice bounds' % cls)
                return list(range(lo, hi)), True
            ri, rs = rng(sl.elts[0])
            ci, cs = rng(sl.elts[1])
            need(not (rs and cs), '%s: two-dimensional slice assignment' % cls)
            if not rs and not cs:
                term = '(mset %s %d %d %s)' % (term, ri[0], ci[0], scalar(st.value, env))
            else:
                cells = [(i, j) for i in ri for j in ci]
                need(len(cells) == 3, '%s: slice of length %d' % (cls, len(cells)))
                if isinstance(st.value, ast.List):
                    need(len(st.value.elts) == 3, '%s: list length' % cls)
                    vals = [scalar(e, env) for e in st.value.elts]
                else:
                    v = vector(st.value, env)
                    vals = ['(vnth (o0 O) %s %d)' % (v, k) for k in range(3)]
                for (i, j), v in zip(cells, vals):
                    term = '(mset %s %d %d %s)' % (term, i, j, v)
    need(term is not None, '%s: no matrix construction found' % cls)
    return term


def only_plain_attr_assigns(stmts, allowed_other, cls):
    """every statement is self.attr = name, a recognised matrix statement, or the xmlnode block"""
    for st in stmts:
        if isinstance(st, ast.Assign) and len(st.targets) == 1:
            continue
        if isinstance(st, ast.If):
            continue
        raise Reject('%s.__init__: unexpected statement %s' % (cls, type(st).__name__))


def tr_translate_scale(mod, cls, defname):
    c = find_def(mod.body, cls, (ast.ClassDef,))
    init = find_def(c.body, '__init__')
    need(argnames(init) == ['self', 'x', 'y', 'z', 'xmlnode'], cls + ' signature')
    body = strip_doc(init.body)
    only_plain_attr_assigns(body, (), cls)
    env = {a: a for a in ('x', 'y', 'z')}
    term = matrix_writes(body, env, cls)
    return ['(* scene.py %s.__init__ *)' % cls,
            'Definition %s {R : Type} (O : ops R) (x y z : R) : mat R :=' % defname,
            '  %s.' % term]


def tr_lookat(mod):
    cls = 'LookAtTransform'
    c = find_def(mod.body, cls, (ast.ClassDef,))
    init = find_def(c.body, '__init__')
    need(argnames(init) == ['self', 'eye', 'interest', 'upvector', 'xmlnode'], cls + ' signature')
    body = strip_doc(init.body)
    only_plain_attr_assigns(body, (), cls)
    env = {a: a for a in ('eye', 'interest', 'upvector')}
    lets = []
    for st in body:
        if isinstance(st, ast.Assign) and isinstance(st.targets[0], ast.Name):
            nm = st.targets[0].id
            need(nm not in env, 'LookAtTransform: %s rebound' % nm)
            lets.append((nm, vector(st.value, env)))
            env[nm] = nm
    term = matrix_writes(body, env, cls)
    out = ['(* scene.py LookAtTransform.__init__ *)',
           'Definition lookat_matrix {R : Type} (O : ops R) (eye interest upvector : vec3 R) : mat R :=']
    for nm, e in lets:
        out.append('  let %s := %s in' % (nm, e))
    out.append('  %s.' % term)
    return out


def tr_tounitvec(util):
    fn = find_def(util.body, 'toUnitVec')
    need(argnames(fn) == ['vec'], 'toUnitVec signature')
    body = strip_doc(fn.body)
    need(len(body) == 1 and isinstance(body[0], ast.Return), 'toUnitVec body')
    return ['(* util.py toUnitVec(vec) *)',
            'Definition toUnitVec {R : Type} (O : ops R) (vec : vec3 R) : vec3 R :=',
            '  %s.' % vector(body[0].value, {'vec': 'vec'})]


def tr_rotate(mod):
    cls = 'RotateTransform'
    c = find_def(mod.body, cls, (ast.ClassDef,))
    init = find_def(c.body, '__init__')
    need(argnames(init) == ['self', 'x', 'y', 'z', 'angle', 'xmlnode'], cls + ' signature')
    body = strip_doc(init.body)
    only_plain_attr_assigns(body, (), cls)
    found = [st for st in body if isinstance(st, ast.Assign) and dotted(st.targets[0]) == 'self.matrix']
    need(len(found) == 1, 'RotateTransform: self.matrix assigned %d times' % len(found))
    call = found[0].value
    need(isinstance(call, ast.Call) and dotted(call.func) == 'makeRotationMatrix' and len(call.args) == 4
         and not call.keywords, 'RotateTransform: not a makeRotationMatrix(..) call')
    env = {a: a for a in ('x', 'y', 'z', 'angle')}
    args = [scalar(a, env) for a in call.args]
    return ['(* scene.py RotateTransform.__init__: angle in degrees *)',
            'Definition rotate_matrix {R : Type} (O : ops R) (x y z angle : R) : mat R :=',
            '  make_rotation O %s.' % ' '.join(args)]


def tr_matrix(mod):
    cls = 'MatrixTransform'
    c = find_def(mod.body, cls, (ast.ClassDef,))
    init = find_def(c.body, '__init__')
    need(argnames(init) == ['self', 'matrix', 'xmlnode'], cls + ' signature')
    body = strip_doc(init.body)
    a = [st for st in body if isinstance(st, ast.Assign) and dotted(st.targets[0]) == 'self.matrix']
    need(len(a) == 1 and dotted(a[0].value) == 'matrix', 'MatrixTransform: self.matrix = matrix')
    sh = [st for st in body if isinstance(st, ast.Assign) and dotted(st.targets[0]) == 'self.matrix.shape']
    need(len(sh) == 1 and isinstance(sh[0].value, ast.Tuple) and [const_int(e) for e in sh[0].value.elts] == [4, 4],
         'MatrixTransform: shape = (4, 4)')
    # numpy reshapes in C order: element 4*i + j of the flat array is cell (i, j)
    return ['(* scene.py MatrixTransform.__init__: the 16 values reshaped (4, 4), C order *)',
            'Definition matrix_matrix {R : Type} (O : ops R) (matrix : list R) : mat R :=',
            '  mat_of_list (o0 O) matrix.']


def tr_loader(mod, cls, ctor, nargs_expected):
    c = find_def(mod.body, cls, (ast.ClassDef,))
    fn = find_def(c.body, 'load')
    need(argnames(fn) == ['collada', 'node'], cls + '.load signature')
    body = strip_doc(fn.body)
    need(isinstance(body[0], ast.Assign) and dotted(body[0].targets[0]) == 'floats', cls + '.load: floats')
    fs = body[0].value
    need(isinstance(fs, ast.Call) and dotted(fs.func) == 'numpy.fromstring' and dotted(fs.args[0]) == 'node.text',
         cls + '.load: numpy.fromstring(node.text, ..)')
    ret = body[-1]
    need(isinstance(ret, ast.Return) and isinstance(ret.value, ast.Call) and dotted(ret.value.func) == cls,
         cls + '.load: return %s(..)' % cls)
    args = ret.value.args
    need(len(args) >= 1 and dotted(args[-1]) == 'node' and not ret.value.keywords, cls + '.load: last argument node')
    outs = []
    for a in args[:-1]:
        if dotted(a) == 'floats':
            outs.append('floats')
            continue
        need(isinstance(a, ast.Subscript) and dotted(a.value) == 'floats', cls + '.load: argument form')
        k = const_int(a.slice)
        if k is not None:
            need(k >= 0, cls + '.load: negative index')
            outs.append('(nth %d floats (o0 O))' % k)
        else:
            sl = a.slice
            need(isinstance(sl, ast.Slice) and sl.step is None, cls + '.load: slice form')
            lo, hi = const_int(sl.lower), const_int(sl.upper)
            need(lo is not None and hi is not None and hi - lo == 3 and lo >= 0, cls + '.load: slice bounds')
            outs.append('(%s)' % ', '.join('nth %d floats (o0 O)' % i for i in range(lo, hi)))
    need(len(outs) == nargs_expected, cls + '.load: %d arguments' % len(outs))
    return ['(* scene.py %s.load *)' % cls,
            'Definition %s_load {R : Type} (O : ops R) (floats : list R) : mat R :=' % ctor.split('_')[0],
            '  %s O %s.' % (ctor, ' '.join(outs))]


def dot_term(call, env, where):
    need(isinstance(call, ast.Call) and dotted(call.func) == 'numpy.dot' and len(call.args) == 2 and not call.keywords,
         where + ': not numpy.dot(a, b)')
    a, b = dotted(call.args[0]), dotted(call.args[1])
    need(a in env and b in env, where + ': numpy.dot arguments %s, %s' % (a, b))
    return '(mmul (oadd O) (omul O) %s %s)' % (env[a], env[b])


def tr_node_fold(mod, meth, defname):
    c = find_def(mod.body, 'Node', (ast.ClassDef,))
    fn = find_def(c.body, meth)
    body = strip_doc(fn.body)
    start = [i for i, st in enumerate(body) if isinstance(st, ast.Assign) and dotted(st.targets[0]) == 'self.matrix']
    need(len(start) == 1 and is_identity4(body[start[0]].value), 'Node.%s: self.matrix = identity(4) once' % meth)
    loops = [st for st in body[start[0] + 1:] if isinstance(st, ast.For) and dotted(st.iter) == 'self.transforms'
             and any(isinstance(x, ast.Assign) and dotted(x.targets[0]) == 'self.matrix' for x in st.body)]
    need(len(loops) == 1, 'Node.%s: one accumulating loop over self.transforms' % meth)
    lp = loops[0]
    need(isinstance(lp.target, ast.Name) and len(lp.body) == 1 and not lp.orelse, 'Node.%s: loop shape' % meth)
    t = lp.target.id
    term = dot_term(lp.body[0].value, {'self.matrix': 'acc', t + '.matrix': 't'}, 'Node.' + meth)
    # nothing between the identity and the loop may touch self.matrix (checked by len(start) == 1)
    return ['(* scene.py Node.%s: self.matrix = identity; for t in self.transforms: self.matrix = numpy.dot(..) *)' % meth,
            'Definition %s_step {R : Type} (O : ops R) (acc t : mat R) : mat R :=' % defname,
            '  %s.' % term,
            'Definition %s {R : Type} (O : ops R) (transforms : list (mat R)) : mat R :=' % defname,
            '  fold_left (%s_step O) transforms (mid (o0 O) (o1 O)).' % defname]


KINDS = {'geometry': 0, 'controller': 1, 'camera': 2, 'light': 3}


def tr_node_objects(mod):
    c = find_def(mod.body, 'Node', (ast.ClassDef,))
    fn = find_def(c.body, 'objects')
    need(argnames(fn) == ['self', 'tipo', 'matrix'], 'Node.objects signature')
    need(len(fn.args.defaults) == 1 and isinstance(fn.args.defaults[0], ast.Constant) and fn.args.defaults[0].value is None,
         'Node.objects default')
    body = strip_doc(fn.body)
    need(len(body) == 2 and isinstance(body[0], ast.If) and isinstance(body[1], ast.For), 'Node.objects shape')
    iff = body[0]
    t = iff.test
    need(isinstance(t, ast.Compare) and dotted(t.left) == 'matrix' and len(t.ops) == 1 and
         isinstance(t.comparators[0], ast.Constant) and t.comparators[0].value is None and
         isinstance(t.ops[0], (ast.IsNot, ast.Is)), 'Node.objects: test on matrix')

    def branch(stmts):
        need(len(stmts) == 1 and isinstance(stmts[0], ast.Assign) and dotted(stmts[0].targets[0]) == 'M', 'Node.objects: M = ..')
        v = stmts[0].value
        d = dotted(v)
        if d == 'self.matrix':
            return 'own'
        if d == 'matrix':
            return 'matrix'
        return dot_term(v, {'matrix': 'matrix', 'self.matrix': 'own'}, 'Node.objects')
    some_b, none_b = (iff.body, iff.orelse) if isinstance(t.ops[0], ast.IsNot) else (iff.orelse, iff.body)
    some_t, none_t = branch(some_b), branch(none_b)
    need('matrix' not in none_t, 'Node.objects: None branch uses matrix')
    lp = body[1]
    need(dotted(lp.iter) == 'self.children' and isinstance(lp.target, ast.Name) and len(lp.body) == 1 and
         isinstance(lp.body[0], ast.For), 'Node.objects: loop over self.children')
    inner = lp.body[0]
    call = inner.iter
    need(isinstance(call, ast.Call) and dotted(call.func) == lp.target.id + '.objects' and not call.keywords and
         1 <= len(call.args) <= 2 and dotted(call.args[0]) == 'tipo', 'Node.objects: child.objects(tipo, ..)')
    need(len(inner.body) == 1 and isinstance(inner.body[0], ast.Expr) and isinstance(inner.body[0].value, ast.Yield)
         and dotted(inner.body[0].value.value) == inner.target.id, 'Node.objects: yields each object once')
    passed = 'None' if len(call.args) == 1 else dotted(call.args[1])
    down = {'M': 'Some (node_objects_matrix O matrix own)', 'matrix': 'matrix', 'self.matrix': 'Some own',
            'None': 'None'}.get(passed)
    need(down is not None, 'Node.objects: passes %s to the children' % passed)
    return ['(* scene.py Node.objects: M = numpy.dot(..) if matrix is not None else self.matrix *)',
            'Definition node_objects_matrix {R : Type} (O : ops R) (matrix : option (mat R)) (own : mat R) : mat R :=',
            '  match matrix with',
            '  | Some matrix => %s' % some_t,
            '  | None => %s' % none_t,
            '  end.',
            '(* ... and what it hands to each child *)',
            'Definition node_children_matrix {R : Type} (O : ops R) (matrix : option (mat R)) (own : mat R) : option (mat R) :=',
            '  %s.' % down]


def tr_passthrough(mod, cls, attr, defname):
    """for obj in self.<attr>.objects(tipo, matrix): yield obj"""
    c = find_def(mod.body, cls, (ast.ClassDef,))
    fn = find_def(c.body, 'objects')
    body = strip_doc(fn.body)
    pre = body[:-1]
    lp = body[-1]
    env = {}
    for st in pre:
        need(isinstance(st, ast.Assign) and dotted(st.targets[0]) == 'matrix' and isinstance(st.value, ast.Constant)
             and st.value.value is None, cls + '.objects: preamble')
        env['matrix'] = 'None'
    if cls == 'Scene':
        need(argnames(fn) == ['self', 'tipo'] and isinstance(lp, ast.For) and dotted(lp.iter) == 'self.nodes' and
             len(lp.body) == 1 and isinstance(lp.body[0], ast.For), 'Scene.objects shape')
        inner = lp.body[0]
        fname = lp.target.id + '.objects'
    else:
        need(argnames(fn) == ['self', 'tipo', 'matrix'] and isinstance(lp, ast.For), cls + '.objects shape')
        inner = lp
        fname = 'self.%s.objects' % attr
    call = inner.iter
    need(isinstance(call, ast.Call) and dotted(call.func) == fname and not call.keywords and
         1 <= len(call.args) <= 2 and dotted(call.args[0]) == 'tipo', cls + '.objects: call')
    need(len(inner.body) == 1 and isinstance(inner.body[0], ast.Expr) and isinstance(inner.body[0].value, ast.Yield)
         and dotted(inner.body[0].value.value) == inner.target.id, cls + '.objects: yields each object once')
    if len(call.args) == 1:
        passed = 'None'
    else:
        a = call.args[1]
        if isinstance(a, ast.Constant) and a.value is None:
            passed = 'None'
        else:
            need(dotted(a) == 'matrix', cls + '.objects: second argument')
            passed = env.get('matrix', 'matrix')
    if cls == 'Scene':
        return ['(* scene.py Scene.objects: the matrix given to every root node *)',
                'Definition %s {R : Type} : option (mat R) := %s.' % (defname, passed)]
    return ['(* scene.py %s.objects: the matrix given to the instantiated node *)' % cls,
            'Definition %s {R : Type} (matrix : option (mat R)) : option (mat R) := %s.' % (defname, passed)]


def tr_leaf(mod, cls, attr, short):
    c = find_def(mod.body, cls, (ast.ClassDef,))
    fn = find_def(c.body, 'objects')
    need(argnames(fn) == ['self', 'tipo', 'matrix'], cls + '.objects signature')
    body = strip_doc(fn.body)
    need(len(body) == 1 and isinstance(body[0], ast.If) and not body[0].orelse, cls + '.objects shape')
    t = body[0].test
    need(isinstance(t, ast.Compare) and dotted(t.left) == 'tipo' and len(t.ops) == 1 and isinstance(t.ops[0], ast.Eq)
         and isinstance(t.comparators[0], ast.Constant) and t.comparators[0].value in KINDS, cls + '.objects: tipo test')
    kind = t.comparators[0].value
    inner = body[0].body
    need(isinstance(inner[0], ast.If) and not inner[0].orelse, cls + '.objects: default matrix')
    t2 = inner[0].test
    need(isinstance(t2, ast.Compare) and dotted(t2.left) == 'matrix' and isinstance(t2.ops[0], ast.Is) and
         isinstance(t2.comparators[0], ast.Constant) and t2.comparators[0].value is None and
         len(inner[0].body) == 1 and isinstance(inner[0].body[0], ast.Assign) and
         dotted(inner[0].body[0].targets[0]) == 'matrix' and is_identity4(inner[0].body[0].value),
         cls + '.objects: if matrix is None: matrix = identity(4)')
    y = inner[-1]
    need(isinstance(y, ast.Expr) and isinstance(y.value, ast.Yield), cls + '.objects: final yield')
    call = y.value.value
    need(isinstance(call, ast.Call) and dotted(call.func) == 'self.%s.bind' % attr and not call.keywords and
         len(call.args) >= 1 and dotted(call.args[0]) == 'matrix', cls + '.objects: bind(matrix, ..)')
    n_yields = sum(isinstance(x, ast.Yield) for x in ast.walk(fn))
    need(n_yields == 1, cls + '.objects: one yield')
    return ['(* scene.py %s.objects: answers to tipo == %r, binds with matrix (identity when None) *)' % (cls, kind),
            'Definition %s_kind : nat := %d.' % (short, KINDS[kind]),
            'Definition %s_matrix {R : Type} (O : ops R) (matrix : option (mat R)) : mat R :=' % short,
            '  match matrix with Some matrix => matrix | None => mid (o0 O) (o1 O) end.']


PREAMBLE = '''(* GENERATED by harness/translate/transforms.py from collada/scene.py and collada/util.py.
   Do not edit: regenerated on every run; harness/translate/golden/Transforms.v is the
   committed copy used when the source leaves the translator's grammar. *)
From Coq Require Import List ZArith.
From PC Require Import Base.Mat.
Import ListNotations.

(* the operations the Python uses, over an arbitrary carrier: a ring (o0 o1 oadd omul osub
   oopp) plus division, reciprocal, square root, cosine, sine, pi and integer literals *)
Record ops (R : Type) : Type := Ops {
  o0 : R; o1 : R; oadd : R -> R -> R; omul : R -> R -> R; osub : R -> R -> R; oopp : R -> R;
  odiv : R -> R -> R; oinv : R -> R; osqrt : R -> R; ocos : R -> R; osin : R -> R; opi : R;
  oofZ : Z -> R }.
Arguments o0 {R}. Arguments o1 {R}. Arguments oadd {R}. Arguments omul {R}. Arguments osub {R}.
Arguments oopp {R}. Arguments odiv {R}. Arguments oinv {R}. Arguments osqrt {R}. Arguments ocos {R}.
Arguments osin {R}. Arguments opi {R}. Arguments oofZ {R}.

(* traversal kinds: 'geometry' 0, 'controller' 1, 'camera' 2, 'light' 3 *)
'''


def translate(repo):
    scene = ast.parse(open(os.path.join(repo, 'collada', 'scene.py'), encoding='utf-8').read())
    util = ast.parse(open(os.path.join(repo, 'collada', 'util.py'), encoding='utf-8').read())
    # toUnitVec must be the util one
    imp = [n for n in scene.body if isinstance(n, ast.ImportFrom) and n.module == 'collada.util'
           and any(a.name == 'toUnitVec' and a.asname is None for a in n.names)]
    need(imp, 'scene.py does not import toUnitVec from collada.util')
    need(not any(isinstance(n, (ast.FunctionDef, ast.ClassDef)) and n.name == 'toUnitVec' for n in scene.body),
         'scene.py redefines toUnitVec')
    parts = [
        tr_rotation(scene),
        tr_rotate(scene),
        tr_translate_scale(scene, 'TranslateTransform', 'translate_matrix'),
        tr_translate_scale(scene, 'ScaleTransform', 'scale_matrix'),
        tr_matrix(scene),
        tr_tounitvec(util),
        tr_lookat(scene),
        tr_loader(scene, 'TranslateTransform', 'translate_matrix', 3),
        tr_loader(scene, 'RotateTransform', 'rotate_matrix', 4),
        tr_loader(scene, 'ScaleTransform', 'scale_matrix', 3),
        tr_loader(scene, 'MatrixTransform', 'matrix_matrix', 1),
        tr_loader(scene, 'LookAtTransform', 'lookat_matrix', 3),
        tr_node_fold(scene, '__init__', 'node_init_matrix'),
        tr_node_fold(scene, 'save', 'node_save_matrix'),
        tr_node_objects(scene),
        tr_passthrough(scene, 'NodeNode', 'node', 'instance_node_matrix'),
        tr_passthrough(scene, 'Scene', None, 'scene_root_matrix'),
        tr_leaf(scene, 'GeometryNode', 'geometry', 'geometry_node'),
        tr_leaf(scene, 'ControllerNode', 'controller', 'controller_node'),
        tr_leaf(scene, 'CameraNode', 'camera', 'camera_node'),
        tr_leaf(scene, 'LightNode', 'light', 'light_node'),
    ]
    return PREAMBLE + '\n' + '\n\n'.join('\n'.join(p) for p in parts) + '\n'


def write_if_changed(path, text):
    if os.path.exists(path) and open(path, encoding='utf-8').read() == text:
        return False
    tmp = path + '.tmp%d' % os.getpid()
    with open(tmp, 'w', encoding='utf-8') as f:
        f.write(text)
    os.replace(tmp, path)
    return True


def main(argv):
    repo, gen = argv[1], argv[2]
    os.makedirs(gen, exist_ok=True)
    out = os.path.join(gen, 'Transforms.v')
    try:
        text = translate(repo)
    except (Reject, SyntaxError, OSError, IndexError, AttributeError) as e:
        if os.path.exists(GOLDEN):
            write_if_changed(out, open(GOLDEN, encoding='utf-8').read())
        sys.stderr.write('transforms: source left the accepted grammar: %s\n' % (e,))
        return 1
    ch = write_if_changed(out, text)
    same = os.path.exists(GOLDEN) and open(GOLDEN, encoding='utf-8').read() == text
    print('Transforms.v %s from scene.py (%s the committed golden copy)'
          % ('rewritten' if ch else 'unchanged', 'identical to' if same else 'DIFFERS from'))
    return 0


if __name__ == '__main__':
    sys.exit(main(sys.argv))
