"""XSD -> Gallina translator for C04 (fail closed).

argv = [repo, gen_dir].  Reads <repo>/collada/resources/schema-1.4.1.xml and rewrites
<gen_dir>/Schema141.v (a closed term of type Model.SchemaSyntax.schema) and
<gen_dir>/Schema141.atoms.json (names of the schema that are not in the fixed atom vocabulary,
numbered from 100000).  Exit status non-zero when the schema uses an XSD feature outside the
accepted fragment inside the translated closure (the committed golden copy is then used).

Accepted fragment (everything else raises Unsupported):
  xs:element (name/ref/type, inline complexType/simpleType, min/maxOccurs, abstract heads and
  substitutionGroup members -> choice), xs:sequence, xs:choice, xs:group ref, xs:any
  (namespace ##any, processContents lax), xs:complexType with sequence/choice/group,
  simpleContent/extension, complexContent/extension, xs:attribute (name/type or inline
  simpleType, use=required|optional, ref=xml:base), xs:simpleType by restriction (enumeration,
  minLength/maxLength on lists, min/max Inclusive/Exclusive on integers, the one pattern
  "(#(.*))"), xs:list, xs:union, the built-in types listed in BUILTIN.
Closure: everything reachable from the global element COLLADA, except the element
declarations in CUT, whose type becomes CCut (validate = false: fail closed)."""
import hashlib
import json
import os
import re
import sys
import xml.etree.ElementTree as ET

sys.path.insert(0, os.path.dirname(os.path.dirname(os.path.dirname(os.path.abspath(__file__)))))
from harness.enc.atoms import FIXED  # noqa: E402

XS = '{http://www.w3.org/2001/XMLSchema}'
SCHEMA_ATOM_BASE = 100000

# element declarations that pycollada can neither emit nor load: cut out of the closure
CUT = {
    'profile_GLSL', 'profile_CG', 'profile_GLES',
    'library_animation_clips', 'library_physics_models', 'library_physics_scenes',
    'library_physics_materials', 'library_force_fields',
    'instance_physics_scene', 'convex_mesh', 'spline',
}

LEX = {'NCName': 0, 'Name': 1, 'NMTOKEN': 2, 'dateTime': 3, 'anyURI': 4, 'double': 5, 'boolean': 6,
       'hexBinary': 7, 'hash': 8, 'fragURI': 9}


class Unsupported(Exception):
    pass


def zopt(z):
    return 'None' if z is None else '(Some (%d)%%Z)' % z


def nopt(n):
    return 'None' if n is None else '(Some %d%%nat)' % n


BUILTIN = {
    'string': 'SAnyString', 'token': 'SAnyString', 'normalizedString': 'SAnyString',
    'NCName': '(SLex lx_NCName)', 'ID': '(SLex lx_NCName)', 'IDREF': '(SLex lx_NCName)',
    'IDREFS': '(SList (SLex lx_NCName) 1%nat None)',
    'Name': '(SLex lx_Name)', 'NMTOKEN': '(SLex lx_NMTOKEN)', 'anyURI': '(SLex lx_anyURI)',
    'dateTime': '(SLex lx_dateTime)', 'hexBinary': '(SLex lx_hexBinary)',
    'boolean': 'SBool', 'float': 'SFloat', 'double': 'SFloat',
}
INT_RANGES = {
    'integer': (None, None), 'nonNegativeInteger': (0, None), 'positiveInteger': (1, None),
    'long': (-2 ** 63, 2 ** 63 - 1), 'int': (-2 ** 31, 2 ** 31 - 1), 'short': (-2 ** 15, 2 ** 15 - 1),
    'byte': (-128, 127), 'unsignedLong': (0, 2 ** 64 - 1), 'unsignedInt': (0, 2 ** 32 - 1),
    'unsignedShort': (0, 2 ** 16 - 1), 'unsignedByte': (0, 255),
}


class ST:
    """translated simple type: kind in {'any','lex','int','float','bool','enum','frag','list','union'}"""

    def __init__(self, kind, **kw):
        self.kind = kind
        self.__dict__.update(kw)


class Translator:
    def __init__(self, path):
        self.path = path
        self.data = open(path, 'rb').read()
        self.root = ET.fromstring(self.data)
        self.tns = self.root.get('targetNamespace')
        if self.root.get('elementFormDefault') != 'qualified':
            raise Unsupported('elementFormDefault is not "qualified"')
        self.elements, self.ctypes, self.stypes, self.groups = {}, {}, {}, {}
        for ch in self.root:
            n = ch.get('name')
            if ch.tag == XS + 'element':
                self.elements[n] = ch
            elif ch.tag == XS + 'complexType':
                self.ctypes[n] = ch
            elif ch.tag == XS + 'simpleType':
                self.stypes[n] = ch
            elif ch.tag == XS + 'group':
                self.groups[n] = ch
            elif ch.tag in (XS + 'annotation', XS + 'import'):
                pass
            else:
                raise Unsupported('top-level %s' % ch.tag)
        self.subst = {}
        for n, e in self.elements.items():
            h = e.get('substitutionGroup')
            if h:
                self.subst.setdefault(h, []).append(n)
        self.types = []          # list of (comment, coq term or None while under construction)
        self.memo = {}
        self.names = set()
        self.schema_atoms = {}
        self.dropped = []        # untranslated facets (recorded in the header)
        self.cut_hit = set()
        self.stats = {'elem_particles': 0, 'attr_uses': 0, 'simple': 0}
        self.edc = {}            # (type index) -> {name: child type} for the EDC check
        self.id_attr_ok = True

    # ---- atoms
    def atom(self, s):
        if s in FIXED:
            return '%d%%N' % FIXED[s]
        if s not in self.schema_atoms:
            self.schema_atoms[s] = None
        return '@@%s@@' % s      # patched after all names are known (deterministic numbering)

    def patch_atoms(self, text):
        for i, s in enumerate(sorted(self.schema_atoms)):
            self.schema_atoms[s] = SCHEMA_ATOM_BASE + i
        return re.sub(r'@@(.*?)@@', lambda m: '%d%%N' % self.schema_atoms[m.group(1)], text)

    # ---- simple types
    def local(self, q):
        return q.split(':', 1)[1] if ':' in q else q

    def st_named(self, q):
        if q.startswith('xs:'):
            b = q[3:]
            if b in BUILTIN:
                t = BUILTIN[b]
                if t == 'SAnyString':
                    return ST('any')
                if t == 'SBool':
                    return ST('bool')
                if t == 'SFloat':
                    return ST('float')
                if b == 'IDREFS':
                    return ST('list', item=ST('lex', bit='lx_NCName'), lo=1, hi=None)
                return ST('lex', bit=t[6:-1])
            if b in INT_RANGES:
                lo, hi = INT_RANGES[b]
                return ST('int', lo=lo, hi=hi)
            raise Unsupported('built-in type %s' % q)
        if q not in self.stypes:
            raise Unsupported('simple type %s not found' % q)
        return self.st_node(self.stypes[q], q)

    def st_node(self, node, label):
        kids = [c for c in node if c.tag != XS + 'annotation']
        if len(kids) != 1:
            raise Unsupported('simpleType %s: %d children' % (label, len(kids)))
        k = kids[0]
        if k.tag == XS + 'list':
            it = k.get('itemType')
            if it is None:
                raise Unsupported('simpleType %s: anonymous list item type' % label)
            return ST('list', item=self.st_named(it), lo=0, hi=None)
        if k.tag == XS + 'union':
            ms = k.get('memberTypes')
            if not ms or len(list(k)):
                raise Unsupported('simpleType %s: anonymous union members' % label)
            return ST('union', ms=[self.st_named(m) for m in ms.split()])
        if k.tag != XS + 'restriction':
            raise Unsupported('simpleType %s: %s' % (label, k.tag))
        base = k.get('base')
        if base is None:
            raise Unsupported('simpleType %s: restriction without base' % label)
        st = self.st_named(base)
        enums = []
        for f in k:
            if f.tag == XS + 'annotation':
                continue
            v = f.get('value')
            if f.tag == XS + 'enumeration':
                enums.append(v)
            elif f.tag in (XS + 'minLength', XS + 'maxLength'):
                if st.kind != 'list':
                    raise Unsupported('simpleType %s: length facet on a non-list base' % label)
                st = ST('list', item=st.item, lo=st.lo, hi=st.hi)
                if f.tag == XS + 'minLength':
                    st.lo = max(st.lo, int(v))
                else:
                    st.hi = int(v) if st.hi is None else min(st.hi, int(v))
            elif f.tag in (XS + 'minInclusive', XS + 'maxInclusive', XS + 'minExclusive', XS + 'maxExclusive'):
                if st.kind == 'int':
                    z = int(v)
                    st = ST('int', lo=st.lo, hi=st.hi)
                    if f.tag == XS + 'minInclusive':
                        st.lo = z if st.lo is None else max(st.lo, z)
                    elif f.tag == XS + 'minExclusive':
                        st.lo = z + 1 if st.lo is None else max(st.lo, z + 1)
                    elif f.tag == XS + 'maxInclusive':
                        st.hi = z if st.hi is None else min(st.hi, z)
                    else:
                        st.hi = z - 1 if st.hi is None else min(st.hi, z - 1)
                elif st.kind == 'float':
                    self.dropped.append('range facet %s=%s of float type %s (floats never enter Coq)' % (self.local(f.tag.split('}')[1]), v, label))
                else:
                    raise Unsupported('simpleType %s: range facet on %s' % (label, st.kind))
            elif f.tag == XS + 'pattern':
                if v == '(#(.*))' and st.kind == 'any':
                    st = ST('frag')
                else:
                    raise Unsupported('simpleType %s: pattern %r' % (label, v))
            else:
                raise Unsupported('simpleType %s: facet %s' % (label, f.tag))
        if enums:
            if st.kind not in ('any', 'lex'):
                raise Unsupported('simpleType %s: enumeration over %s' % (label, st.kind))
            for v in enums:
                if re.match(r'^[+-]?(\d+\.?\d*([eE][+-]?\d+)?|\.\d+([eE][+-]?\d+)?)$', v) or v.startswith('#') or len(v.split()) != 1:
                    raise Unsupported('simpleType %s: enumeration value %r is not a plain word' % (label, v))
            st = ST('enum', vals=enums)
        return st

    def st_coq(self, st):
        self.stats['simple'] += 1
        k = st.kind
        if k == 'any':
            return 'SAnyString'
        if k == 'lex':
            return '(SLex %s)' % st.bit
        if k == 'int':
            return '(SInt %s %s)' % (zopt(st.lo), zopt(st.hi))
        if k == 'float':
            return 'SFloat'
        if k == 'bool':
            return 'SBool'
        if k == 'frag':
            return 'SFragment'
        if k == 'enum':
            return '(SEnum [%s])' % '; '.join(self.atom(v) for v in st.vals)
        if k == 'list':
            return '(SList %s %d%%nat %s)' % (self.st_coq(st.item), st.lo, nopt(st.hi))
        if k == 'union':
            return '(SUnion [%s])' % '; '.join(self.st_coq(m) for m in st.ms)
        raise Unsupported(k)

    # ---- occurrences
    def occ(self, node):
        mn = int(node.get('minOccurs', '1'))
        mx = node.get('maxOccurs', '1')
        return mn, (None if mx == 'unbounded' else int(mx))

    def occ_coq(self, node):
        mn, mx = self.occ(node)
        return '%d%%nat %s' % (mn, nopt(mx))

    # ---- type table
    def alloc(self, key, comment):
        self.types.append([comment, None])
        idx = len(self.types) - 1
        if key is not None:
            self.memo[key] = idx
        return idx

    def simple_ctype(self, st, comment):
        term = 'CType [] (CSimple %s)' % self.st_coq(st)
        key = ('simple', term)
        if key in self.memo:
            return self.memo[key]
        idx = self.alloc(key, comment)
        self.types[idx][1] = term
        return idx

    def cut_type(self):
        key = ('cut',)
        if key not in self.memo:
            idx = self.alloc(key, 'CUT: outside the translated closure')
            self.types[idx][1] = 'CType [] CCut'
        return self.memo[key]

    def type_by_name(self, q, ctx):
        """index of the type named q (complex or simple)"""
        if not q.startswith('xs:') and q in self.ctypes:
            key = ('ct', q)
            if key in self.memo:
                return self.memo[key]
            idx = self.alloc(key, 'complexType %s' % q)
            self.types[idx][1] = self.ctype_term(self.ctypes[q], idx, 'complexType ' + q)
            return idx
        return self.simple_ctype(self.st_named(q), 'simple type %s' % q)

    def global_elem(self, name):
        if name in CUT:
            self.cut_hit.add(name)
            return self.cut_type()
        key = ('ge', name)
        if key in self.memo:
            return self.memo[key]
        e = self.elements[name]
        return self.elem_type(e, key, 'element ' + name)

    def elem_type(self, e, key, label):
        """type index of an element declaration (global or local)"""
        t = e.get('type')
        inline = [c for c in e if c.tag in (XS + 'complexType', XS + 'simpleType')]
        others = [c for c in e if c.tag not in (XS + 'complexType', XS + 'simpleType', XS + 'annotation')]
        if others:
            raise Unsupported('%s: identity constraints / %s' % (label, others[0].tag))
        for a in ('nillable', 'fixed', 'block', 'final', 'form'):
            if e.get(a) is not None:
                raise Unsupported('%s: attribute %s' % (label, a))
        if t is not None:
            if inline:
                raise Unsupported('%s: both type= and an inline type' % label)
            idx = self.type_by_name(t, label)
            if key is not None:
                self.memo[key] = idx
            return idx
        if len(inline) == 1 and inline[0].tag == XS + 'complexType':
            idx = self.alloc(key, label)
            self.types[idx][1] = self.ctype_term(inline[0], idx, label)
            return idx
        if len(inline) == 1:
            idx = self.simple_ctype(self.st_node(inline[0], label), label)
            if key is not None:
                self.memo[key] = idx
            return idx
        if not inline and e.get('abstract') != 'true':
            # xs:anyType: any attributes, any (laxly assessed) children, any text
            key2 = ('anytype',)
            if key2 not in self.memo:
                idx = self.alloc(key2, 'xs:anyType')
                self.types[idx][1] = 'CType [] CAnyType'
            if key is not None:
                self.memo[key] = self.memo[key2]
            return self.memo[key2]
        raise Unsupported('%s: element without a usable type' % label)

    # ---- particles
    def particle(self, node, owner, label):
        tag = node.tag
        if tag == XS + 'element':
            self.stats['elem_particles'] += 1
            ref = node.get('ref')
            if ref is not None:
                members = []
                if ref not in self.elements:
                    raise Unsupported('%s: element ref %s not found' % (label, ref))
                if self.elements[ref].get('abstract') != 'true':
                    members.append(ref)
                members += sorted(self.subst.get(ref, []))
                for m in members:
                    if self.subst.get(m) and m != ref:
                        raise Unsupported('nested substitution groups (%s)' % m)
                parts = []
                for m in members:
                    ti = self.global_elem(m)
                    self.note_edc(owner, m, ti, label)
                    parts.append((m, ti))
                if len(parts) == 1 and parts[0][0] == ref:
                    return '(PElem %s %d%%N %s)' % (self.atom(ref), parts[0][1], self.occ_coq(node))
                return '(PChoice [%s] %s)' % ('; '.join('(PElem %s %d%%N 1%%nat (Some 1%%nat))' % (self.atom(m), ti) for m, ti in parts),
                                              self.occ_coq(node))
            name = node.get('name')
            if name in CUT:
                self.cut_hit.add(name)
                ti = self.cut_type()
            else:
                ti = self.elem_type(node, None, '%s/%s' % (label, name))
            self.note_edc(owner, name, ti, label)
            return '(PElem %s %d%%N %s)' % (self.atom(name), ti, self.occ_coq(node))
        if tag in (XS + 'sequence', XS + 'choice'):
            ps = [self.particle(c, owner, label) for c in node if c.tag != XS + 'annotation']
            return '(%s [%s] %s)' % ('PSeq' if tag == XS + 'sequence' else 'PChoice', '; '.join(ps), self.occ_coq(node))
        if tag == XS + 'group':
            ref = node.get('ref')
            if ref is None or ref not in self.groups:
                raise Unsupported('%s: group %r' % (label, ref))
            g = [c for c in self.groups[ref] if c.tag != XS + 'annotation']
            if len(g) != 1 or g[0].tag not in (XS + 'sequence', XS + 'choice'):
                raise Unsupported('group %s: unexpected body' % ref)
            inner = self.particle(g[0], owner, label + '/group ' + ref)
            mn, mx = self.occ(node)
            if (mn, mx) == (1, 1):
                return inner
            return '(PSeq [%s] %s)' % (inner, self.occ_coq(node))
        if tag == XS + 'any':
            if node.get('namespace', '##any') != '##any' or node.get('processContents') != 'lax':
                raise Unsupported('%s: xs:any other than ##any/lax' % label)
            return '(PAny %s)' % self.occ_coq(node)
        raise Unsupported('%s: particle %s' % (label, tag))

    def note_edc(self, owner, name, ti, label):
        self.names.add(name)
        d = self.edc.setdefault(owner, {})
        if name in d and d[name] != ti:
            raise Unsupported('%s: two declarations of <%s> with different types in one content model' % (label, name))
        d[name] = ti

    # ---- attributes
    def attr_use(self, a, label):
        self.stats['attr_uses'] += 1
        use = a.get('use', 'optional')
        if use not in ('required', 'optional'):
            raise Unsupported('%s: attribute use=%s' % (label, use))
        if a.get('fixed') is not None:
            raise Unsupported('%s: fixed attribute' % label)
        ref = a.get('ref')
        if ref is not None:
            if ref != 'xml:base':
                raise Unsupported('%s: attribute ref %s' % (label, ref))
            return ('base', use == 'required', ST('lex', bit='lx_anyURI'))
        name = a.get('name')
        t = a.get('type')
        inline = [c for c in a if c.tag == XS + 'simpleType']
        if t is not None:
            st = self.st_named(t)
            if (t == 'xs:ID') != (name == 'id'):
                raise Unsupported('%s: attribute %s has type %s (ID uniqueness is keyed on the name "id")' % (label, name, t))
        elif inline:
            st = self.st_node(inline[0], label + '/@' + name)
            if name == 'id':
                raise Unsupported('%s: attribute id with an anonymous type' % label)
        else:
            if name == 'id':
                raise Unsupported('%s: untyped attribute id' % label)
            st = ST('any')
        return (name, use == 'required', st)

    def attrs_coq(self, uses, label):
        seen = set()
        out = []
        for name, req, st in uses:
            if name in seen:
                raise Unsupported('%s: attribute %s declared twice' % (label, name))
            seen.add(name)
            out.append('AttrUse %s %s %s' % (self.atom(name), 'true' if req else 'false', self.st_coq(st)))
        return '[' + '; '.join(out) + ']'

    # ---- complex types
    def ctype_parts(self, node, owner, label):
        """-> (attribute uses, content) with content = ('empty',) | ('simple', ST) | ('elems', [particle terms])"""
        if node.get('mixed') == 'true' or node.get('abstract') == 'true':
            raise Unsupported('%s: mixed/abstract complexType' % label)
        uses, parts, simple = [], [], None
        for c in node:
            if c.tag == XS + 'annotation':
                continue
            if c.tag == XS + 'attribute':
                uses.append(self.attr_use(c, label))
            elif c.tag in (XS + 'sequence', XS + 'choice', XS + 'group'):
                parts.append(self.particle(c, owner, label))
            elif c.tag in (XS + 'simpleContent', XS + 'complexContent'):
                ks = [k for k in c if k.tag != XS + 'annotation']
                if len(ks) != 1 or ks[0].tag != XS + 'extension' or c.get('mixed') == 'true':
                    raise Unsupported('%s: %s without a single extension' % (label, c.tag))
                ext = ks[0]
                base = ext.get('base')
                if c.tag == XS + 'simpleContent':
                    if not base.startswith('xs:') and base in self.ctypes:
                        bu, bc = self.ctype_parts(self.ctypes[base], owner, label + '<' + base)
                        if bc[0] != 'simple':
                            raise Unsupported('%s: simpleContent base %s is not simple' % (label, base))
                        uses += bu
                        simple = bc[1]
                    else:
                        simple = self.st_named(base)
                else:
                    if base.startswith('xs:') or base not in self.ctypes:
                        raise Unsupported('%s: complexContent base %s' % (label, base))
                    bu, bc = self.ctype_parts(self.ctypes[base], owner, label + '<' + base)
                    if bc[0] == 'simple':
                        raise Unsupported('%s: complexContent over a simple base' % label)
                    uses += bu
                    if bc[0] == 'elems':
                        parts += bc[1]
                for k in ext:
                    if k.tag == XS + 'annotation':
                        continue
                    if k.tag == XS + 'attribute':
                        uses.append(self.attr_use(k, label))
                    elif k.tag in (XS + 'sequence', XS + 'choice', XS + 'group') and c.tag == XS + 'complexContent':
                        parts.append(self.particle(k, owner, label))
                    else:
                        raise Unsupported('%s: %s inside an extension' % (label, k.tag))
            else:
                raise Unsupported('%s: %s in a complexType' % (label, c.tag))
        if simple is not None:
            if parts:
                raise Unsupported('%s: simple content with particles' % label)
            return uses, ('simple', simple)
        if parts:
            return uses, ('elems', parts)
        return uses, ('empty',)

    def ctype_term(self, node, owner, label):
        uses, content = self.ctype_parts(node, owner, label)
        if content[0] == 'empty':
            c = 'CEmpty'
        elif content[0] == 'simple':
            c = '(CSimple %s)' % self.st_coq(content[1])
        else:
            ps = content[1]
            c = '(CElems %s)' % (ps[0] if len(ps) == 1 else '(PSeq [%s] 1%%nat (Some 1%%nat))' % '; '.join(ps))
        return 'CType %s %s' % (self.attrs_coq(uses, label), c)

    # ---- whole schema
    def run(self):
        root_idx = self.global_elem('COLLADA')
        self.names.add('COLLADA')
        globs = []
        never = []
        for n in sorted(self.elements):
            e = self.elements[n]
            if e.get('abstract') == 'true':
                continue
            if ('ge', n) in self.memo:
                globs.append((n, self.memo[('ge', n)]))
            else:
                if n not in CUT:
                    never.append(n)
                globs.append((n, self.cut_type()))
                self.names.add(n)
        sha = hashlib.sha256(self.data).hexdigest()
        out = []
        out.append('(* GENERATED by harness/translate/schema141.py from collada/resources/schema-1.4.1.xml')
        out.append('   sha256 of the source: %s' % sha)
        out.append('   target namespace: %s' % self.tns)
        out.append('   translated closure: %d types, %d element particles, %d attribute uses, %d global elements, %d element names'
                   % (len(self.types), self.stats['elem_particles'], self.stats['attr_uses'], len(globs), len(self.names)))
        out.append('   (whole XSD: %d global elements, %d named complex types, %d named simple types, %d groups)'
                   % (len(self.elements), len(self.ctypes), len(self.stypes), len(self.groups)))
        out.append('   element declarations cut out of the closure (type CCut, validate = false): %s' % ', '.join(sorted(CUT)))
        out.append('   of which met while translating: %s' % (', '.join(sorted(self.cut_hit)) or 'none'))
        out.append('   global elements only reachable through the cut ones (also CCut): %s' % (', '.join(never) or 'none'))
        out.append('   XSD features NOT translated (outside the accepted fragment the translator stops):')
        out.append('     - xs:IDREF/xs:IDREFS are checked lexically only (libxml2 does not resolve them either)')
        out.append('     - default= values of attributes and elements are ignored (they do not affect validity)')
        out.append('     - whiteSpace facets; identity constraints (the schema declares no key/keyref/unique)')
        out.append('     - xs:ID uniqueness is keyed on the attribute name "id" (checked: every xs:ID attribute of the')
        out.append('       closure is named id and every attribute named id has type xs:ID)')
        for d in sorted(set(self.dropped)):
            out.append('     - dropped: %s' % d)
        out.append('*)')
        out.append('From Coq Require Import List ZArith NArith.')
        out.append('From PC Require Import Base.Atoms Model.SchemaSyntax.')
        out.append('Import ListNotations.')
        out.append('')
        out.append('Definition schema141_sha256_prefix : N := %d%%N.' % int(sha[:12], 16))
        out.append('')
        out.append('(* names and enumeration values of the schema that are not in the fixed vocabulary *)')
        seen_ident = set()
        for sname in sorted(self.schema_atoms):
            ident = 'sa_' + re.sub(r'\W', '_', sname)
            if ident in seen_ident or sname == self.tns:
                continue
            seen_ident.add(ident)
            out.append('Definition %s : atom := %s.' % (ident, self.atom(sname)))
        out.append('')
        for i, (comment, term) in enumerate(self.types):
            if term is None:
                raise Unsupported('type %d (%s) was never completed' % (i, comment))
            out.append('(* %d: %s *)' % (i, comment.replace('*)', '* )')))
            out.append('Definition ty%d : ctype := %s.' % (i, term))
        out.append('')
        out.append('Definition schema141 : schema := Schema')
        out.append('  %s (* target namespace *)' % self.atom(self.tns))
        out.append('  %s (* root element COLLADA, type %d *)' % (self.atom('COLLADA'), root_idx))
        out.append('  [%s]' % ';\n   '.join('(%s, %d%%N) (* %s *)' % (self.atom(n), i, n) for n, i in globs))
        out.append('  [%s]' % '; '.join('ty%d' % i for i in range(len(self.types))))
        out.append('  [%s].' % '; '.join(self.atom(n) for n in sorted(self.names)))
        text = self.patch_atoms('\n'.join(out) + '\n')
        return text, sha


def main(argv):
    repo, gen = argv[0], argv[1]
    path = os.path.join(repo, 'collada', 'resources', 'schema-1.4.1.xml')
    try:
        tr = Translator(path)
        text, sha = tr.run()
    except Unsupported as e:
        sys.stderr.write('schema141: unsupported XSD construct: %s\n' % e)
        return 3
    except Exception as e:  # noqa
        sys.stderr.write('schema141: %r\n' % (e,))
        return 4
    os.makedirs(gen, exist_ok=True)
    vpath = os.path.join(gen, 'Schema141.v')
    jpath = os.path.join(gen, 'Schema141.atoms.json')
    table = json.dumps({'base': SCHEMA_ATOM_BASE, 'sha256': sha, 'atoms': tr.schema_atoms}, indent=0, sort_keys=True)
    # rewrite only when the content changed, so that make does not rebuild needlessly
    for p, new in ((vpath, text), (jpath, table)):
        if not os.path.exists(p) or open(p).read() != new:
            tmp = p + '.tmp%d' % os.getpid()
            with open(tmp, 'w') as f:
                f.write(new)
            os.replace(tmp, p)
    print('Schema141.v: %d types, %d element particles, %d schema-specific atoms, sha %s'
          % (len(tr.types), tr.stats['elem_particles'], len(tr.schema_atoms), sha[:12]))
    return 0


if __name__ == '__main__':
    sys.exit(main(sys.argv[1:]))
