"""Fail-closed translator: the binding expressions of the Bound* classes -> coq/Gen/Bound.v.

argv = [repo, gen_dir].  Re-emits, as Gallina over the `ops R` record of Gen/Transforms.v:

  * BoundTriangleSet / BoundPolylist (BoundPolygons inherits it) / BoundLineSet.__init__: the
    expression that transforms one vertex row and one normal row (which matrix, transposed or
    not, which 3x3 block, whether and which translation slice is added), and the material
    look-up (`materialnodebysymbol.get(<prim>.material)`, `.target` of what was found);
  * BoundPointLight / BoundSpotLight / BoundDirectionalLight: position, direction, up;
    BoundPerspectiveCamera / BoundOrthographicCamera: position, direction, up;
  * GeometryNode.objects / ControllerNode.objects: the construction of the symbol table
    (iteration order over self.materials, the key, the value);
  * BoundSkin.__init__: the matrix its geometry is bound with.

Anything outside the narrow grammar -> exit 1 after restoring harness/translate/golden/Bound.v.
A change inside it (normals translated, block not transposed, row for column, sign of a
direction, first binding wins, swapped dot arguments) is re-emitted and a theorem of
Properties/C12.v fails to check."""
import ast
import os
import sys

HERE = os.path.dirname(os.path.abspath(__file__))
GOLDEN = os.path.join(os.path.dirname(os.path.abspath(__file__)), 'golden', 'Bound.v')


class Reject(Exception):
    pass


def need(c, msg):
    if not c:
        raise Reject(msg)


def dotted(n):
    if isinstance(n, ast.Name):
        return n.id
    if isinstance(n, ast.Attribute):
        b = dotted(n.value)
        return None if b is None else b + '.' + n.attr
    return None


def find(body, name, kind):
    for n in body:
        if isinstance(n, kind) and n.name == name:
            return n
    raise Reject('no definition of %s' % name)


def const_int(n):
    if isinstance(n, ast.Constant) and isinstance(n.value, int) and not isinstance(n.value, bool):
        return n.value
    return None


def init_of(mod, cls, args):
    c = find(mod.body, cls, ast.ClassDef)
    fn = find(c.body, '__init__', ast.FunctionDef)
    need([a.arg for a in fn.args.args] == args and not fn.args.vararg and not fn.args.kwarg, '%s.__init__ signature' % cls)
    return fn


def walk_assigns(stmts):
    """(target, value, guard) of every simple assignment, descending into if-blocks (guard = the test)"""
    for st in stmts:
        if isinstance(st, ast.Assign) and len(st.targets) == 1:
            yield st.targets[0], st.value, None
        elif isinstance(st, ast.If):
            for t, v, g in walk_assigns(st.body):
                yield t, v, st.test
            for t, v, g in walk_assigns(st.orelse):
                yield t, v, st.test


class Ctx(object):
    def __init__(self, cls, src, params):
        self.cls = cls
        self.src = src            # name of the first constructor argument (ts / pl / ls / plight / ...)
        self.params = params      # attribute of src -> Gallina parameter name
        self.mats = {'matrix': 'matrix'}
        self.used = set()


def matrix_expr(n, cx):
    d = dotted(n)
    need(d in cx.mats, '%s: matrix expression %s' % (cx.cls, ast.dump(n)[:80]))
    return cx.mats[d]


def index_pair(n, cx):
    need(isinstance(n, ast.Subscript) and isinstance(n.slice, ast.Tuple) and len(n.slice.elts) == 2, '%s: subscript form' % cx.cls)

    def one(ix):
        k = const_int(ix)
        if k is not None:
            need(0 <= k < 4, '%s: index range' % cx.cls)
            return ('i', k)
        need(isinstance(ix, ast.Slice) and ix.step is None, '%s: index form' % cx.cls)
        lo = 0 if ix.lower is None else const_int(ix.lower)
        hi = 4 if ix.upper is None else const_int(ix.upper)
        need(lo is not None and hi is not None and hi - lo == 3 and 0 <= lo and hi <= 4, '%s: slice must have length 3' % cx.cls)
        return ('s', lo)
    return matrix_expr(n.value, cx), one(n.slice.elts[0]), one(n.slice.elts[1])


def is_block(n):
    return (isinstance(n, ast.Subscript) and isinstance(n.slice, ast.Tuple) and len(n.slice.elts) == 2
            and all(isinstance(e, ast.Slice) for e in n.slice.elts))


def block(n, cx):
    A, r, c = index_pair(n, cx)
    need(r[0] == 's' and c[0] == 's', '%s: 3x3 block expected' % cx.cls)
    return A, r[1], c[1]


def vec(n, cx):
    """expressions denoting one 3-vector (a row of the vertex array, a light vector, a matrix slice)"""
    if isinstance(n, ast.Call) and dotted(n.func) == 'numpy.asarray' and len(n.args) == 1 and not n.keywords:
        return vec(n.args[0], cx)
    if isinstance(n, ast.BinOp) and isinstance(n.op, ast.Add):
        return '(vadd (oadd O) %s %s)' % (vec(n.left, cx), vec(n.right, cx))
    if isinstance(n, ast.BinOp) and isinstance(n.op, ast.Sub):
        return '(vsub (osub O) %s %s)' % (vec(n.left, cx), vec(n.right, cx))
    if isinstance(n, ast.UnaryOp) and isinstance(n.op, ast.USub):
        return '(vopp O %s)' % vec(n.operand, cx)
    if isinstance(n, ast.BinOp) and isinstance(n.op, ast.Mult) and is_block(n.right):
        # row vectors (the N x 3 array) times a 3x3 block
        A, r0, c0 = block(n.right, cx)
        return '(block_row O %s %d %d %s)' % (A, r0, c0, vec(n.left, cx))
    if isinstance(n, ast.Call) and dotted(n.func) == 'numpy.dot' and len(n.args) == 2 and not n.keywords:
        a, b = n.args
        if is_block(a) and not is_block(b):
            A, r0, c0 = block(a, cx)
            return '(block_col O %s %d %d %s)' % (A, r0, c0, vec(b, cx))
        if is_block(b) and not is_block(a):
            A, r0, c0 = block(b, cx)
            return '(block_row O %s %d %d %s)' % (A, r0, c0, vec(a, cx))
        raise Reject('%s: numpy.dot of a block and a vector expected' % cx.cls)
    if isinstance(n, ast.Subscript):
        A, r, c = index_pair(n, cx)
        if r[0] == 's' and c[0] == 'i':
            return '(slice_col O %s %d %d)' % (A, r[1], c[1])
        if r[0] == 'i' and c[0] == 's':
            return '(slice_row O %s %d %d)' % (A, r[1], c[1])
        raise Reject('%s: a row or column slice of length 3 expected' % cx.cls)
    d = dotted(n)
    if d is not None and d.startswith(cx.src + '.'):
        attr = d[len(cx.src) + 1:]
        need(attr in cx.params, '%s: attribute %s of %s' % (cx.cls, attr, cx.src))
        cx.used.add(cx.params[attr])
        return cx.params[attr]
    raise Reject('%s: vector expression not in the grammar: %s' % (cx.cls, ast.dump(n)[:100]))


def non_none(value):
    """`None if c else e` / `e if c else None` / e  ->  e"""
    if isinstance(value, ast.IfExp):
        a, b = value.body, value.orelse
        if isinstance(a, ast.Constant) and a.value is None:
            return b
        if isinstance(b, ast.Constant) and b.value is None:
            return a
        raise Reject('conditional expression without a None branch')
    return value


def tr_primitive(mod, cls, src, short):
    fn = init_of(mod, cls, ['self', src, 'matrix', 'materialnodebysymbol'])
    cx = Ctx(cls, src, {'_vertex': 'row', 'vertex': 'row', '_normal': 'row', 'normal': 'row'})
    exprs = {}
    matnode = None
    material = None
    for tg, val, guard in walk_assigns(fn.body):
        d = dotted(tg)
        if d == 'M':
            need('M' not in cx.mats, cls + ': M rebound')
            if (isinstance(val, ast.Call) and isinstance(val.func, ast.Attribute) and val.func.attr == 'transpose' and not val.args
                    and isinstance(val.func.value, ast.Call) and dotted(val.func.value.func) in ('numpy.asmatrix', 'numpy.matrix')
                    and len(val.func.value.args) == 1 and dotted(val.func.value.args[0]) == 'matrix'):
                cx.mats['M'] = '(mtrans matrix)'
            elif (isinstance(val, ast.Call) and dotted(val.func) in ('numpy.asmatrix', 'numpy.matrix') and len(val.args) == 1
                  and dotted(val.args[0]) == 'matrix'):
                cx.mats['M'] = 'matrix'
            else:
                raise Reject(cls + ': M = numpy.asmatrix(matrix)[.transpose()]')
        elif d in ('self._vertex', 'self._normal'):
            e = non_none(val)
            if isinstance(e, ast.Constant) and e.value is None:
                continue
            need(d not in exprs, cls + ': %s computed twice' % d)
            # the vertex expression reads the vertex array, the normal expression the normal array
            want = '_vertex' if d == 'self._vertex' else '_normal'
            other = '_normal' if d == 'self._vertex' else '_vertex'
            names = {dotted(x) for x in ast.walk(e) if isinstance(x, ast.Attribute)}
            need(not any(nm in (src + '.' + other, src + '.' + other[1:]) for nm in names), cls + ': %s reads the other array' % d)
            need(any(nm in (src + '.' + want, src + '.' + want[1:]) for nm in names), cls + ': %s does not read its array' % d)
            exprs[d] = vec(e, cx)
        elif d == 'matnode':
            need(isinstance(val, ast.Call) and dotted(val.func) == 'materialnodebysymbol.get' and len(val.args) == 1
                 and dotted(val.args[0]) == src + '.material' and not val.keywords, cls + ': matnode = materialnodebysymbol.get(%s.material)' % src)
            matnode = True
        elif d == 'self.material' and guard is not None and dotted(guard) == 'matnode' and not (isinstance(val, ast.Constant) and val.value is None):
            need(dotted(val) == 'matnode.target', cls + ': self.material = matnode.target')
            material = True
    need('self._vertex' in exprs and 'self._normal' in exprs, cls + ': vertex and normal expressions')
    need(matnode and material, cls + ': material look-up')
    return ['(* %s.__init__: one row of the vertex array, one row of the normal array, the material *)' % cls,
            'Definition %s_bound_vertex {R : Type} (O : ops R) (matrix : mat R) (row : vec3 R) : vec3 R :=' % short,
            '  %s.' % exprs['self._vertex'],
            'Definition %s_bound_normal {R : Type} (O : ops R) (matrix : mat R) (row : vec3 R) : vec3 R :=' % short,
            '  %s.' % exprs['self._normal'],
            'Definition %s_material (materialnodebysymbol : dict (K := N) (V := N * N)) (material : N) : option N :=' % short,
            '  match dget N.eqb materialnodebysymbol material with Some matnode => Some (snd matnode) | None => None end.']


def tr_vectors(mod, cls, src, short, attrs, params):
    fn = init_of(mod, cls, ['self', src, 'matrix'])
    cx = Ctx(cls, src, params)
    got = {}
    for tg, val, guard in walk_assigns(fn.body):
        d = dotted(tg)
        if d is not None and d.startswith('self.') and d[5:] in attrs:
            need(guard is None and d[5:] not in got, '%s: %s assigned conditionally or twice' % (cls, d))
            got[d[5:]] = vec(val, cx)
    need(set(got) == set(attrs), '%s: expected exactly %s' % (cls, ', '.join(attrs)))
    ps = ''.join(' (%s : vec3 R)' % p for p in sorted(set(params.values())))
    out = ['(* %s.__init__ *)' % cls]
    for a in attrs:
        out += ['Definition %s_%s {R : Type} (O : ops R) (matrix : mat R)%s : vec3 R :=' % (short, a, ps), '  %s.' % got[a]]
    return out


def tr_table(mod, cls, short, bound_attr):
    c = find(mod.body, cls, ast.ClassDef)
    fn = find(c.body, 'objects', ast.FunctionDef)
    loops = [n for n in ast.walk(fn) if isinstance(n, ast.For)]
    need(len(loops) == 1, cls + '.objects: one loop')
    lp = loops[0]
    it = lp.iter
    rev = False
    if isinstance(it, ast.Call) and dotted(it.func) == 'reversed' and len(it.args) == 1:
        rev, it = True, it.args[0]
    need(dotted(it) == 'self.materials' and isinstance(lp.target, ast.Name) and len(lp.body) == 1 and not lp.orelse, cls + '.objects: loop shape')
    m = lp.target.id
    st = lp.body[0]
    need(isinstance(st, ast.Assign) and isinstance(st.targets[0], ast.Subscript) and dotted(st.value) == m, cls + '.objects: table[key] = mat')
    table = dotted(st.targets[0].value)
    key = dotted(st.targets[0].slice)
    keyt = {m + '.symbol': '(fst mat)', m + '.target.id': '(snd mat)'}.get(key)
    need(keyt is not None, cls + '.objects: key %s' % key)
    inits = [n for n in ast.walk(fn) if isinstance(n, ast.Assign) and dotted(n.targets[0]) == table]
    need(len(inits) == 1 and isinstance(inits[0].value, ast.Dict) and not inits[0].value.keys, cls + '.objects: table starts empty')
    ys = [n for n in ast.walk(fn) if isinstance(n, ast.Yield)]
    need(len(ys) == 1 and isinstance(ys[0].value, ast.Call) and dotted(ys[0].value.func) == 'self.%s.bind' % bound_attr
         and len(ys[0].value.args) == 2 and dotted(ys[0].value.args[1]) == table, cls + '.objects: bind(matrix, table)')
    return ['(* scene.py %s.objects: the symbol table handed to bind(); a material binding is (symbol, target) *)' % cls,
            'Definition %s_material_table (materials : list (N * N)) : dict (K := N) (V := N * N) :=' % short,
            '  fold_left (fun table mat => dset N.eqb table %s mat) %s [].' % (keyt, '(rev materials)' if rev else 'materials')]


def tr_skin(mod):
    fn = init_of(mod, 'BoundSkin', ['self', 'skin', 'matrix', 'materialnodebysymbol'])
    found = [v for t, v, g in walk_assigns(fn.body) if dotted(t) == 'self.geometry']
    need(len(found) == 1, 'BoundSkin: self.geometry')
    call = found[0]
    need(isinstance(call, ast.Call) and dotted(call.func) == 'skin.geometry.bind' and len(call.args) == 2
         and dotted(call.args[1]) == 'materialnodebysymbol', 'BoundSkin: skin.geometry.bind(.., materialnodebysymbol)')
    a = call.args[0]
    env = {'matrix': 'matrix', 'skin.bind_shape_matrix': 'bind_shape_matrix'}
    if dotted(a) in env:
        term = env[dotted(a)]
    else:
        need(isinstance(a, ast.Call) and dotted(a.func) == 'numpy.dot' and len(a.args) == 2 and
             dotted(a.args[0]) in env and dotted(a.args[1]) in env, 'BoundSkin: numpy.dot(matrix, skin.bind_shape_matrix)')
        term = '(mmul (oadd O) (omul O) %s %s)' % (env[dotted(a.args[0])], env[dotted(a.args[1])])
    return ['(* controller.py BoundSkin.__init__: the matrix the skinned geometry is bound with *)',
            'Definition skin_geometry_matrix {R : Type} (O : ops R) (matrix bind_shape_matrix : mat R) : mat R :=',
            '  %s.' % term]


BOUND_CODE = {'BoundTriangleSet': 0, 'BoundPolylist': 1, 'BoundPolygons': 1, 'BoundLineSet': 2,
              'BoundPointLight': 0, 'BoundDirectionalLight': 1, 'BoundSpotLight': 2, 'BoundAmbientLight': 3,
              'BoundPerspectiveCamera': 0, 'BoundOrthographicCamera': 1}


def bind_class(mod, cls, nargs):
    """`def bind(self, matrix[, materialnodebysymbol]): return Bound<X>(self, matrix[, ..])` -> code of Bound<X>"""
    c = find(mod.body, cls, ast.ClassDef)
    fn = find(c.body, 'bind', ast.FunctionDef)
    want = ['self', 'matrix'] + (['materialnodebysymbol'] if nargs == 3 else [])
    need([a.arg for a in fn.args.args] == want, '%s.bind signature' % cls)
    body = [st for st in fn.body if not (isinstance(st, ast.Expr) and isinstance(st.value, ast.Constant))]
    need(len(body) == 1 and isinstance(body[0], ast.Return) and isinstance(body[0].value, ast.Call), '%s.bind: a single return' % cls)
    call = body[0].value
    name = dotted(call.func)
    need(name in BOUND_CODE and [dotted(a) for a in call.args] == want and not call.keywords, '%s.bind returns %s(..)' % (cls, name))
    return name, BOUND_CODE[name]


def tr_bind_classes(tri, pol, pg, lin, lig, cam):
    rows = [('primitive', [(tri, 'TriangleSet', 3), (pol, 'Polylist', 3), (pg, 'Polygons', 3), (lin, 'LineSet', 3)]),
            ('light', [(lig, 'PointLight', 2), (lig, 'DirectionalLight', 2), (lig, 'SpotLight', 2), (lig, 'AmbientLight', 2)]),
            ('camera', [(cam, 'PerspectiveCamera', 2), (cam, 'OrthographicCamera', 2)])]
    out = ['(* which Bound class the bind() method of each library class returns (codes: primitives 0 BoundTriangleSet,',
           '   1 BoundPolylist/BoundPolygons, 2 BoundLineSet; lights 0 point, 1 directional, 2 spot, 3 ambient;',
           '   cameras 0 perspective, 1 orthographic); the argument is the position of the library class in the',
           '   lists TriangleSet, Polylist, Polygons, LineSet / PointLight, DirectionalLight, SpotLight, AmbientLight /',
           '   PerspectiveCamera, OrthographicCamera *)']
    for kind, lst in rows:
        arms = []
        for i, (m, cls, n) in enumerate(lst):
            name, code = bind_class(m, cls, n)
            arms.append('  | %d%%nat => %d%%nat (* %s.bind -> %s *)' % (i, code, cls, name))
        out += ['Definition %s_bind_class (library_class : nat) : nat :=' % kind, '  match library_class with'] + arms + \
               ['  | _ => %d%%nat' % (len(lst) + 5), '  end.']
    return out


PREAMBLE = '''(* GENERATED by harness/translate/bound.py from collada/triangleset.py, polylist.py, lineset.py,
   light.py, camera.py, controller.py and scene.py.  Do not edit: regenerated on every run;
   harness/translate/golden/Bound.v is the committed copy used when a source leaves the grammar. *)
From Coq Require Import List ZArith NArith.
From PC Require Import Base.Py Base.Mat Gen.Transforms.
Import ListNotations.

(* numpy pieces the expressions are made of; A[r0:r0+3, c0:c0+3] is a 3x3 block of a 4x4 matrix *)
Definition block_row {R : Type} (O : ops R) (A : mat R) (r0 c0 : nat) (v : vec3 R) : vec3 R :=
  (* row vector times block: numpy.asarray(v * A[r0:, c0:]), numpy.dot(v, block) *)
  let g := fun i j => mget (o0 O) A (r0 + i) (c0 + j) in
  let '(v0, v1, v2) := v in
  (oadd O (oadd O (omul O v0 (g 0 0)) (omul O v1 (g 1 0))) (omul O v2 (g 2 0)),
   oadd O (oadd O (omul O v0 (g 0 1)) (omul O v1 (g 1 1))) (omul O v2 (g 2 1)),
   oadd O (oadd O (omul O v0 (g 0 2)) (omul O v1 (g 1 2))) (omul O v2 (g 2 2)))%nat.
Definition block_col {R : Type} (O : ops R) (A : mat R) (r0 c0 : nat) (v : vec3 R) : vec3 R :=
  (* block times column vector: numpy.dot(A[r0:, c0:], v) *)
  let g := fun i j => mget (o0 O) A (r0 + i) (c0 + j) in
  let '(v0, v1, v2) := v in
  (oadd O (oadd O (omul O (g 0 0) v0) (omul O (g 0 1) v1)) (omul O (g 0 2) v2),
   oadd O (oadd O (omul O (g 1 0) v0) (omul O (g 1 1) v1)) (omul O (g 1 2) v2),
   oadd O (oadd O (omul O (g 2 0) v0) (omul O (g 2 1) v1)) (omul O (g 2 2) v2))%nat.
Definition slice_col {R : Type} (O : ops R) (A : mat R) (r0 c : nat) : vec3 R :=      (* A[r0:r0+3, c] *)
  (mget (o0 O) A r0 c, mget (o0 O) A (r0 + 1) c, mget (o0 O) A (r0 + 2) c).
Definition slice_row {R : Type} (O : ops R) (A : mat R) (r c0 : nat) : vec3 R :=      (* A[r, c0:c0+3] *)
  (mget (o0 O) A r c0, mget (o0 O) A r (c0 + 1), mget (o0 O) A r (c0 + 2)).
Definition vopp {R : Type} (O : ops R) (v : vec3 R) : vec3 R :=
  let '(a, b, c) := v in (oopp O a, oopp O b, oopp O c).
'''


def translate(repo):
    def mod(name):
        return ast.parse(open(os.path.join(repo, 'collada', name), encoding='utf-8').read())
    tri, pol, lin, lig, cam, ctl, sce = (mod(f) for f in ('triangleset.py', 'polylist.py', 'lineset.py', 'light.py', 'camera.py',
                                                          'controller.py', 'scene.py'))
    # BoundPolygons must still be BoundPolylist with nothing of its own
    pg = ast.parse(open(os.path.join(repo, 'collada', 'polygons.py'), encoding='utf-8').read())
    bp = find(pg.body, 'BoundPolygons', ast.ClassDef)
    need([dotted(b) for b in bp.bases] == ['polylist.BoundPolylist'], 'BoundPolygons base class')
    bpi = find(bp.body, '__init__', ast.FunctionDef)
    calls = [n for n in ast.walk(bpi) if isinstance(n, ast.Call)]
    need(len([s for s in bpi.body if not (isinstance(s, ast.Expr) and isinstance(s.value, ast.Constant))]) == 1 and
         any(isinstance(c.func, ast.Attribute) and c.func.attr == '__init__' and
             [dotted(a) for a in c.args] == ['pl', 'matrix', 'materialnodebysymbol'] for c in calls),
         'BoundPolygons.__init__ only delegates')
    parts = [
        tr_primitive(tri, 'BoundTriangleSet', 'ts', 'triangleset'),
        tr_primitive(pol, 'BoundPolylist', 'pl', 'polylist'),
        tr_primitive(lin, 'BoundLineSet', 'ls', 'lineset'),
        tr_vectors(lig, 'BoundPointLight', 'plight', 'point_light', ['position'], {'position': 'position'}),
        tr_vectors(lig, 'BoundSpotLight', 'slight', 'spot_light', ['position', 'direction', 'up'], {}),
        tr_vectors(lig, 'BoundDirectionalLight', 'dlight', 'directional_light', ['direction'], {'direction': 'direction'}),
        tr_vectors(cam, 'BoundPerspectiveCamera', 'cam', 'perspective_camera', ['position', 'direction', 'up'], {}),
        tr_vectors(cam, 'BoundOrthographicCamera', 'cam', 'orthographic_camera', ['position', 'direction', 'up'], {}),
        tr_table(sce, 'GeometryNode', 'geometry_node', 'geometry'),
        tr_table(sce, 'ControllerNode', 'controller_node', 'controller'),
        tr_skin(ctl),
        tr_bind_classes(tri, pol, pg, lin, lig, cam),
    ]
    return PREAMBLE + '\n' + '\n\n'.join('\n'.join(p) for p in parts) + '\n'


def write_if_changed(path, text):
    if os.path.exists(path) and open(path, encoding='utf-8').read() == text:
        return False
    tmp = path + '.tmp%d' % os.getpid()
    with open(tmp, 'w', encoding='utf-8') as f:
        f.write(text)
    os.replace(tmp, path)
    return True


def main(argv):
    repo, gen = argv[1], argv[2]
    os.makedirs(gen, exist_ok=True)
    out = os.path.join(gen, 'Bound.v')
    try:
        text = translate(repo)
    except (Reject, SyntaxError, OSError, IndexError, AttributeError) as e:
        if os.path.exists(GOLDEN):
            write_if_changed(out, open(GOLDEN, encoding='utf-8').read())
        sys.stderr.write('bound: source left the accepted grammar: %s\n' % (e,))
        return 1
    ch = write_if_changed(out, text)
    same = os.path.exists(GOLDEN) and open(GOLDEN, encoding='utf-8').read() == text
    print('Bound.v %s (%s the committed golden copy)' % ('rewritten' if ch else 'unchanged', 'identical to' if same else 'DIFFERS from'))
    return 0


if __name__ == '__main__':
    sys.exit(main(sys.argv))
