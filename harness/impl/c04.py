"""C04 worker: builds documents with pycollada's public API from JSON recipes (from scratch, or
a loaded document plus an edit history), writes them, returns the written bytes.
stdin: {'recipes': [recipe, ...]} -> stdout: [{'ok', 'error', 'docs': [b64, ...], 'notes'}].
The harness (not this process) validates and checks the bookkeeping of the bytes."""
import base64
import copy
import io
import json
import sys
import traceback

import numpy

import collada
from collada import asset, camera, geometry, light, lineset, material, polygons, polylist, scene, source, triangleset


def f32(xs):
    return numpy.array(xs, dtype=numpy.float32)


class Builder:
    def __init__(self, mesh, numform='py'):
        self.m = mesh
        self.nf = numform

    def N(self, v, as_float=False):
        """the Python form of a number handed to the API: a float, or a NumPy scalar"""
        if v is None:
            return None
        if self.nf == 'f32' and not as_float:
            return numpy.float32(v)
        if self.nf in ('f32', 'f64'):
            return numpy.float64(v)
        return float(v)

    # ---- library objects
    def mk_source(self, s):
        if s['kind'] == 'float':
            return source.FloatSource(s['id'], f32(s['data']), tuple(s['comps']))
        if s['kind'] == 'name':
            return source.NameSource(s['id'], numpy.array(s['data'], dtype=numpy.str_), tuple(s['comps']))
        return source.IDRefSource(s['id'], numpy.array(s['data'], dtype=numpy.str_), tuple(s['comps']))

    def mk_prim(self, g, p):
        il = source.InputList()
        for off, sem, src, st in p['inputs']:
            il.addInput(off, sem, src, st)
        idx = numpy.array(p['indices'], dtype=numpy.int32)
        k = p['kind']
        if k == 'triangles':
            return g.createTriangleSet(idx, il, p.get('material'))
        if k == 'lines':
            return g.createLineSet(idx, il, p.get('material'))
        if k == 'polylist':
            return g.createPolylist(idx, numpy.array(p['vcounts'], dtype=numpy.int32), il, p.get('material'))
        if k == 'polygons':
            polys = []
            pos = 0
            n = p['nind']
            for vc in p['vcounts']:
                polys.append(idx[pos:pos + vc * n])
                pos += vc * n
            return g.createPolygons(polys, il, p.get('material'))
        raise ValueError(k)

    def mk_geometry(self, r):
        srcs = [self.mk_source(s) for s in r['sources']]
        g = geometry.Geometry(self.m, r['id'], r.get('name', ''), srcs, double_sided=bool(r.get('double_sided')))
        for p in r.get('prims', []):
            g.primitives.append(self.mk_prim(g, p))
        return g

    def mk_image(self, r):
        return material.CImage(r['id'], r['path'], self.m)

    def prop(self, v, samplers):
        if v is None:
            return None
        if v[0] == 'color':
            return tuple(self.N(x) for x in v[1])
        if v[0] == 'float':
            return self.N(v[1], as_float=True)
        return material.Map(samplers[v[1]], v[2])

    def mk_effect(self, r):
        params, byid = [], {}
        for p in r.get('params', []):
            if p['kind'] == 'surface':
                o = material.Surface(p['id'], self.m.images[p['image']], p.get('format'))
            else:
                o = material.Sampler2D(p['id'], byid[p['surface']], p.get('min'), p.get('mag'))
            byid[p['id']] = o
            params.append(o)
        kw = {k: self.prop(v, byid) for k, v in r['props'].items()}
        bump = self.prop(r['bump'], byid) if r.get('bump') else None
        return material.Effect(r['id'], params, r['shader'], bumpmap=bump, double_sided=bool(r.get('double_sided')),
                               opaque_mode=r.get('opaque'), **kw)

    def mk_material(self, r):
        return material.Material(r['id'], r['name'], self.m.effects[r['effect']])

    def mk_light(self, r):
        k = r['kind']
        c = tuple(self.N(x) for x in r['color'])
        r = dict(r)
        for a in ('catt', 'latt', 'qatt', 'zfar', 'fang', 'fexp'):
            if r.get(a) is not None:
                r[a] = self.N(r[a])
        if k == 'ambient':
            return light.AmbientLight(r['id'], c)
        if k == 'directional':
            return light.DirectionalLight(r['id'], c)
        if k == 'point':
            return light.PointLight(r['id'], c, r.get('catt'), r.get('latt'), r.get('qatt'), r.get('zfar'))
        return light.SpotLight(r['id'], c, r.get('catt'), r.get('latt'), r.get('qatt'), r.get('fang'), r.get('fexp'))

    def mk_camera(self, r):
        r = dict(r)
        for a in ('znear', 'zfar', 'xfov', 'yfov', 'aspect', 'xmag', 'ymag'):
            if r.get(a) is not None:
                r[a] = self.N(r[a])
        if r['kind'] == 'perspective':
            return camera.PerspectiveCamera(r['id'], r['znear'], r['zfar'], xfov=r.get('xfov'), yfov=r.get('yfov'),
                                            aspect_ratio=r.get('aspect'))
        return camera.OrthographicCamera(r['id'], r['znear'], r['zfar'], xmag=r.get('xmag'), ymag=r.get('ymag'),
                                         aspect_ratio=r.get('aspect'))

    # ---- scene graph
    def mk_transform(self, t):
        k = t[0]
        if k == 'translate':
            return scene.TranslateTransform(*[self.N(x) for x in t[1:4]])
        if k == 'rotate':
            return scene.RotateTransform(*[self.N(x) for x in t[1:5]])
        if k == 'scale':
            return scene.ScaleTransform(*[self.N(x) for x in t[1:4]])
        if k == 'matrix':
            return scene.MatrixTransform(f32(t[1]))
        if k == 'lookat':
            return scene.LookAtTransform(f32(t[1]), f32(t[2]), f32(t[3]))
        raise ValueError(k)

    def mk_matnode(self, r):
        return scene.MaterialNode(r['symbol'], self.m.materials[r['target']], [tuple(i) for i in r.get('inputs', [])])

    def mk_child(self, c, nodes_by_id):
        k = c[0]
        if k == 'geometry':
            return scene.GeometryNode(self.m.geometries[c[1]], [self.mk_matnode(x) for x in c[2]])
        if k == 'light':
            return scene.LightNode(self.m.lights[c[1]])
        if k == 'camera':
            return scene.CameraNode(self.m.cameras[c[1]])
        if k == 'node':
            return self.mk_node(c[1], nodes_by_id)
        if k == 'instance_node':
            return scene.NodeNode(nodes_by_id[c[1]])
        if k == 'extra':
            # a user-made <extra> has to carry a <technique> (schema: technique+)
            from collada.common import E
            return scene.ExtraNode(E.extra(E.technique(E.double_sided('1'), profile='MAX3D')))
        raise ValueError(k)

    def mk_node(self, r, nodes_by_id):
        n = scene.Node(r['id'], [self.mk_child(c, nodes_by_id) for c in r.get('children', [])],
                       [self.mk_transform(t) for t in r.get('transforms', [])], name=r.get('name'))
        nodes_by_id[r['id']] = n
        return n

    def mk_contributor(self, r):
        return asset.Contributor(author=r.get('author'), authoring_tool=r.get('authoring_tool'), comments=r.get('comments'),
                                 copyright=r.get('copyright'), source_data=r.get('source_data'))

    def set_asset(self, r):
        a = self.m.assetInfo
        for k in ('title', 'subject', 'revision', 'keywords', 'unitname', 'unitmeter', 'upaxis'):
            if k in r:
                setattr(a, k, r[k])
        import datetime
        for k in ('created', 'modified'):
            if r.get(k):
                setattr(a, k, datetime.datetime.fromisoformat(r[k]))
        for c in r.get('contributors', []):
            a.contributors.append(self.mk_contributor(c))

    def add_all(self, r, nodes_by_id):
        m = self.m
        if 'asset' in r:
            self.set_asset(r['asset'])
        for x in r.get('images', []):
            m.images.append(self.mk_image(x))
        for x in r.get('effects', []):
            m.effects.append(self.mk_effect(x))
        for x in r.get('materials', []):
            m.materials.append(self.mk_material(x))
        for x in r.get('geometries', []):
            m.geometries.append(self.mk_geometry(x))
        for x in r.get('lights', []):
            m.lights.append(self.mk_light(x))
        for x in r.get('cameras', []):
            m.cameras.append(self.mk_camera(x))
        for x in r.get('nodes', []):
            m.nodes.append(self.mk_node(x, nodes_by_id))
        for x in r.get('scenes', []):
            m.scenes.append(scene.Scene(x['id'], [self.mk_node(n, nodes_by_id) for n in x['nodes']]))
        if r.get('scene') is not None:
            m.scene = m.scenes[r['scene']]


def write(m):
    out = io.BytesIO()
    m.write(out)
    return out.getvalue()


def all_nodes(m):
    out = []

    def walk(n):
        if type(n) is scene.Node:
            out.append(n)
            for c in n.children:
                walk(c)
    for s in m.scenes:
        for n in s.nodes:
            walk(n)
    for n in m.nodes:
        walk(n)
    return out


SHADER_PROPS = {
    'phong': ['emission', 'ambient', 'diffuse', 'specular', 'shininess', 'reflective', 'reflectivity', 'transparent',
              'transparency', 'index_of_refraction'],
    'lambert': ['emission', 'ambient', 'diffuse', 'reflective', 'reflectivity', 'transparent', 'transparency',
                'index_of_refraction'],
    'constant': ['emission', 'reflective', 'reflectivity', 'transparent', 'transparency', 'index_of_refraction'],
}
SHADER_PROPS['blinn'] = SHADER_PROPS['phong']
FLOAT_PROPS = ('shininess', 'reflectivity', 'transparency', 'index_of_refraction')

CHILD_RANK = {scene.CameraNode: 0, scene.ControllerNode: 1, scene.GeometryNode: 2, scene.LightNode: 3,
              scene.NodeNode: 4, scene.Node: 5, scene.ExtraNode: 6}


def insert_in_schema_order(children, c):
    """the user-side obligation 'node children in schema order': put the new child after the last
    child of its own or an earlier kind"""
    r = CHILD_RANK[type(c)]
    pos = len(children)
    for i, x in enumerate(children):
        if CHILD_RANK.get(type(x), 6) > r:
            pos = i
            break
    children.insert(pos, c)


def apply_op(b, op, nodes_by_id, docs):
    m = b.m
    k = op[0]
    if k == 'add':
        b.add_all(op[1], nodes_by_id)
    elif k == 'write':
        docs.append(write(m))
    elif k == 'reload':
        data = write(m)
        docs.append(data)
        b.m = collada.Collada(io.BytesIO(data))
        nodes_by_id.clear()
        for n in all_nodes(b.m):
            if n.id:
                nodes_by_id[n.id] = n
    elif k == 'rename':
        lib = getattr(m, op[1])
        if len(lib) > 0:
            o = lib[op[2] % len(lib)]
            o.id = op[3]
            # IndexedList keys follow the attribute only when the list is re-installed
            setattr(m, op[1], list(lib))
    elif k == 'set_name':
        lib = getattr(m, op[1])
        if len(lib) > 0:
            lib[op[2] % len(lib)].name = op[3]
    elif k == 'remove':
        lib = getattr(m, op[1])
        if len(lib) > 0:
            del lib[op[2] % len(lib)]
    elif k == 'node_transform':
        ns = all_nodes(m)
        if ns:
            n = ns[op[1] % len(ns)]
            t = b.mk_transform(op[3])
            n.transforms.insert(min(op[2], len(n.transforms)), t)
    elif k == 'node_del_transform':
        ns = [n for n in all_nodes(m) if n.transforms]
        if ns:
            n = ns[op[1] % len(ns)]
            del n.transforms[op[2] % len(n.transforms)]
    elif k == 'node_child':
        ns = all_nodes(m)
        if ns:
            n = ns[op[1] % len(ns)]
            insert_in_schema_order(n.children, b.mk_child(op[2], nodes_by_id))
    elif k == 'node_del_child':
        ns = [n for n in all_nodes(m) if n.children]
        if ns:
            n = ns[op[1] % len(ns)]
            del n.children[op[2] % len(n.children)]
    elif k == 'scene_node':
        if len(m.scenes) > 0:
            s = m.scenes[op[1] % len(m.scenes)]
            s.nodes.insert(min(op[2], len(s.nodes)), b.mk_node(op[3], nodes_by_id))
    elif k == 'source_data':
        gs = [g for g in m.geometries]
        if gs:
            g = gs[op[1] % len(gs)]
            srcs = [s for s in g.sourceById.values() if isinstance(s, source.FloatSource)]
            s = srcs[op[2] % len(srcs)]
            nc = len(s.components)
            rows = op[3]
            # never shrink below what the primitives index
            need = 0
            for p in g.primitives:
                for lst in p.sources.values():
                    for inp in lst:
                        if inp[4] is s and p.index is not None and p.index.size:
                            need = max(need, int(p.index.reshape(-1, p.nindices)[:, inp[0]].max()) + 1)
            rows = max(rows, need)
            arr = numpy.resize(s.data.reshape(-1), rows * nc).astype(numpy.float32)
            form = op[4] if len(op) > 4 else 'shaped'
            if form == 'flat':
                s.data = arr                      # unshaped, as the constructor accepts it
            elif form == 'wide':
                s.data = arr.reshape(1, -1)       # a 2-D array of another width
            else:
                s.data = arr.reshape(-1, nc)
            if len(op) > 5 and op[5]:
                # the components tuple replaced by one of another arity (data sized to fit)
                newc = tuple(op[5])
                s.components = newc
                s.data = numpy.resize(arr, rows * len(newc)).astype(numpy.float32)
    elif k == 'add_source':
        gs = [g for g in m.geometries]
        if gs:
            g = gs[op[1] % len(gs)]
            s = b.mk_source(op[2])
            g.sourceById[s.id] = s
    elif k == 'add_prim':
        gs = [g for g in m.geometries if g.primitives]
        if gs:
            g = gs[op[1] % len(gs)]
            p0 = g.primitives[op[2] % len(g.primitives)]
            il = p0.getInputList()
            stride = p0.nindices
            kind = op[3]
            nv = {'triangles': 3, 'lines': 2}.get(kind, 3)
            npr = op[4]
            idx = numpy.zeros(npr * nv * stride, dtype=numpy.int32)
            if kind == 'triangles':
                g.primitives.append(g.createTriangleSet(idx, il, op[5]))
            elif kind == 'lines':
                g.primitives.append(g.createLineSet(idx, il, op[5]))
            elif kind == 'polylist':
                g.primitives.append(g.createPolylist(idx, numpy.array([3] * npr, dtype=numpy.int32), il, op[5]))
            else:
                g.primitives.append(g.createPolygons([idx[i * 3 * stride:(i + 1) * 3 * stride] for i in range(npr)], il, op[5]))
    elif k == 'swap_positions':
        # rebuild every primitive of a geometry on a NEW positions source (the <vertices> element
        # was made for another one)
        gs = [g for g in m.geometries if g.primitives]
        if gs:
            g = gs[op[1] % len(gs)]
            need = 1
            for p in g.primitives:
                if p.index is not None and p.index.size and p.sources.get('VERTEX'):
                    off = p.sources['VERTEX'][0][0]
                    need = max(need, int(numpy.array(p.index).reshape(-1, p.nindices)[:, off].max()) + 1)
            s = source.FloatSource(op[2], f32([float(i % 5) for i in range(need * 3)]), ('X', 'Y', 'Z'))
            g.sourceById[s.id] = s
            newprims = []
            for p in g.primitives:
                il = source.InputList()
                for lst in p.sources.values():
                    for (off, sem, src, st, _obj) in lst:
                        if sem in source.InputList.semantics:
                            il.addInput(off, sem, '#' + s.id if sem == 'VERTEX' else src, st)
                idx = numpy.array(p.index).reshape(-1).copy()
                if isinstance(p, polygons.Polygons):
                    polys, pos = [], 0
                    for vc in p.vcounts:
                        polys.append(idx[pos:pos + int(vc) * p.nindices])
                        pos += int(vc) * p.nindices
                    newprims.append(g.createPolygons(polys, il, p.material))
                elif isinstance(p, polylist.Polylist):
                    newprims.append(g.createPolylist(idx, numpy.array(p.vcounts).copy(), il, p.material))
                elif isinstance(p, triangleset.TriangleSet):
                    newprims.append(g.createTriangleSet(idx, il, p.material))
                elif isinstance(p, lineset.LineSet):
                    newprims.append(g.createLineSet(idx, il, p.material))
                else:
                    newprims.append(p)
            g.primitives[:] = newprims
    elif k == 'del_prim':
        gs = [g for g in m.geometries if g.primitives]
        if gs:
            g = gs[op[1] % len(gs)]
            del g.primitives[op[2] % len(g.primitives)]
    elif k == 'geom_double_sided':
        if len(m.geometries):
            m.geometries[op[1] % len(m.geometries)].double_sided = bool(op[2])
    elif k == 'effect_set':
        # op = [k, effect index, property index (among those of the effect's shader), colour-kind value, float value]
        if len(m.effects):
            e = m.effects[op[1] % len(m.effects)]
            props = SHADER_PROPS.get(e.shadingtype, SHADER_PROPS['phong'])
            prop = props[op[2] % len(props)]
            v = op[4] if prop in FLOAT_PROPS else op[3]
            if v is not None and v[0] == 'map':
                smp = [p for p in e.params if isinstance(p, material.Sampler2D)]
                if not smp:
                    return
                v = material.Map(smp[v[1] % len(smp)], v[2])
            elif v is not None:
                v = tuple(v[1]) if v[0] == 'color' else float(v[1])
            setattr(e, prop, v)
    elif k == 'effect_shader':
        if len(m.effects):
            e = m.effects[op[1] % len(m.effects)]
            e.shadingtype = op[2]
            for prop, v in op[3].items():
                setattr(e, prop, None if v is None else (tuple(v[1]) if v[0] == 'color' else float(v[1])))
    elif k == 'effect_misc':
        if len(m.effects):
            e = m.effects[op[1] % len(m.effects)]
            e.double_sided = bool(op[2])
            e.opaque_mode = op[3]
    elif k == 'sampler_filters':
        smp = [p for e in m.effects for p in e.params if isinstance(p, material.Sampler2D)]
        if smp:
            s = smp[op[1] % len(smp)]
            s.minfilter, s.magfilter = op[2], op[3]
    elif k == 'surface_format':
        sf = [p for e in m.effects for p in e.params if isinstance(p, material.Surface)]
        if sf:
            sf[op[1] % len(sf)].format = op[2]
    elif k == 'light_set':
        if len(m.lights):
            lg = m.lights[op[1] % len(m.lights)]
            for a, v in op[2].items():
                if hasattr(lg, a):
                    setattr(lg, a, tuple(b.N(x) for x in v) if isinstance(v, list) else b.N(v))
    elif k == 'camera_set':
        if len(m.cameras):
            c = m.cameras[op[1] % len(m.cameras)]
            for a, v in op[2].items():
                if hasattr(c, a):
                    setattr(c, a, b.N(v))
    elif k == 'asset':
        b.set_asset(op[1])
    elif k == 'contributor_set':
        cs = m.assetInfo.contributors
        if cs:
            c = cs[op[1] % len(cs)]
            for a, v in op[2].items():
                setattr(c, a, v)
    elif k == 'matnode_inputs':
        gns = [c for n in all_nodes(m) for c in n.children if isinstance(c, scene.GeometryNode) and c.materials]
        if gns:
            gn = gns[op[1] % len(gns)]
            mn = gn.materials[op[2] % len(gn.materials)]
            mn.inputs = [tuple(i) for i in op[3]]
            mn.symbol = op[4]
    elif k == 'geomnode_materials':
        gns = [c for n in all_nodes(m) for c in n.children if isinstance(c, scene.GeometryNode)]
        if gns and len(m.materials):
            gn = gns[op[1] % len(gns)]
            if op[2] == 'clear':
                gn.materials = []
            else:
                gn.materials.append(b.mk_matnode(op[2]))
    elif k == 'replace_asset':
        # wholesale replacement of the singleton asset object
        m.assetInfo = asset.Asset()
        b.set_asset(op[1])
    elif k == 'replace_object':
        # a library object is replaced by a NEW object carrying the same id
        lib = getattr(m, op[1])
        if len(lib) > 0:
            i = op[2] % len(lib)
            o = lib[i]
            r = dict(op[3])
            r['id'] = o.id
            if op[1] == 'lights':
                new = b.mk_light(r)
            elif op[1] == 'cameras':
                new = b.mk_camera(r)
            elif op[1] == 'images':
                new = material.CImage(o.id, r['path'], m)
            elif op[1] == 'effects':
                new = b.mk_effect(r)
            elif op[1] == 'materials':
                new = material.Material(o.id, r['name'], o.effect)
            elif op[1] == 'geometries':
                new = b.mk_geometry(r)
            else:
                return
            if o.id:
                lib[i] = new
    elif k == 'replace_scene':
        if len(m.scenes) > 0:
            i = op[1] % len(m.scenes)
            old = m.scenes[i]
            new = scene.Scene(old.id, list(old.nodes))
            m.scenes[i] = new
            if m.scene is old:
                m.scene = new
    elif k == 'dup_source':
        # a source cloned (its element too) and given a new id, next to the original
        gs = [g for g in m.geometries]
        if gs:
            g = gs[op[1] % len(gs)]
            srcs = [s for s in g.sourceById.values() if isinstance(s, source.FloatSource)]
            if srcs:
                s2 = copy.deepcopy(srcs[op[2] % len(srcs)])
                s2.id = op[3]
                g.sourceById[s2.id] = s2
    elif k == 'rename_source_reuse':
        # a source no primitive reads is renamed and a NEW source takes its old id
        gs = [g for g in m.geometries]
        if gs:
            g = gs[op[1] % len(gs)]
            used = set()
            for p in g.primitives:
                for lst in p.sources.values():
                    for inp in lst:
                        used.add(id(inp[4]))
            vn = g.xmlnode.find('%s/%s' % (collada.common.tag('mesh'), collada.common.tag('vertices')))
            vrefs = {i.get('source', '')[1:] for i in vn.findall(collada.common.tag('input'))} if vn is not None else set()
            free = [s for s in g.sourceById.values() if isinstance(s, source.FloatSource) and id(s) not in used and s.id not in vrefs]
            seen, uniq = set(), []
            for s in free:
                if id(s) not in seen:
                    seen.add(id(s))
                    uniq.append(s)
            if uniq:
                s = uniq[op[2] % len(uniq)]
                old = s.id
                for key in [kk for kk, vv in g.sourceById.items() if vv is s]:
                    del g.sourceById[key]
                s.id = op[3]
                g.sourceById[s.id] = s
                if op[4]:
                    g.sourceById[old] = source.FloatSource(old, f32([1.0, 2.0, 3.0, 4.0]), ('S', 'T'))
    elif k == 'dup_object':
        lib = getattr(m, op[1])
        if len(lib) > 0:
            o = lib[op[2] % len(lib)]
            if not o.id:
                return
            if op[1] in ('lights', 'cameras'):
                new = copy.deepcopy(o)
            elif op[1] == 'materials':
                new = copy.copy(o)
                new.xmlnode = copy.deepcopy(o.xmlnode)
            elif op[1] == 'effects':
                new = copy.copy(o)
                new.xmlnode = copy.deepcopy(o.xmlnode)
                new.params = []
                for prop in SHADER_PROPS['phong']:
                    if isinstance(getattr(new, prop), material.Map):
                        setattr(new, prop, None)
            elif op[1] == 'geometries':
                srcs = []
                for n, s in enumerate(s for s in o.sourceById.values() if isinstance(s, source.Source)):
                    if any(s is x[0] for x in srcs):
                        continue
                    s2 = copy.deepcopy(s)
                    srcs.append((s, s2))
                for n, (s, s2) in enumerate(srcs):
                    s2.id = '%s.%d' % (op[3], n)
                new = geometry.Geometry(m, op[3], o.name, [s2 for _, s2 in srcs])
            else:
                return
            new.id = op[3]
            lib.append(new)
    elif k == 'dup_node':
        ns = all_nodes(m)
        if ns and len(m.scenes):
            n = ns[op[1] % len(ns)]
            n2 = scene.Node(op[2], children=[], transforms=[copy.deepcopy(t) for t in n.transforms], name=n.name)
            m.scenes[op[3] % len(m.scenes)].nodes.append(n2)
    elif k == 'effect_add_params':
        # the first <newparam>s of an effect (in front of its <technique>)
        if len(m.effects) and len(m.images):
            e = m.effects[op[1] % len(m.effects)]
            sf = material.Surface(op[2], m.images[op[4] % len(m.images)], op[5])
            sm = material.Sampler2D(op[3], sf, op[6], op[7])
            e.params = list(e.params) + [sf, sm]
            if op[8] and 'diffuse' in SHADER_PROPS.get(e.shadingtype, []):
                e.diffuse = material.Map(sm, 'UV')
    elif k == 'empty_library':
        # every object of one kind is removed (the library element disappears on save)
        if op[1] == 'scenes':
            m.scene = None
        setattr(m, op[1], [])
    elif k == 'add_one':
        # one object of a kind (the first one when the library was empty: its library is created)
        kind, r = op[1], op[2]
        if kind == 'geometries':
            m.geometries.append(b.mk_geometry(r))
        elif kind == 'lights':
            m.lights.append(b.mk_light(r))
        elif kind == 'cameras':
            m.cameras.append(b.mk_camera(r))
        elif kind == 'images':
            m.images.append(b.mk_image(r))
        elif kind == 'effects':
            m.effects.append(b.mk_effect(r))
        elif kind == 'materials':
            if len(m.effects) == 0:
                m.effects.append(b.mk_effect(r['effect_recipe']))
            m.materials.append(material.Material(r['id'], r['name'], m.effects[0]))
        elif kind == 'nodes':
            m.nodes.append(b.mk_node(r, nodes_by_id))
        elif kind == 'scenes':
            m.scenes.append(scene.Scene(r['id'], [b.mk_node(n, nodes_by_id) for n in r['nodes']]))
    elif k == 'set_scene':
        m.scene = m.scenes[op[1] % len(m.scenes)] if (op[1] is not None and len(m.scenes)) else None
    else:
        raise ValueError('unknown op %r' % (k,))


def run_recipe(r):
    res = {'ok': True, 'error': None, 'docs': [], 'notes': []}
    docs = []
    try:
        if r['kind'] == 'scratch':
            m = collada.Collada(validate_output=True)
        else:
            m = collada.Collada(io.BytesIO(base64.b64decode(r['base'])), validate_output=True)
        b = Builder(m, r.get('numform', 'py'))
        nodes_by_id = {}
        for n in all_nodes(m):
            if n.id:
                nodes_by_id[n.id] = n
        for op in r['ops']:
            apply_op(b, op, nodes_by_id, docs)
        if not r['ops'] or r['ops'][-1][0] not in ('write', 'reload'):
            docs.append(write(b.m))
    except Exception as e:  # noqa
        res['ok'] = False
        res['error'] = '%s: %s' % (type(e).__name__, e)
        res['trace'] = traceback.format_exc()[-1500:]
    res['docs'] = [base64.b64encode(d).decode() for d in docs]
    return res


def main():
    payload = json.load(sys.stdin)
    out = [run_recipe(r) for r in payload['recipes']]
    json.dump(out, sys.stdout)


if __name__ == '__main__':
    main()
