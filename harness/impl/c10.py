"""Implementation worker for C10: len(), iteration, item access and array views of a primitive,
unbound and bound (through Geometry.bind -> BoundGeometry.primitives()).

Case = a C09 case (see harness/impl/c09.py) plus 'matrix' (3 rows of 4 integers = matrix[:3, :])
and 'matmap' ([[symbol, target], ...]).  Reports canonical observations for the in-Coq comparison
and the direct evaluation of the property's clauses (`fails`)."""
import json
import sys

from harness.impl import c09 as B

POISON = 999999937


def ints(a):
    """nested list of exact integers from an array of integer-valued floats"""
    import numpy
    a = numpy.asarray(a)
    flat = a.flatten().tolist()
    out = [int(x) if float(x).is_integer() else POISON for x in flat]
    if a.ndim == 1:
        return out
    w = a.shape[1] if a.ndim > 1 else 1
    return [out[i * w:(i + 1) * w] for i in range(a.shape[0])]


class Target(object):
    def __init__(self, n):
        self.id = 'material%d' % n
        self.n = n


def obs_item(it, P, kind, bound, symbols):
    """canonical observation of one Triangle / Line / Polygon"""
    import numpy
    o = {'ix': [int(x) for x in numpy.asarray(it.indices).flatten().tolist()],
         'v': ints(it.vertices)}
    if kind == 'line':
        o['ni'] = ['absent'] if not hasattr(it, 'normal_indices') else ['other']
    else:
        ni = it.normal_indices
        if ni is None:
            o['ni'] = ['none']
        elif isinstance(ni, int) and ni == 0:
            o['ni'] = ['zero']
        else:
            o['ni'] = ['idx', [int(x) for x in numpy.asarray(ni).flatten().tolist()]]
    if it.normals is None:
        o['n'] = ['none']
    elif P.normal is None:
        o['n'] = ['gen']
    else:
        o['n'] = ['rows', ints(it.normals)]
    if kind == 'line':
        o['ti'] = []
    else:
        o['ti'] = [[int(x) for x in numpy.asarray(t).flatten().tolist()] for t in it.texcoord_indices]
    o['t'] = [ints(t) for t in it.texcoords]
    m = it.material
    if m is None:
        o['m'] = None
    elif bound:
        o['m'] = m.n if isinstance(m, Target) else -1
    else:
        o['m'] = symbols.get(m, -1)
    return o


def attempt(f):
    try:
        return 0, f()
    except Exception as e:  # noqa
        return B.exc_code(e), e


def same(a, b):
    import numpy
    if a is None or b is None:
        return a is None and b is None
    a, b = numpy.asarray(a), numpy.asarray(b)
    return a.shape == b.shape and bool(numpy.array_equal(a, b, equal_nan=(a.dtype.kind == 'f' and b.dtype.kind == 'f')))


def clauses(P, kind, bound, case, items_code, items, want_len, who=None):
    """Direct evaluation of the C10 clauses on one (bound or unbound) primitive.  Everything is
    computed from the primitive's public array views and from the case's own vcounts."""
    who = who or ('bound' if bound else 'unbound')
    fails = []

    def fail(clause, what, detail):
        fails.append({'clause': clause, 'site': kind, 'who': who, 'what': what, 'detail': detail})
    n = len(P)
    if n != want_len:
        fail('len', 'len-differs', 'len() is %d but the primitive has %d shapes' % (n, want_len))
    if items_code != 0:
        if isinstance(items, TypeError) and P.vertex_index is None and n > 0 and B.KK[kind] == 1:
            # polygons of zero corners on an index-less polylist: the views are None and item access subscripts them
            fail('iteration', 'no-corners-raises-TypeError', 'iteration raised %r: %d zero-corner polygons on an empty index' % (items, n))
            return fails
        fail('iteration', 'raises-%s' % type(items).__name__, 'iteration raised %r (len() = %d)' % (items, n))
        return fails
    if len(items) != n:
        fail('iteration', 'count-differs', 'iteration yields %d items, len() is %d' % (len(items), n))
        return fails
    k = B.KK[kind]
    vcounts = None
    if k == 1:
        eff = B.effective_inputs(case)
        nind = max(off for off, _, _ in eff) + 1
        _, vcounts = B.stream_of(case, nind)
    tags = set()
    for i, it in enumerate(items):
        if k == 1:
            st = sum(vcounts[:i])
            sel = slice(st, st + vcounts[i])
            cnt = vcounts[i]
        else:
            sel = i
            cnt = k
        if P.vertex_index is None:
            # no array views (empty index): an item can only be a polygon without corners
            if cnt != 0 or len(it.indices) != 0 or len(it.vertices) != 0 or it.normals is not None \
                    or len(it.texcoords) != 0:
                fail('item-fields', 'views-absent', 'item %d has corners but the primitive has no array views' % i)
            if it.material is not P.material and it.material != P.material:
                fail('item-fields', 'material', 'item %d material %r, primitive material %r' % (i, it.material, P.material))
            continue
        vix = P.vertex_index[sel]
        if len(vix) != cnt:
            fail('item-fields', 'corner-count', 'item %d covers %d corners, expected %d' % (i, len(vix), cnt))
        if not same(it.indices, vix):
            fail('item-fields', 'indices', 'item %d indices %r but vertex_index gives %r' % (i, it.indices, vix))
        if not same(it.vertices, P.vertex[vix]):
            fail('item-fields', 'vertices', 'item %d vertices differ from vertex[vertex_index[i]]' % i)
        if P.normal is not None:
            nix = P.normal_index[sel]
            if not same(it.normals, P.normal[nix]):
                fail('item-fields', 'normals', 'item %d normals differ from normal[normal_index[i]]' % i)
            if kind != 'line' and not same(it.normal_indices, nix):
                fail('item-fields', 'normal-indices', 'item %d normal_indices differ from normal_index[i]' % i)
            tags.add('present')
        else:
            ni = getattr(it, 'normal_indices', 'no-attr')
            tags.add(('none' if it.normals is None else 'array',
                      'none' if ni is None else ('no-attr' if isinstance(ni, str) else repr(ni))))
        if len(it.texcoords) != len(P.texcoordset):
            fail('item-fields', 'texcoord-sets', 'item %d carries %d texcoord sets, the primitive has %d'
                 % (i, len(it.texcoords), len(P.texcoordset)))
        else:
            for j, (d, ixs) in enumerate(zip(P.texcoordset, P.texcoord_indexset)):
                if not same(it.texcoords[j], d[ixs[sel]]):
                    fail('item-fields', 'texcoords', 'item %d texcoord set %d differs from the views' % (i, j))
                if kind != 'line' and not same(it.texcoord_indices[j], ixs[sel]):
                    fail('item-fields', 'texcoord-indices', 'item %d texcoord_indices[%d] differ from the views' % (i, j))
        if it.material is not P.material and it.material != P.material:
            fail('item-fields', 'material', 'item %d material %r, primitive material %r' % (i, it.material, P.material))
        if len(fails) > 3:
            break
    if len(tags) > 1:
        fail('absent-inputs', 'inconsistent', 'absent normals show up differently on different items: %r' % sorted(map(str, tags)))
    return fails


def item_key(it):
    """content of an item, for telling positions apart (indices, vertices, texcoords)"""
    import numpy

    def arr(a):
        return None if a is None else (tuple(numpy.asarray(a).shape), numpy.asarray(a).tolist())
    return repr((arr(it.indices), arr(it.vertices), [arr(t) for t in it.texcoords]))


def consumption_forms(P, kind, who, mk_iter):
    """Every way of consuming an iteration must give, per iterator and independently of any other
    iterator over the same object, exactly the items 0..len-1 in order.  mk_iter() starts a new
    iteration (iter(P) or P.shapes())."""
    fails = []
    n = len(P)
    c, ref = attempt(lambda: [item_key(P[i]) for i in range(n)])
    if c != 0:
        return fails                      # item access itself fails: the item clauses report it

    def fail(form, detail):
        fails.append({'clause': 'iteration', 'site': kind, 'who': who, 'what': 'consumption-' + form, 'detail': detail})

    def keys(xs):
        return [item_key(x) for x in xs]

    def check(form, f, want):
        c, got = attempt(f)
        if c != 0:
            fail(form, '%s raised %r' % (form, got))
        elif got != want:
            fail(form, '%s gave %d entries / other items than positions 0..%d in order (expected %d entries)'
                 % (form, len(got), n - 1, len(want)))
    check('list', lambda: keys(mk_iter()), ref)
    check('list-again', lambda: keys(mk_iter()), ref)
    check('zip-self', lambda: [(item_key(a), item_key(b)) for a, b in zip(mk_iter(), mk_iter())], [(r, r) for r in ref])
    check('nested-loops', lambda: [(item_key(a), item_key(b)) for a in mk_iter() for b in mk_iter()],
          [(a, b) for a in ref for b in ref])

    def alternating():
        a, b = iter(mk_iter()), iter(mk_iter())
        out_a, out_b = [], []
        done_a = done_b = False
        while not (done_a and done_b):
            if not done_a:
                try:
                    out_a.append(item_key(next(a)))
                except StopIteration:
                    done_a = True
            if not done_b:
                try:
                    out_b.append(item_key(next(b)))
                except StopIteration:
                    done_b = True
            if len(out_a) > n + 2 or len(out_b) > n + 2:
                break
        return [out_a, out_b]
    check('two-iterators-alternating', alternating, [ref, ref])

    def restarted():
        a = iter(mk_iter())
        head = [item_key(next(a)) for _ in range((n + 1) // 2)]
        middle = keys(mk_iter())                       # a full iteration started mid-way
        tail = keys(a)
        return [head + tail, middle]
    check('partial-then-restart', restarted, [ref, ref])
    check('enumerate', lambda: [(i, item_key(x)) for i, x in enumerate(mk_iter())], list(enumerate(ref)))

    def indexing_inside():
        out = []
        for j, x in enumerate(mk_iter()):
            out.append(item_key(x))
            if n:
                P[(j + 1) % n]
                P[0]
                len(P)
            if len(out) > n + 2:
                break
        return out
    check('indexing-while-iterating', indexing_inside, ref)
    c, rv = attempt(lambda: keys(reversed(P)))
    if c == 0 and rv != ref[::-1]:         # reversibility itself is not demanded, only its result
        fail('reversed', 'reversed() gave %d entries / not the items len-1..0' % len(rv))
    return fails


def views_mismatch(P, kind, it, sel):
    """first field of the item that differs from the array views AS THEY ARE NOW (None: all agree)"""
    vix = P.vertex_index[sel]
    if not same(it.indices, vix):
        return 'indices'
    if not same(it.vertices, P.vertex[vix]):
        return 'vertices'
    if P.normal is not None and not same(it.normals, P.normal[P.normal_index[sel]]):
        return 'normals'
    if len(it.texcoords) != len(P.texcoordset):
        return 'texcoord-sets'
    for j, (d, ixs) in enumerate(zip(P.texcoordset, P.texcoord_indexset)):
        if not same(it.texcoords[j], d[ixs[sel]]):
            return 'texcoords'
    return None


def live_passes(P, kind, case, who, mk_iter, mutators):
    """One pass per mutator: the arrays are changed through the public interface BETWEEN two items of the
    same pass; every item is compared with the views at the moment it is handed out."""
    fails = []
    k = B.KK[kind]
    vcounts = None
    if k == 1:
        eff = B.effective_inputs(case)
        nind = max(off for off, _, _ in eff) + 1
        _, vcounts = B.stream_of(case, nind)
    for name, mutate in mutators:
        n = len(P)
        if n < 2 or P.vertex_index is None:
            return fails

        def go():
            bad = None
            count = 0
            for i, it in enumerate(mk_iter()):
                if i >= n:
                    return 'too-many-items'
                sel = slice(sum(vcounts[:i]), sum(vcounts[:i]) + vcounts[i]) if k == 1 else i
                if bad is None:
                    bad = views_mismatch(P, kind, it, sel)
                    if bad is not None:
                        bad = '%s-of-item-%d' % (bad, i)
                if i == 0:
                    mutate(P)
                count += 1
            return bad if bad is not None or count == n else 'count-%d-of-%d' % (count, n)
        c, res = attempt(go)
        if c != 0:
            fails.append({'clause': 'item-fields', 'site': kind, 'who': who, 'what': 'live-%s-raises-%s' % (name, type(res).__name__),
                          'detail': 'a pass with %s between two items raised %r' % (name, res)})
        elif res is not None:
            fails.append({'clause': 'item-fields', 'site': kind, 'who': who, 'what': 'live-%s' % name,
                          'detail': 'with %s between item 0 and item 1 of one pass: %s differs from the views at hand-out' % (name, res)})
    return fails


def precision_probe(case, M, matmap):
    """The same primitive over double-precision sources whose values single precision cannot represent,
    bound with a double-precision matrix of non-representable entries: items must carry exactly what the
    views give (direct oracle only; API path)."""
    import numpy
    if case['via'] != 'create':
        return []
    c2 = dict(case, dforms={str(i): 'f64x' for i in range(len(case['srcs']))}, prelude=None, saves=0)
    p2, exc = B.construct(c2)
    if exc is not None:
        return []
    kind = case['kind']
    k = B.KK[kind]
    if k == 1:
        eff = B.effective_inputs(case)
        nind = max(off for off, _, _ in eff) + 1
        want_len = len(B.stream_of(case, nind)[1])
    else:
        want_len = len(p2.index)
    fails = []
    c, v = attempt(lambda: list(p2))
    fails += clauses(p2, kind, False, case, c, v, want_len, who='unbound-float64')
    M2 = numpy.array(M, dtype=numpy.float64)
    M2[:3, :] = M2[:3, :] / 3.0 + 0.1
    b2 = p2.bind(M2, matmap)
    c, v = attempt(lambda: list(b2.shapes()))
    fails += clauses(b2, kind, True, case, c, v, want_len, who='bound-float64')
    c, v = attempt(lambda: list(b2))
    fails += clauses(b2, kind, True, case, c, v, want_len, who='bound-float64-legacy')
    return fails


def run_case(case):
    import numpy
    kind = case['kind']
    p, exc = B.construct(case)
    if exc is not None:
        return {'code': B.exc_code(exc), 'u': None, 'b': None, 'fails': [], 'exc': repr(exc)[:200]}
    symbols = {'mat%d' % i: i for i in range(0, 10)}
    k = B.KK[kind]
    if k == 1:
        eff = B.effective_inputs(case)
        nind = max(off for off, _, _ in eff) + 1
        want_len = len(B.stream_of(case, nind)[1])
    else:
        want_len = len(p.index)
    fails = []
    # ---- unbound
    ulen = len(p)
    code, val = attempt(lambda: list(p))
    uiter = [code, [obs_item(it, p, kind, False, symbols) for it in val] if code == 0 else []]
    fails += clauses(p, kind, False, case, code, val, want_len)
    gets = []
    for i in range(ulen + 1):
        c, it = attempt(lambda: p[i])
        gets.append([c, obs_item(it, p, kind, False, symbols) if c == 0 else None])
    def zgets(P, bound):
        # negative and out-of-range positions: Python's index normalisation
        n = len(P)
        out = []
        for z in sorted({-1, -2, -n, -n - 1, -(n // 2) - 1, n, n + 2}):
            c, it = attempt(lambda: P[z])
            out.append([z, [c, obs_item(it, P, kind, bound, symbols) if c == 0 else None]])
        return out
    uz = zgets(p, False)
    # ---- bound, through Geometry.bind / BoundGeometry.primitives()
    from collada import scene
    M = numpy.identity(4)
    M[:3, :] = numpy.array(case['matrix'], dtype=float)
    import xml.etree.ElementTree as ET
    mi = case.get('matinputs') or {}
    matmap = {'mat%d' % s: scene.MaterialNode('mat%d' % s, Target(t), [tuple(e) for e in mi.get(str(s), [])],
                                              xmlnode=ET.Element('instance_material'))
              for s, t in case['matmap']}
    from collada import geometry, source
    import collada
    dummy = source.FloatSource('dummy', numpy.zeros(3, dtype=numpy.float32), ('X', 'Y', 'Z'))
    g = geometry.Geometry(collada.Collada(), 'gb', 'gb', [dummy], [p])
    # bound the way a scene does it: GeometryNode with its MaterialNodes -> BoundGeometry -> primitives()
    gnode = scene.GeometryNode(g, list(matmap.values()))
    b = list(list(gnode.objects('geometry', M))[0].primitives())[0]
    blen = len(b)
    code, val = attempt(lambda: list(b.shapes()))
    bshapes = [code, [obs_item(it, b, kind, True, symbols) for it in val] if code == 0 else []]
    fails += clauses(b, kind, True, case, code, val, want_len)
    bz = zgets(b, True)
    code2, val2 = attempt(lambda: list(b))
    blegacy = [code2, [obs_item(it, b, kind, True, symbols) for it in val2] if code2 == 0 else []]
    if code2 != 0 or len(val2) != blen:
        fails.append({'clause': 'iteration', 'site': kind, 'who': 'bound-legacy',
                      'what': ('no-corners-raises-TypeError' if isinstance(val2, TypeError) and b.vertex_index is None
                               and blen > 0 and k == 1 else 'raises-%s' % type(val2).__name__) if code2 else 'count-differs',
                      'detail': 'list(bound) gave %r, len() = %d' % (val2 if code2 else len(val2), blen)})
    # ---- histories (direct oracle only): the clauses must keep holding after other public calls
    def recheck(P, bound, who, how=None):
        c, v = attempt(how or ((lambda: list(P.shapes())) if bound else (lambda: list(P))))
        return clauses(P, kind, bound, case, c, v, want_len, who=who)
    fails += recheck(p, False, 'unbound-second-iteration')
    # every way of consuming an iteration, on the unbound and the bound primitive
    fails += consumption_forms(p, kind, 'unbound', lambda: iter(p))
    fails += consumption_forms(b, kind, 'bound-shapes', lambda: b.shapes())
    fails += consumption_forms(b, kind, 'bound-legacy', lambda: iter(b))
    meth = {'tri': 'triangles', 'line': 'lines', 'polylist': 'polygons', 'polygons': 'polygons'}[kind]
    fails += recheck(b, True, 'bound-' + meth, how=lambda: list(getattr(b, meth)()))
    # a geometry holding two primitives: BoundGeometry.primitives() binds each one, in order
    il0 = source.InputList()
    il0.addInput(0, 'VERTEX', '#dummy')
    g2 = geometry.Geometry(collada.Collada(), 'g2', 'g2', [dummy], [])
    first = g2.createTriangleSet(numpy.array([0, 0, 0], dtype=numpy.int32), il0, 'mat1')
    g2.primitives.extend([first, p])
    bg = g2.bind(M, matmap)
    c, bl = attempt(lambda: list(bg.primitives()))
    if c != 0 or len(bl) != 2 or len(bg) != 2 or bl[0].original is not first or bl[1].original is not p:
        fails.append({'clause': 'len', 'site': kind, 'who': 'bound-geometry', 'what': 'primitives-differ',
                      'detail': 'BoundGeometry.primitives() of a two-primitive geometry gave %r' % (bl,)})
    else:
        fails += recheck(bl[1], True, 'bound-second-of-two')
        if len(bl[0]) != 1 or len(list(bl[0].shapes())) != 1:
            fails.append({'clause': 'len', 'site': 'tri', 'who': 'bound-first-of-two', 'what': 'len-differs',
                          'detail': 'the one-triangle set bound next to the case has %d items' % len(bl[0])})
    if k == 1:
        attempt(lambda: p.triangleset())               # its result is C11's subject
        fails += recheck(p, False, 'unbound-after-triangleset')
    if kind == 'tri' and ulen > 0:
        if attempt(b.generateNormals)[0] == 0:
            fails += recheck(b, True, 'bound-after-generateNormals')
        if attempt(p.generateNormals)[0] == 0:
            fails += recheck(p, False, 'unbound-after-generateNormals')
            fails += recheck(p.bind(M, matmap), True, 'bound-of-generated')
        if attempt(p.generateTexTangentsAndBinormals)[0] == 0:
            fails += recheck(p, False, 'unbound-after-generateTexTangentsAndBinormals')
            fails += recheck(p.bind(M, matmap), True, 'bound-of-generated-tangents')
    fails += precision_probe(case, M, matmap)

    # changes made through the public interface BETWEEN two items of one pass
    def bump(P):
        P.vertex[:, 0] += 2
        if P.normal is not None and P.normal is not P.vertex:
            P.normal[:, 2] += 5
        for t in P.texcoordset:
            t[:, 1] -= 1
    muts = [('inplace-data-edit', bump)]
    if kind == 'tri':
        muts.append(('generateNormals', lambda P: P.generateNormals()))
    meth2 = {'tri': 'triangles', 'line': 'lines', 'polylist': 'polygons', 'polygons': 'polygons'}[kind]
    b3 = p.bind(M, matmap)
    fails += live_passes(b3, kind, case, 'bound-shapes', lambda: b3.shapes(), muts)
    b4 = p.bind(M, matmap)
    fails += live_passes(b4, kind, case, 'bound-' + meth2, lambda: getattr(b4, meth2)(), muts)
    b5 = p.bind(M, matmap)
    fails += live_passes(b5, kind, case, 'bound-legacy', lambda: iter(b5), muts)
    fails += live_passes(p, kind, case, 'unbound', lambda: iter(p), muts)

    # in-place edits of the arrays behind the views (the supported way of moving points or re-indexing
    # before saving): items must carry what the views give NOW.  Last, because it changes the data.
    if ulen > 0 and p.vertex_index is not None:
        def edit(P):
            P.vertex[:, 0] += 10
            if P.normal is not None and P.normal is not P.vertex:
                P.normal[:, 1] -= 3
            for t in P.texcoordset:
                t[:, 0] += 1
        if attempt(lambda: edit(b))[0] == 0:
            fails += recheck(b, True, 'bound-after-inplace-data-edit')
        if attempt(lambda: edit(p))[0] == 0:
            fails += recheck(p, False, 'unbound-after-inplace-data-edit')
            fails += recheck(p.bind(M, matmap), True, 'bound-of-edited')

        def reindex():
            flat = p.index.reshape(-1, p.index.shape[-1])
            flat[:] = flat[::-1].copy()          # reverse the corner rows: every index stays in range
        if attempt(reindex)[0] == 0:
            fails += recheck(p, False, 'unbound-after-inplace-index-edit')
            fails += recheck(p.bind(M, matmap), True, 'bound-of-reindexed')
    return {'code': 0, 'u': [ulen, uiter, gets, uz], 'b': [blen, bshapes, blegacy, bz], 'fails': fails}


def main():
    payload = json.load(sys.stdin)
    out = []
    for case in payload['cases']:
        try:
            out.append(run_case(case))
        except BaseException as e:  # noqa  (the oracle itself tripped over what the implementation returned)
            import traceback
            out.append({'code': 98, 'u': None, 'b': None,
                        'fails': [{'clause': 'oracle-exception', 'site': case.get('kind'), 'who': 'worker',
                                   'what': type(e).__name__, 'detail': traceback.format_exc()[-600:]}]})
    json.dump(out, sys.stdout)


if __name__ == '__main__':
    main()
