"""Implementation worker shared by C02 and C06.

A case is {'base': {...}, 'ops': [...]}: a base document (built through the public constructors
from a seed, or loaded from collada/tests/data) and a history of edit operations with saves
interleaved.  The worker applies the history, writes the document to a BytesIO, and reports

  * `fails`: the property's clauses evaluated directly on the implementation
      C06: an independent reader (xml.etree only) applied to the bytes vs the in-memory model,
           and "the managed libraries contain nothing the model does not account for";
      C02: the document reloaded with pycollada vs the edited model (survivor / missing /
           duplicate / order / attribute / rename / matrix clauses separately);
  * `sites`: for every save and every reconciliation site the child identities before the save,
      the objects' node identities (model order) and the child identities after (for Check/C02.v);
  * `skel_model` / `skel_file`: the label tree the model implies and the one read from the bytes;
  * `content` + `xml`: the model's content in the document's own formats and the written text
      (constructed documents only) for the in-Coq comparison of Check/C06.v.
"""
import io
import json
import math
import os
import random
import sys
import traceback
import xml.etree.ElementTree as ET

NS = 'http://www.collada.org/2005/11/COLLADASchema'
LIBS = [('geometries', 'library_geometries', 'geometry'), ('controllers', 'library_controllers', 'controller'),
        ('lights', 'library_lights', 'light'), ('cameras', 'library_cameras', 'camera'),
        ('images', 'library_images', 'image'), ('effects', 'library_effects', 'effect'),
        ('materials', 'library_materials', 'material'), ('nodes', 'library_nodes', 'node'),
        ('scenes', 'library_visual_scenes', 'visual_scene')]
DATA = None


def data_dir():
    import collada
    return os.path.join(os.path.dirname(collada.__file__), 'tests', 'data')


def q(r, lo=-48, hi=48):
    """a dyadic value with few digits (exact in float32 and in every format used)"""
    return r.randint(lo, hi) / 16.0


LONG = [1.000005, 10.00007, 1234.567, 100000.5, 0.001234567, 1.234567e-05, 123456.7, 1.500001, 2.000003, 33333.35]


def qlong(r):
    """mostly short dyadic values, sometimes one that needs all seven significant digits"""
    if r.random() < 0.15:
        return r.choice(LONG) * r.choice([1, -1])
    return q(r)


# =============================================================================== construction

class St(object):
    def __init__(self):
        self.n = 0

    def fresh(self, prefix):
        self.n += 1
        return '%s%d' % (prefix, self.n)


def new_source(st, r, comps, nrows, prefix='src'):
    import numpy
    from collada import source
    vals = [qlong(r) for _ in range(nrows * len(comps))]
    return source.FloatSource(st.fresh(prefix), numpy.array(vals, dtype=numpy.float32), comps)


def float_sources(g, ncomp):
    from collada import source
    seen, out = set(), []
    for s in g.sourceById.values():
        if isinstance(s, source.FloatSource) and id(s) not in seen and len(s.components) == ncomp and len(s.data) > 0:
            seen.add(id(s))
            out.append(s)
    return out


def vertex_source(g, s3):
    """the source the geometry's <vertices> stands for: the VERTEX source of an existing primitive,
    else the POSITION entry of a loaded <vertices>, else the first source (the constructor's choice)"""
    for p in g.primitives:
        v = p.sources.get('VERTEX')
        if v:
            return v[0][4]
    for x in g.sourceById.values():
        if isinstance(x, dict) and 'POSITION' in x:
            return x['POSITION']
    first = getattr(g, '_verif_first', None)
    if first is not None and any(first is x for x in g.sourceById.values()):
        return first
    return s3[0]


def vlevel_extras(g):
    """sources named by non-POSITION inputs of a loaded <vertices> that are still in sourceById"""
    from collada import source
    alive = [x for x in g.sourceById.values() if isinstance(x, source.Source)]
    out = []
    for x in g.sourceById.values():
        if isinstance(x, dict):
            for sem, src_ in x.items():
                if sem != 'POSITION' and src_ is not None and any(src_ is a for a in alive) and not any(src_ is o for o in out):
                    out.append(src_)
    return out


def new_primitive(g, r, kind=None, vsrc=None):
    """a primitive over the geometry's current sources (None when it has no 3-component source)"""
    import numpy
    from collada import source
    s3 = float_sources(g, 3)
    s2 = float_sources(g, 2)
    if not s3:
        return None
    if vlevel_extras(g):
        # a primitive created through the API names its inputs itself; next to a <vertices> that still
        # carries normals / texcoords it would inherit those as well (a limitation of the model, see
        # notes/C02.md): such a geometry gets new primitives only after those sources are removed
        return None
    kind = kind or r.choice(['triangles', 'polylist', 'polygons', 'lines'])
    il = source.InputList()
    other = r.choice(s3)
    if vsrc is None:
        # mostly the source <vertices> stands for; sometimes the positions of this primitive come
        # from another source of the mesh
        vsrc = other if r.random() < 0.2 else vertex_source(g, s3)
    shared = r.random() < 0.35
    off = 0
    ins = [(0, vsrc)]
    il.addInput(0, 'VERTEX', '#' + vsrc.id)
    if r.random() < 0.6:
        nsrc = vsrc if r.random() < 0.3 else r.choice(s3)      # normals may reuse the position source
        off = off if shared else off + 1
        il.addInput(off, 'NORMAL', '#' + nsrc.id)
        ins.append((off, nsrc))
    ntex = r.choice([0, 0, 1, 2]) if s2 else 0
    for k in range(ntex):
        tsrc = r.choice(s2)
        off = off if shared else off + 1
        il.addInput(off, 'TEXCOORD', '#' + tsrc.id, str(k) if r.random() < 0.8 else None)
        ins.append((off, tsrc))
    nind = off + 1
    limit = {}
    for o, s in ins:
        limit[o] = min(limit.get(o, 10 ** 9), len(s.data))

    if any(v <= 0 for v in limit.values()):
        return None         # an empty source (empty_triangles.dae) cannot be indexed

    def row():
        return [r.randrange(limit[o]) for o in range(nind)]
    mat = r.choice([None, 'sym0', 'sym1', 'sym2'])
    if kind == 'triangles':
        nt = r.choice([0, 1, 2, 3])
        idx = [x for _ in range(nt * 3) for x in row()]
        return g.createTriangleSet(numpy.array(idx, dtype=numpy.int32), il, mat)
    if kind == 'lines':
        nl = r.choice([0, 1, 2])
        idx = [x for _ in range(nl * 2) for x in row()]
        return g.createLineSet(numpy.array(idx, dtype=numpy.int32), il, mat)
    vc = [r.choice([3, 3, 4, 5]) for _ in range(r.choice([1, 2, 3]))]
    if kind == 'polylist':
        idx = [x for _ in range(sum(vc)) for x in row()]
        return g.createPolylist(numpy.array(idx, dtype=numpy.int32), numpy.array(vc, dtype=numpy.int32), il, mat)
    polys = [numpy.array([x for _ in range(n) for x in row()], dtype=numpy.int32) for n in vc]
    return g.createPolygons(polys, il, mat)


def new_geometry(doc, st, r):
    from collada import geometry
    srcs = [new_source(st, r, ('X', 'Y', 'Z'), r.randint(3, 5), 'pos')]
    if r.random() < 0.7:
        srcs.append(new_source(st, r, ('X', 'Y', 'Z'), r.randint(2, 4), 'nrm'))
    if r.random() < 0.6:
        srcs.append(new_source(st, r, ('S', 'T'), r.randint(2, 4), 'uv'))
    g = geometry.Geometry(doc, st.fresh('geom'), r.choice(['', 'gname', 'G2']), srcs,
                          double_sided=r.random() < 0.2)
    g._verif_first = srcs[0]
    for _ in range(r.choice([0, 1, 1, 2, 3])):
        p = new_primitive(g, r)
        if p is not None:
            g.primitives.append(p)
    return g


PLONG = [0.3048006, 0.02540005, 1.000005, 12.34567, 0.1234567, 45.00001, 1234.567]


def pval(r, lo, hi):
    """a parameter value: mostly short, sometimes one that needs seven significant digits, sometimes a
    zero (falsy but not None: 0.0 or the int 0), sometimes given as a numpy scalar (picked out of an array)"""
    k = r.random()
    if k < 0.2:
        v = r.choice(PLONG)
    elif k < 0.35:
        return r.choice([0.0, 0, 0.0])
    else:
        v = q(r, lo, hi)
    return npform(r, v)


def npform(r, v):
    """the same number in another Python form: float, or a numpy scalar taken from an array"""
    import numpy
    k = r.random()
    if k < 0.75:
        return v
    if k < 0.87:
        return numpy.array([v], dtype=numpy.float64)[0]
    if k < 0.95:
        return numpy.array([v], dtype=numpy.float32)[0]
    return numpy.array([int(v)], dtype=numpy.int32)[0] if float(v) == int(v) else numpy.array([v], dtype=numpy.float64)[0]


def color(r, n=None):
    n = n or r.choice([3, 4])
    return tuple(r.choice([0, 1, 0.5, 0.25, 0.125, 1.0, 0.0, 0.1234567, 0.3333333]) for _ in range(n))


def new_light(st, r, kind=None):
    from collada import light
    kind = kind or r.choice(['directional', 'ambient', 'point', 'spot'])
    i = st.fresh('light')
    o = lambda: r.choice([None, pval(r, 0, 64)])
    if kind == 'directional':
        return light.DirectionalLight(i, color(r))
    if kind == 'ambient':
        return light.AmbientLight(i, color(r))
    if kind == 'point':
        return light.PointLight(i, color(r), o(), o(), o(), o())
    return light.SpotLight(i, color(r), o(), o(), o(), o(), o())


def camera_params(r, persp):
    a, b = ('xfov', 'yfov') if persp else ('xmag', 'ymag')
    v = lambda: pval(r, 1, 640)
    combo = r.choice([(a,), (b,), (a, b), (a, 'aspect_ratio'), (b, 'aspect_ratio')])
    d = {a: None, b: None, 'aspect_ratio': None}
    for k in combo:
        d[k] = v()
    return d


def new_camera(st, r):
    from collada import camera
    persp = r.random() < 0.5
    d = camera_params(r, persp)
    cls = camera.PerspectiveCamera if persp else camera.OrthographicCamera
    return cls(st.fresh('cam'), q(r, 1, 16), q(r, 100, 1600), **d)


def new_effect(doc, st, r):
    from collada import material
    params = []
    kw = {}
    if doc.images and r.random() < 0.5:
        img = r.choice(list(doc.images))
        sf = material.Surface(st.fresh('surf'), img, r.choice([None, 'A8R8G8B8']))
        sm = material.Sampler2D(st.fresh('samp'), sf, r.choice([None, 'LINEAR']), r.choice([None, 'NEAREST']))
        params = [sf, sm]
        kw[r.choice(['diffuse', 'emission', 'ambient', 'specular', 'transparent', 'reflective', 'shininess'])] = \
            material.Map(sm, r.choice(['UV', 'TEX0']))
    for prop in ('diffuse', 'specular', 'emission', 'ambient', 'reflective', 'transparent'):
        if prop not in kw and r.random() < 0.5:
            kw[prop] = color(r, 4)
    for prop in ('shininess', 'reflectivity', 'transparency', 'index_of_refraction'):
        if r.random() < 0.4:
            kw[prop] = float(pval(r, 0, 160))      # documented type: a Python float
    if r.random() < 0.3:
        kw['opaque_mode'] = material.OPAQUE_MODE.RGB_ZERO
    if params and r.random() < 0.6:
        kw['bumpmap'] = material.Map(params[1], r.choice(['UV', 'BUMPUV']))
    return material.Effect(st.fresh('effect'), params, r.choice(['phong', 'lambert', 'blinn', 'constant']),
                           double_sided=r.random() < 0.3, **kw)


def new_material(doc, st, r):
    from collada import material
    if not doc.effects:
        doc.effects.append(new_effect(doc, st, r))
    return material.Material(st.fresh('mat'), r.choice(['mname', 'M', st.fresh('n')]), r.choice(list(doc.effects)))


def new_image(st, r):
    from collada import material
    return material.CImage(st.fresh('img'), r.choice(['a.png', './tex/b.jpg', 'c.tga']))


def new_transform(r, kind=None):
    import numpy
    from collada import scene
    kind = kind or r.choice(['translate', 'rotate', 'scale', 'matrix', 'lookat'])
    if kind == 'translate':
        return scene.TranslateTransform(pval(r, -48, 48), npform(r, q(r)), pval(r, -48, 48))
    if kind == 'rotate':
        ax = r.choice([(1.0, 0.0, 0.0), (0.0, 1.0, 0.0), (0.0, 0.0, 1.0)])
        if r.random() < 0.25:
            # axis and angle picked out of one array
            aa = numpy.array(list(ax) + [float(r.choice([0, 30, 45, 90, 180, -90, 22.5]))], dtype=r.choice([numpy.float32, numpy.float64]))
            return scene.RotateTransform(aa[0], aa[1], aa[2], aa[3])
        return scene.RotateTransform(ax[0], ax[1], ax[2], npform(r, float(r.choice([0, 30, 45, 90, 180, -90, 22.5]))))
    if kind == 'scale':
        return scene.ScaleTransform(npform(r, q(r, 1, 64)), npform(r, q(r, 1, 64)), npform(r, q(r, 1, 64)))
    if kind == 'matrix':
        m = [q(r) for _ in range(12)] + [0.0, 0.0, 0.0, 1.0]
        return scene.MatrixTransform(numpy.array(m, dtype=numpy.float32))
    eye = numpy.array([q(r), q(r), 5.0 + q(r, 0, 32)])
    return scene.LookAtTransform(eye, numpy.array([0.0, 0.0, 0.0]), numpy.array([0.0, 1.0, 0.0]))


def new_matnode(doc, st, r):
    from collada import scene
    if not doc.materials:
        doc.materials.append(new_material(doc, st, r))
    ins = [(r.choice(['TEX0', 'UV', 'CH1']), 'TEXCOORD', str(k)) for k in range(r.choice([0, 0, 1, 2]))]
    return scene.MaterialNode(r.choice(['sym0', 'sym1', 'sym2']), r.choice(list(doc.materials)), ins)


def new_instance(doc, st, r, what, allow_nodeinst=True):
    from collada import scene
    if what == 'geom' and doc.geometries:
        mats = [new_matnode(doc, st, r) for _ in range(r.choice([0, 1, 1, 2, 3]))]
        return scene.GeometryNode(r.choice(list(doc.geometries)), mats)
    if what == 'light' and doc.lights:
        return scene.LightNode(r.choice(list(doc.lights)))
    if what == 'camera' and doc.cameras:
        return scene.CameraNode(r.choice(list(doc.cameras)))
    if what == 'nodeinst' and allow_nodeinst:
        # a library node, or a top-level node of some visual scene (kept only where it is legal:
        # see repair_instances)
        cands = [t for t in list(doc.nodes) + [t for sc in doc.scenes for t in sc.nodes if is_plain_node(t)] if t.id]
        if cands:
            return scene.NodeNode(r.choice(cands))
    return None


def new_node(doc, st, r, depth=0, allow_nodeinst=True):
    from collada import scene
    ts = [new_transform(r) for _ in range(r.choice([0, 1, 2, 3]))]
    cs = []
    for _ in range(r.choice([0, 1, 2, 3]) if depth < 2 else 0):
        what = r.choice(['node', 'geom', 'light', 'camera', 'nodeinst', 'geom'])
        c = new_instance(doc, st, r, what, allow_nodeinst) if what != 'node' else None
        if c is None:
            c = new_node(doc, st, r, depth + 1, allow_nodeinst)
        cs.append(c)
    i = st.fresh('node')
    return scene.Node(i, children=cs, transforms=ts, name=r.choice([None, 'nm_' + i, 'shared']))


def new_scene(doc, st, r):
    from collada import scene
    return scene.Scene(st.fresh('scene'), [new_node(doc, st, r) for _ in range(r.choice([0, 1, 2, 3]))])


def exh_members(doc, st, site, n, offset=0):
    """n fresh members for the collection of an exhaustive single-save case"""
    import numpy
    from collada import scene, light, material, source
    out = []
    for i in range(n):
        k = i + offset
        if site in ('scene', 'node_ch'):
            out.append(scene.Node(st.fresh('x')))
        elif site == 'node_tr':
            out.append(scene.TranslateTransform(float(k + 1), 0.0, 0.5 * k) if k % 2 == 0 else scene.ScaleTransform(1.0 + k, 2.0, 1.0))
        elif site == 'bind':
            out.append(scene.MaterialNode('sym%d' % k, doc.materials[0], []))
        elif site == 'bvi':
            out.append(('CH%d' % k, 'TEXCOORD', str(k)))
        elif site == 'prims':
            g = doc.geometries[0]
            il = source.InputList()
            il.addInput(0, 'VERTEX', '#exhpos')
            if k % 2 == 0:
                out.append(g.createTriangleSet(numpy.array([0, 1, 2], dtype=numpy.int32), il, 'm%d' % k))
            else:
                out.append(g.createLineSet(numpy.array([0, 1], dtype=numpy.int32), il, 'm%d' % k))
        elif site == 'params':
            out.append(material.Surface(st.fresh('surf'), doc.images[0]))
        else:
            out.append(light.AmbientLight(st.fresh('x'), (1, 1, 1)))
    return out


def exh_collection(doc, site):
    if site == 'scene':
        return doc.scenes[0].nodes
    if site == 'node_tr':
        return doc.scenes[0].nodes[0].transforms
    if site == 'node_ch':
        return doc.scenes[0].nodes[0].children
    if site == 'bind':
        return doc.scenes[0].nodes[0].children[0].materials
    if site == 'bvi':
        return doc.scenes[0].nodes[0].children[0].materials[0].inputs
    if site == 'prims':
        return doc.geometries[0].primitives
    if site == 'params':
        return doc.effects[0].params
    return doc.lights


def exh_prepare(doc, st, site):
    """what the collection of the site needs around it"""
    import numpy
    from collada import scene, material, source, geometry
    root = doc.scenes[0].nodes[0] if doc.scenes[0].nodes else None
    if site in ('bind', 'bvi', 'prims'):
        src = source.FloatSource('exhpos', numpy.array([0, 0, 0, 1, 0, 0, 0, 1, 0], dtype=numpy.float32), ('X', 'Y', 'Z'))
        doc.geometries.append(geometry.Geometry(doc, 'exhgeom', 'exhgeom', [src]))
    if site in ('bind', 'bvi'):
        eff = material.Effect('exheffect', [], 'phong')
        doc.effects.append(eff)
        doc.materials.append(material.Material('exhmat', 'exhmat', eff))
        mats = [scene.MaterialNode('symroot', doc.materials[0], [])] if site == 'bvi' else []
        root.children.append(scene.GeometryNode(doc.geometries[0], mats))
    if site == 'params':
        doc.images.append(material.CImage('exhimg', 'a.png'))
        doc.effects.append(material.Effect('exheffect', [], 'phong'))


def relocate_optional(root, r):
    """optional content moved to every other place the loader accepts it (all of them valid COLLADA):
    the <extra> holding the bump <texture> under <technique>, <profile_COMMON> or <effect>; <newparam>
    elements in the profile or inside <technique>; the double_sided <extra> of an effect under the
    profile, the technique or the effect; that of a geometry under <geometry> or inside <mesh>"""
    def parent_of(top, node):
        for p_ in top.iter():
            if node in list(p_):
                return p_
        return None
    for eff in root.iter(T('effect')):
        prof = eff.find(T('profile_COMMON'))
        tec = prof.find(T('technique')) if prof is not None else None
        if tec is None:
            continue
        places = {'technique': tec, 'profile': prof, 'effect': eff}
        for marker in ('texture', 'double_sided'):
            for ex in [x for x in eff.iter(T('extra')) if x.find('.//' + T(marker)) is not None][:1]:
                where = r.choice(['technique', 'profile', 'effect', 'stay'])
                if where == 'stay':
                    continue
                par = parent_of(eff, ex)
                if par is None or par is places[where]:
                    continue
                par.remove(ex)
                places[where].append(ex)         # <extra> comes last in all three
        # some parameters live inside <technique> (in front of the shader)
        nps = prof.findall(T('newparam'))
        if nps and r.random() < 0.4:
            cut = r.randint(0, len(nps) - 1)
            for i, np_ in enumerate(nps[cut:]):
                prof.remove(np_)
                tec.insert(i, np_)
    # images declared locally, one after the other, at the front of an effect's profile (valid COLLADA;
    # the loader adds them to the document's images)
    libimg = root.find(T('library_images'))
    profiles = [e.find(T('profile_COMMON')) for e in root.iter(T('effect'))]
    profiles = [p_ for p_ in profiles if p_ is not None]
    if libimg is not None and profiles and r.random() < 0.6:
        imgs = list(libimg)
        r.shuffle(imgs)
        used = {}
        for p_ in profiles:
            used[id(p_)] = set((x.text or '').strip() for x in p_.iter(T('init_from')))
        for prof in r.sample(profiles, min(len(profiles), r.choice([1, 1, 2]))):
            # an image local to one effect is not visible to the others
            free = [im for im in imgs if not any(im.get('id') in used[id(o)] for o in profiles if o is not prof)]
            take = free[:r.choice([1, 2, 2, 3])]
            imgs = [im for im in imgs if im not in take]
            for i, im in enumerate(take):
                libimg.remove(im)
                prof.insert(i, im)
        if len(libimg) == 0:
            root.remove(libimg)
    for geom in root.iter(T('geometry')):
        mesh = geom.find(T('mesh'))
        for ex in [x for x in geom.findall(T('extra')) if x.find('.//' + T('double_sided')) is not None]:
            if mesh is not None and r.random() < 0.5:
                geom.remove(ex)
                mesh.append(ex)


def split_libraries(data, r):
    """the same document with the members of every managed library spread over TWO library
    elements of that kind (legal COLLADA; the loader reads all of them)"""
    root = ET.fromstring(data)
    ET.register_namespace('', NS)
    relocate_optional(root, r)
    for _, libname, _ in LIBS:
        lib = root.find(T(libname))
        if lib is None or len(lib) < 2 or r.random() < 0.15:
            continue
        kids = list(lib)
        how = r.choice(['cut', 'cut', 'alternate', 'first-only-one'])
        if how == 'cut':
            c = r.randint(1, len(kids) - 1)
            second = kids[c:]
        elif how == 'alternate':
            second = kids[1::2]
        else:
            second = kids[1:]
        lib2 = ET.Element(T(libname))
        for k in second:
            lib.remove(k)
            lib2.append(k)
        pos = list(root).index(lib) + 1
        if r.random() < 0.5:
            # somewhere later among the root children, but before <scene>
            sc = root.find(T('scene'))
            last = list(root).index(sc) if sc is not None else len(root)
            pos = r.randint(pos, max(pos, last))
        root.insert(pos, lib2)
    return ET.tostring(root)


def build_base(base, st):
    import collada
    if base['kind'] == 'file':
        return collada.Collada(os.path.join(data_dir(), base['name']))
    if base['kind'] == 'xmldoc':
        # an independently generated document (string templates, harness/gen/xmldocs.py): vertices-level
        # inputs, strips and fans, forward instance_node references, odd number formats ...
        from harness.gen import xmldocs
        data, _ = xmldocs.gen_document(random.Random(base['seed']), base.get('size', 1), controllers=False,
                                       animations=base.get('animations', False), prefixed=False)
        return collada.Collada(io.BytesIO(data))
    if base['kind'] == 'exh':
        from collada import scene
        doc = collada.Collada()
        site = base['site']
        root = scene.Node('root')
        sc = scene.Scene('s', [root] if site != 'scene' else [])
        doc.scenes.append(sc)
        doc.scene = sc
        exh_prepare(doc, st, site)
        old = exh_members(doc, st, site, base['old'])
        doc._verif_old = old
        coll = exh_collection(doc, site)
        coll.extend(old)
        return doc
    r = random.Random(base['seed'])
    doc = collada.Collada()
    size = base.get('size', 2)
    for _ in range(r.randint(0, size)):
        doc.images.append(new_image(st, r))
    for _ in range(r.randint(0, size)):
        doc.effects.append(new_effect(doc, st, r))
    for _ in range(r.randint(0, size)):
        doc.materials.append(new_material(doc, st, r))
    for _ in range(r.randint(1, size)):
        doc.geometries.append(new_geometry(doc, st, r))
    for _ in range(r.randint(0, size + 1)):
        doc.lights.append(new_light(st, r))
    for _ in range(r.randint(0, size + 1)):
        doc.cameras.append(new_camera(st, r))
    for _ in range(r.randint(0, size)):
        doc.nodes.append(new_node(doc, st, r, depth=1))
    for _ in range(r.randint(1, 2)):
        doc.scenes.append(new_scene(doc, st, r))
    if r.random() < 0.85:
        doc.scene = r.choice(list(doc.scenes))
    if r.random() < 0.5:
        from collada import asset
        doc.assetInfo.title = 'T' + st.fresh('t')
        for k in range(r.choice([1, 2, 3, 4])):
            doc.assetInfo.contributors.append(asset.Contributor(author='me%d' % k, authoring_tool='tool'))
    repair_instances(doc)
    if base.get('split') is not None:
        # written, its libraries split in two, and LOADED again: a loaded document with two
        # library elements of one kind
        buf = io.BytesIO()
        doc.write(buf)
        doc = collada.Collada(io.BytesIO(split_libraries(buf.getvalue(), random.Random(base['split']))))
    return doc


# =============================================================================== walking the model

def is_plain_node(n):
    from collada import scene
    return type(n) is scene.Node


def all_nodes(doc):
    out, seen = [], set()

    def rec(n):
        if not is_plain_node(n) or id(n) in seen:
            return
        seen.add(id(n))
        out.append(n)
        for c in n.children:
            rec(c)
    for n in doc.nodes:
        rec(n)
    for s in doc.scenes:
        for n in s.nodes:
            rec(n)
    return out


def children_of_type(doc, cls):
    out = []
    for n in all_nodes(doc):
        for c in n.children:
            if type(c) is cls:
                out.append((n, c))
    return out


def descendants(n):
    out = [n]
    if is_plain_node(n):
        for c in n.children:
            out.extend(descendants(c))
    return out


def reaches(start, goal):
    """does the subtree of `start` (following instance_node) contain `goal`?"""
    from collada import scene
    seen, stack = set(), [start]
    while stack:
        n = stack.pop()
        if n is goal:
            return True
        if id(n) in seen:
            continue
        seen.add(id(n))
        if type(n) is scene.NodeNode:
            stack.append(n.node)
        elif is_plain_node(n):
            stack.extend(n.children)
    return False


def repair_instances(doc):
    """an edited document stays self-consistent: an instance_node names a library node or a top-level
    node of the visual scene it is in, and never (indirectly) the node that contains it"""
    from collada import scene
    libnodes = list(doc.nodes)

    def fix(n, top, allowed):
        if not is_plain_node(n):
            return
        keep = []
        for c in n.children:
            if type(c) is scene.NodeNode:
                ok = any(c.node is x for x in allowed) and not reaches(c.node, top)
                if not ok:
                    continue
            keep.append(c)
        if len(keep) != len(n.children):
            n.children[:] = keep
        for c in n.children:
            fix(c, top, allowed)
    for ln in libnodes:
        fix(ln, ln, libnodes)
    for sc in doc.scenes:
        tops = [t for t in sc.nodes if is_plain_node(t)]
        for t in tops:
            fix(t, t, libnodes + tops)


def cascade_remove(doc, lib, obj):
    """remove what refers to `obj` so that the edited document stays self-consistent"""
    from collada import scene
    if lib in ('geometries', 'lights', 'cameras', 'nodes'):
        cls, attr = {'geometries': (scene.GeometryNode, 'geometry'), 'lights': (scene.LightNode, 'light'),
                     'cameras': (scene.CameraNode, 'camera'), 'nodes': (scene.NodeNode, 'node')}[lib]
        for n in all_nodes(doc):
            n.children[:] = [c for c in n.children if not (type(c) is cls and getattr(c, attr) is obj)]
    elif lib == 'materials':
        for _, gn in children_of_type(doc, scene.GeometryNode):
            gn.materials[:] = [m for m in gn.materials if m.target is not obj]
    elif lib == 'effects':
        for m in [m for m in doc.materials if m.effect is obj]:
            cascade_remove(doc, 'materials', m)
            doc.materials.remove(m)
    elif lib == 'scenes':
        if doc.scene is obj:
            rest = [s for s in doc.scenes if s is not obj]
            doc.scene = rest[0] if rest else None


def image_referenced(doc, img):
    from collada import material
    for e in doc.effects:
        for p in e.params:
            if isinstance(p, material.Surface) and p.image is img:
                return True
    return False


def new_lib_object(doc, st, r, lib):
    if lib == 'geometries':
        return new_geometry(doc, st, r)
    if lib == 'lights':
        return new_light(st, r)
    if lib == 'cameras':
        return new_camera(st, r)
    if lib == 'effects':
        return new_effect(doc, st, r)
    if lib == 'materials':
        return new_material(doc, st, r)
    if lib == 'nodes':
        return new_node(doc, st, r, depth=1)
    if lib == 'scenes':
        return new_scene(doc, st, r)
    if lib == 'images':
        return new_image(st, r)
    raise ValueError(lib)


def retarget(doc, lib, old, new):
    from collada import scene, material
    if lib in ('geometries', 'lights', 'cameras', 'nodes'):
        cls, attr = {'geometries': (scene.GeometryNode, 'geometry'), 'lights': (scene.LightNode, 'light'),
                     'cameras': (scene.CameraNode, 'camera'), 'nodes': (scene.NodeNode, 'node')}[lib]
        for _, c in children_of_type(doc, cls):
            if getattr(c, attr) is old:
                setattr(c, attr, new)
    elif lib == 'materials':
        for _, gn in children_of_type(doc, scene.GeometryNode):
            for m in gn.materials:
                if m.target is old:
                    m.target = new
    elif lib == 'effects':
        for m in doc.materials:
            if m.effect is old:
                m.effect = new
    elif lib == 'images':
        for e in doc.effects:
            for p in e.params:
                if isinstance(p, material.Surface) and p.image is old:
                    p.image = new
    elif lib == 'scenes':
        if doc.scene is old:
            doc.scene = new


def list_edit(lst, op, r, make):
    """generic edit of an ordered collection; `make()` creates a fresh member (or None)"""
    k = op['how']
    n = len(lst)
    if k == 'add':
        o = make()
        if o is not None:
            lst.insert(op['pos'] % (n + 1), o)
    elif k == 'remove':
        if n:
            p = op['pos'] % n
            del lst[p:p + op.get('n', 1)]
    elif k == 'replace':
        if n:
            o = make()
            if o is not None:
                lst[op['pos'] % n] = o
    elif k == 'permute':
        items = list(lst)
        r.shuffle(items)
        lst[:] = items
    elif k == 'reverse':
        lst.reverse()
    elif k == 'clear':
        del lst[:]
    elif k == 'fill':
        for _ in range(op.get('n', 2)):
            o = make()
            if o is not None:
                lst.insert(r.randint(0, len(lst)), o)
    elif k == 'move':
        if n:
            o = lst.pop(op['pos'] % n)
            lst.insert(op['pos2'] % n, o)


def apply_op(doc, st, op, out):
    import numpy
    from collada import scene, source, asset, material
    r = random.Random(op.get('r', 0))
    t = op['op']
    if t == 'save':
        before = capture_children(doc)
        doc.save()
        out['sites'].extend(site_observations(doc, before))
        return
    if t == 'write':
        before = capture_children(doc)
        doc.write(io.BytesIO())
        out['sites'].extend(site_observations(doc, before))
        return
    if t == 'exh_set':
        # the collection becomes an arbitrary arrangement of old members and fresh ones
        site = op['site']
        fresh = exh_members(doc, st, site, 2, offset=10)
        new = [doc._verif_old[x] if isinstance(x, int) else fresh[int(x[1:])] for x in op['new']]
        coll = exh_collection(doc, site)
        coll[:] = new
        return
    if t == 'lib':
        lib = op['lib']
        lst = getattr(doc, lib)
        n = len(lst)
        how = op['how']
        if how == 'add':
            lst.insert(op['pos'] % (n + 1), new_lib_object(doc, st, r, lib))
        elif how == 'fill':
            for _ in range(op.get('n', 2)):
                lst.insert(r.randint(0, len(lst)), new_lib_object(doc, st, r, lib))
        elif how == 'remove' and n:
            p = op['pos'] % n
            victims = list(lst)[p:p + op.get('n', 1)]
            for v in victims:
                if lib == 'images' and image_referenced(doc, v):
                    continue
                if lib == 'geometries' and len(doc.geometries) == 1 and False:
                    continue
                cascade_remove(doc, lib, v)
                if v in lst:
                    lst.remove(v)
        elif how == 'replace' and n:
            old = lst[op['pos'] % n]
            new = new_lib_object(doc, st, r, lib)
            lst[op['pos'] % n] = new
            retarget(doc, lib, old, new)
        elif how == 'replace_sameid' and n:
            # a different object that carries the id of the one it replaces
            old = lst[op['pos'] % n]
            new = new_lib_object(doc, st, r, lib)
            new.id = old.id
            lst[op['pos'] % n] = new
            retarget(doc, lib, old, new)
        elif how == 'permute':
            items = list(lst)
            r.shuffle(items)
            setattr(doc, lib, items)
        elif how == 'reverse':
            lst.reverse()
        elif how == 'clear':
            for v in list(lst):
                if lib == 'images' and image_referenced(doc, v):
                    continue
                cascade_remove(doc, lib, v)
                if v in lst:
                    lst.remove(v)
        elif how == 'move' and n:
            o = lst.pop(op['pos'] % n)
            lst.insert(op['pos2'] % n, o)
        elif how == 'rename' and n:
            lst[op['pos'] % n].id = st.fresh('renamed')
        return
    if t == 'geom':
        if not doc.geometries:
            return
        if op.get('all'):
            # the same edit on every geometry of the document
            for i in range(len(doc.geometries)):
                apply_op(doc, st, dict(op, gi=i, all=False, r=op.get('r', 0) + i), out)
            return
        g = doc.geometries[op['gi'] % len(doc.geometries)]
        how = op['how']
        if how == 'src_add':
            s = new_source(st, r, r.choice([('X', 'Y', 'Z'), ('S', 'T')]), r.randint(2, 4), 'added')
            if op.get('front'):
                d = {s.id: s}
                d.update(g.sourceById)
                g.sourceById = d
            else:
                g.sourceById[s.id] = s
        elif how == 'src_remove':
            used = set()
            for p in g.primitives:
                for lst in p.sources.values():
                    for inp in lst:
                        used.add(id(inp[4]))
            v = g.xmlnode.find('{%s}mesh/{%s}vertices/{%s}input' % (NS, NS, NS))
            cand = [s for s in g.sourceById.values() if isinstance(s, source.Source) and id(s) not in used
                    and (v is None or v.get('source') != '#' + s.id)]
            if cand:
                s = cand[op['pos'] % len(cand)]
                for k in [k for k, x in g.sourceById.items() if x is s]:
                    del g.sourceById[k]
        elif how == 'src_data':
            srcs = [s for s in g.sourceById.values() if isinstance(s, source.FloatSource)]
            if srcs:
                s = srcs[op['pos'] % len(srcs)]
                extra_rows = r.choice([0, 0, 1, 3])
                ncomp = len(s.components)
                s.data = numpy.array([qlong(r) for _ in range(s.data.size + extra_rows * ncomp)],
                                     dtype=numpy.float32).reshape((-1, ncomp))
        elif how == 'src_inplace':
            # the SAME array object is edited in place (element / slice assignment, *=, +=)
            srcs = [x for x in g.sourceById.values() if isinstance(x, source.FloatSource) and x.data.size > 0]
            seen_, uniq = set(), []
            for x in srcs:
                if id(x) not in seen_:
                    seen_.add(id(x))
                    uniq.append(x)
            if uniq:
                x = uniq[op['pos'] % len(uniq)]
                d = x.data
                mode = op.get('mode', 'elem')
                if mode == 'elem':
                    for _ in range(op.get('n', 1)):
                        d[r.randrange(d.shape[0]), r.randrange(d.shape[1])] = qlong(r)
                elif mode == 'slice':
                    i = r.randrange(d.shape[0])
                    d[i:i + 2] = numpy.array([[qlong(r) for _ in range(d.shape[1])]], dtype=numpy.float32)
                elif mode == 'mul':
                    d *= r.choice([2.0, 0.5, -1.0, 4.0])
                elif mode == 'nudge':
                    # a few parts per million: above the seven digits that are written, far below
                    # what a loose comparison would call a change
                    k_ = r.random()
                    f_ = numpy.float32(r.choice([0.999995, 1.000004, 0.999997]))
                    if k_ < 0.4:
                        d *= f_
                    elif k_ < 0.7:
                        x.data = (d * f_).astype(numpy.float32)        # a new array of the same size
                    else:
                        i_, j_ = r.randrange(d.shape[0]), r.randrange(d.shape[1])
                        d[i_, j_] = d[i_, j_] * f_ if d[i_, j_] != 0 else numpy.float32(4e-9)
                else:
                    d += r.choice([0.5, -0.25, 1.0, 8.0])
        elif how == 'prim_convert':
            # a polygon primitive is replaced by what the library's own conversion gives
            cands = [i for i, p_ in enumerate(g.primitives) if type(p_).__name__ in ('Polylist', 'Polygons')]
            if cands:
                i = cands[op['pos'] % len(cands)]
                try:
                    ts = g.primitives[i].triangleset()
                except Exception:  # noqa  (the conversion itself is C11's business)
                    ts = None
                if ts is not None:
                    g.primitives[i] = ts
        elif how == 'revertex':
            # every primitive is replaced by primitives over a new position source: Geometry.save
            # has to re-point <vertices>
            s = new_source(st, r, ('X', 'Y', 'Z'), r.randint(3, 5), 'newpos')
            g.sourceById[s.id] = s
            if op.get('some') and g.primitives:
                # only some primitives move to the new position source
                for i in range(len(g.primitives)):
                    if i == op['pos'] % len(g.primitives) or r.random() < 0.3:
                        p_ = new_primitive(g, r, op.get('kind'), vsrc=s)
                        if p_ is not None:
                            g.primitives[i] = p_
            else:
                g.primitives[:] = []
                for _ in range(r.choice([1, 2])):
                    p_ = new_primitive(g, r, op.get('kind'), vsrc=s)
                    if p_ is not None:
                        g.primitives.append(p_)
        elif how == 'src_remove_many':
            # several sources go at once (a run of neighbours in sourceById order, never the source
            # <vertices> stands for); the primitives that used one of them are replaced by
            # primitives over what is left
            keep = vertex_source(g, float_sources(g, 3) or [None])
            order, seen = [], set()
            vpos = None
            for inp_ in g.xmlnode.findall('{%s}mesh/{%s}vertices/{%s}input' % (NS, NS, NS)):
                if inp_.get('semantic') == 'POSITION':
                    vpos = inp_.get('source')
            for x in g.sourceById.values():
                if isinstance(x, source.Source) and id(x) not in seen and x is not keep and '#' + x.id != vpos:
                    seen.add(id(x))
                    order.append(x)
            if order and keep is not None:
                start = op['pos'] % len(order)
                victims = order[start:start + max(2, op.get('n', 2))]
                for x in vlevel_extras(g):
                    # the sources named inside <vertices> go together (its stale inputs are neighbours)
                    if not any(x is v for v in victims) and x is not keep and '#' + x.id != vpos:
                        victims.append(x)
                vids = set(id(v) for v in victims)
                for k in [k for k, x in g.sourceById.items() if id(x) in vids]:
                    del g.sourceById[k]
                for i, p in enumerate(list(g.primitives)):
                    if any(id(inp[4]) in vids for lst in p.sources.values() for inp in lst):
                        g.primitives[i] = None
                g.primitives[:] = [p for p in g.primitives if p is not None]
                for _ in range(r.choice([0, 1, 1, 2])):
                    p_ = new_primitive(g, r, op.get('kind'), vsrc=keep)
                    if p_ is not None:
                        g.primitives.insert(r.randint(0, len(g.primitives)), p_)
        elif how == 'attr':
            g.name = r.choice(['', 'renamedgeom', 'G3', g.name])
            g.double_sided = not g.double_sided
        else:
            list_edit(g.primitives, dict(op, how=how[5:]), r, lambda: new_primitive(g, r, op.get('kind')))
        return
    if t == 'node':
        nodes = all_nodes(doc)
        if not nodes:
            return
        n = nodes[op['ni'] % len(nodes)]
        how = op['how']
        if how.startswith('tr_'):
            list_edit(n.transforms, dict(op, how=how[3:]), r, lambda: new_transform(r, op.get('kind')))
        elif how == 'ch_moveto':
            if n.children:
                c = n.children[op['pos'] % len(n.children)]
                from collada import scene as _sc
                lib_members = [d for ln in doc.nodes for d in descendants(ln)]
                has_nodeinst = any(type(d) is _sc.NodeNode for d in descendants(c))
                # an instance_node may not end up inside library_nodes (forward or cyclic references
                # are the loader's business, not save's)
                targets = [m for m in nodes if m is not n and not any(m is d for d in descendants(c))]
                if targets:
                    m = targets[op['pos2'] % len(targets)]
                    n.children.remove(c)
                    m.children.insert(op['pos3'] % (len(m.children) + 1), c)
        elif how.startswith('ch_'):
            in_library = any(n is d for ln in doc.nodes for d in descendants(ln))

            def make():
                what = op.get('what', 'node')
                c = new_instance(doc, st, r, what) if what != 'node' else None
                return c if c is not None else new_node(doc, st, r, depth=2)
            list_edit(n.children, dict(op, how=how[3:]), r, make)
        elif how == 'attr':
            n.id = st.fresh('renamednode')
            n.name = r.choice(['newname', n.id, 'shared'])
        return
    if t == 'scene':
        if not doc.scenes:
            return
        s = doc.scenes[op['si'] % len(doc.scenes)]
        how = op['how']
        if how == 'default':
            doc.scene = None if op.get('none') else s
        else:
            list_edit(s.nodes, dict(op, how=how[3:]), r, lambda: new_node(doc, st, r, depth=1))
        return
    if t == 'bind':
        gns = [c for _, c in children_of_type(doc, scene.GeometryNode)]
        if not gns:
            return
        gn = gns[op['gi'] % len(gns)]
        how = op['how']
        if how == 'retarget':
            gn.geometry = doc.geometries[op['pos'] % len(doc.geometries)]
        elif how.startswith('bm_'):
            list_edit(gn.materials, dict(op, how=how[3:]), r, lambda: new_matnode(doc, st, r))
        elif gn.materials:
            mn = gn.materials[op['pos'] % len(gn.materials)]
            if how == 'symbol':
                mn.symbol = r.choice(['sym0', 'sym1', 'sym2', 'symX'])
            elif how == 'target':
                mn.target = doc.materials[op['pos2'] % len(doc.materials)]
            elif how.startswith('bvi_'):
                list_edit(mn.inputs, dict(op, how=how[4:]), r,
                          lambda: (r.choice(['TEX0', 'UV', 'CH1', 'CH2']), 'TEXCOORD',
                                   None if r.random() < 0.35 else str(r.randint(0, 3))))
        return
    if t == 'failsave':
        # a save()/write() that fails validation (caught by the user), then the cause is repaired: the
        # document must go on being saved
        from collada import camera
        from collada.common import DaeError
        how = op['how']
        if how == 'camera' and doc.cameras:
            c = doc.cameras[op['pos'] % len(doc.cameras)]
            for a_ in ('xfov', 'yfov', 'xmag', 'ymag', 'aspect_ratio'):
                if hasattr(c, a_):
                    setattr(c, a_, None)
            try:
                doc.write(io.BytesIO()) if op.get('write') else doc.save()
            except DaeError:
                pass
            for k_, v_ in camera_params(r, isinstance(c, camera.PerspectiveCamera)).items():
                setattr(c, k_, v_)
        else:
            old_ = doc.scene
            doc.scene = scene.Scene(st.fresh('stray'), [])
            try:
                doc.write(io.BytesIO()) if op.get('write') else doc.save()
            except DaeError:
                pass
            doc.scene = old_
        return
    if t == 'ref':
        # references in both document orders, and renames of what is referred to
        how = op['how']
        if how in ('add_forward', 'add_backward'):
            groups = [list(doc.nodes)] + [[t_ for t_ in sc.nodes if is_plain_node(t_)] for sc in doc.scenes]
            groups = [g_ for g_ in groups if len([t_ for t_ in g_ if t_.id]) >= 2]
            if groups:
                grp = groups[op['pos'] % len(groups)]
                i = op['pos2'] % (len(grp) - 1)
                j = i + 1 + op['pos3'] % (len(grp) - 1 - i)
                a, b = (grp[i], grp[j]) if how == 'add_forward' else (grp[j], grp[i])   # a refers to b
                if b.id and is_plain_node(a) and not reaches(b, a):
                    holder = r.choice([d for d in descendants(a) if is_plain_node(d)])
                    holder.children.insert(r.randint(0, len(holder.children)), scene.NodeNode(b))
        elif how == 'rename_target':
            insts = [c for _, c in children_of_type(doc, scene.NodeNode)]
            others = []
            for cls, attr in ((scene.GeometryNode, 'geometry'), (scene.LightNode, 'light'), (scene.CameraNode, 'camera')):
                others += [getattr(c, attr) for _, c in children_of_type(doc, cls)]
            targets = [c.node for c in insts] if (insts and op.get('n', 1) != 3) else others
            if op.get('all'):
                seen_ = set()
                for t_ in targets:
                    if id(t_) not in seen_:
                        seen_.add(id(t_))
                        t_.id = st.fresh('reftarget')
            elif targets:
                targets[op['pos'] % len(targets)].id = st.fresh('reftarget')
        return
    if t == 'eparams':
        if not doc.effects:
            return
        e = doc.effects[op['pos'] % len(doc.effects)]
        if op['how'] == 'clear':
            for prop in e.supported:
                if isinstance(getattr(e, prop), material.Map):
                    setattr(e, prop, (0.5, 0.5, 0.5, 1.0) if prop not in ('shininess', 'reflectivity', 'transparency') else 0.5)
            e.bumpmap = None
            del e.params[:]
        else:
            if not doc.images:
                doc.images.append(new_image(st, r))
            for _ in range(op.get('n', 2)):
                sf = material.Surface(st.fresh('surf'), r.choice(list(doc.images)), r.choice([None, 'A8R8G8B8']))
                sm = material.Sampler2D(st.fresh('samp'), sf, r.choice([None, 'LINEAR']), r.choice([None, 'NEAREST']))
                at = r.randint(0, len(e.params))
                e.params[at:at] = [sf, sm]
            if r.random() < 0.6:
                sm = [p for p in e.params if isinstance(p, material.Sampler2D)][-1]
                e.diffuse = material.Map(sm, 'UV')
        return
    if t == 'attr':
        what = op['what']
        if what == 'light' and doc.lights:
            from collada import light
            l = doc.lights[op['pos'] % len(doc.lights)]
            l.color = color(r)
            o = lambda: r.choice([None, pval(r, 0, 64)])
            if isinstance(l, (light.PointLight, light.SpotLight)):
                l.constant_att, l.linear_att, l.quad_att = o(), o(), o()
            if isinstance(l, light.PointLight):
                l.zfar = o()
            if isinstance(l, light.SpotLight):
                l.falloff_ang, l.falloff_exp = o(), o()
        elif what == 'camera' and doc.cameras:
            from collada import camera
            c = doc.cameras[op['pos'] % len(doc.cameras)]
            d = camera_params(r, isinstance(c, camera.PerspectiveCamera))
            for k, v in d.items():
                setattr(c, k, v)
            c.znear, c.zfar = q(r, 1, 16), q(r, 100, 1600)
        elif what == 'material' and doc.materials:
            m = doc.materials[op['pos'] % len(doc.materials)]
            m.name = r.choice(['matname2', 'M', 'other'])
            if doc.effects and r.random() < 0.5:
                m.effect = r.choice(list(doc.effects))
        elif what == 'effect' and doc.effects:
            e = doc.effects[op['pos'] % len(doc.effects)]
            for prop in ('diffuse', 'specular', 'ambient'):
                if not isinstance(getattr(e, prop), material.Map) and r.random() < 0.6:
                    setattr(e, prop, color(r, 4))
            if r.random() < 0.5 and not isinstance(e.shininess, material.Map):
                e.shininess = float(pval(r, 0, 160))
            if r.random() < 0.3:
                e.shadingtype = r.choice(['phong', 'lambert', 'blinn', 'constant'])
            e.double_sided = not e.double_sided
            if r.random() < 0.5:
                # the other opaque mode (RGB_ZERO carries an attribute that has to come and go)
                e.opaque_mode = (material.OPAQUE_MODE.A_ONE if e.opaque_mode == material.OPAQUE_MODE.RGB_ZERO
                                 else material.OPAQUE_MODE.RGB_ZERO)
            k = r.random()
            if k < 0.25 and doc.images:
                # a new surface/sampler pair, at the end or in front of the existing parameters
                sf = material.Surface(st.fresh('surf'), r.choice(list(doc.images)), r.choice([None, 'A8R8G8B8']))
                sm = material.Sampler2D(st.fresh('samp'), sf, r.choice([None, 'LINEAR']), None)
                if r.random() < 0.5:
                    e.params.extend([sf, sm])
                else:
                    e.params[0:0] = [sf, sm]
            elif k < 0.45:
                used = [getattr(e, p).sampler for p in e.supported if isinstance(getattr(e, p), material.Map)]
                for p in [p for p in e.params if isinstance(p, material.Sampler2D) and not any(p is u for u in used)][:2]:
                    e.params.remove(p)
                    if not any(isinstance(x, material.Sampler2D) and x.surface is p.surface for x in e.params):
                        if p.surface in e.params:
                            e.params.remove(p.surface)
            for p in e.params:
                if isinstance(p, material.Surface) and r.random() < 0.2:
                    p.id = st.fresh('surfrenamed')
            if r.random() < 0.35 and doc.images:
                # parameter objects replaced by NEW Surface / Sampler2D objects with the same sid and
                # other content (who referred to the old object refers to the new one)
                for i_, p in enumerate(list(e.params)):
                    if isinstance(p, material.Surface) and r.random() < 0.7:
                        np_ = material.Surface(p.id, r.choice(list(doc.images)), r.choice(['A8R8G8B8', 'R8G8B8', 'R5G6B5']))
                        e.params[i_] = np_
                        for q_ in e.params:
                            if isinstance(q_, material.Sampler2D) and q_.surface is p:
                                q_.surface = np_
                    elif isinstance(p, material.Sampler2D) and r.random() < 0.7:
                        np_ = material.Sampler2D(p.id, p.surface, r.choice([None, 'LINEAR', 'NEAREST']), r.choice([None, 'LINEAR', 'NEAREST']))
                        e.params[i_] = np_
                        for prop in e.supported:
                            v = getattr(e, prop)
                            if isinstance(v, material.Map) and v.sampler is p:
                                v.sampler = np_
                        if e.bumpmap is not None and e.bumpmap.sampler is p:
                            e.bumpmap.sampler = np_
            samplers = [p for p in e.params if isinstance(p, material.Sampler2D)]
            k = r.random()
            if e.bumpmap is not None and (k < 0.3 or not any(e.bumpmap.sampler is x for x in samplers)):
                e.bumpmap = None
            elif e.bumpmap is not None and k < 0.6:
                e.bumpmap.texcoord = r.choice(['UV', 'BUMP2'])
            elif e.bumpmap is None and samplers and k < 0.4:
                e.bumpmap = material.Map(r.choice(samplers), 'BUMPUV')
            for p in e.params:
                if isinstance(p, material.Sampler2D) and r.random() < 0.5:
                    p.minfilter = r.choice([None, 'LINEAR', 'NEAREST'])
                    p.magfilter = r.choice([None, 'LINEAR'])
                if isinstance(p, material.Sampler2D) and r.random() < 0.3:
                    p.id = st.fresh('samprenamed')
                if isinstance(p, material.Surface) and r.random() < 0.3:
                    p.format = r.choice(['A8R8G8B8', 'R8G8B8'])
            for prop in e.supported:
                v = getattr(e, prop)
                if isinstance(v, material.Map) and r.random() < 0.5:
                    v.texcoord = r.choice(['UV', 'TEX0', 'TEX1'])
        elif what == 'unset':
            # removal edits: every optional value of one object of each kind goes away
            from collada import light
            everything = bool(op.get('all'))
            for e in (list(doc.effects) if everything else list(doc.effects)[op['pos'] % max(1, len(doc.effects)):][:1]):
                e.bumpmap = None
                e.double_sided = False
                e.opaque_mode = material.OPAQUE_MODE.A_ONE
                for p in e.params:
                    if isinstance(p, material.Sampler2D):
                        p.minfilter = p.magfilter = None
            for g_ in (list(doc.geometries) if everything else list(doc.geometries)[op['pos2'] % max(1, len(doc.geometries)):][:1]):
                g_.double_sided = False
            for l in (list(doc.lights) if everything else list(doc.lights)[op['pos3'] % max(1, len(doc.lights)):][:1]):
                for a_ in ('constant_att', 'linear_att', 'quad_att', 'zfar', 'falloff_ang', 'falloff_exp'):
                    if hasattr(l, a_):
                        setattr(l, a_, None)
            mns = [m_ for _, gn_ in children_of_type(doc, scene.GeometryNode) for m_ in gn_.materials]
            for m_ in (mns if everything else mns[op['pos'] % max(1, len(mns)):][:1]):
                # the optional input_set of every binding goes away (the number of bindings stays)
                m_.inputs[:] = [(i_[0], i_[1], None) for i_ in m_.inputs]
            a = doc.assetInfo
            a.title = a.subject = a.keywords = a.revision = None
            for c in a.contributors:
                c.author = c.authoring_tool = c.comments = c.copyright = c.source_data = None
        elif what == 'image' and doc.images:
            doc.images[op['pos'] % len(doc.images)].path = r.choice(['x.png', './y/z.jpg'])
        elif what == 'asset':
            a = doc.assetInfo
            a.title = r.choice([None, 'title one', 'T2'])
            a.subject = r.choice([None, 'subj'])
            a.keywords = r.choice([None, 'k1 k2'])
            a.revision = r.choice([None, '1.0'])
            a.upaxis = r.choice([asset.UP_AXIS.X_UP, asset.UP_AXIS.Y_UP, asset.UP_AXIS.Z_UP])
            if r.random() < 0.5:
                a.unitname, a.unitmeter = r.choice([('meter', 1.0), ('inch', 0.0254), ('centimeter', 0.01),
                                                    ('survey_foot', 0.3048006), ('survey_inch', 0.02540005)])
            k = r.random()
            if k < 0.3:
                a.contributors.insert(r.randint(0, len(a.contributors)),
                                      asset.Contributor(author=r.choice(['a1', 'a2']), comments=r.choice([None, 'c'])))
            elif k < 0.55 and a.contributors:
                at = r.randrange(len(a.contributors))
                del a.contributors[at:at + r.choice([1, 2, 2, 3])]
            elif a.contributors:
                c = a.contributors[r.randrange(len(a.contributors))]
                c.author = r.choice([None, 'edited author'])
                c.copyright = r.choice([None, 'cc'])
        return
    raise ValueError('unknown op %r' % (op,))


# =============================================================================== reconciliation sites

_KEEP = []      # keeps every element ever seen alive so that id() stays unique
_TAGS = {}      # id(element) -> tag


def capture_children(doc):
    """id(element) -> [id(child)...] for every element reachable from the tree or from an object"""
    seen = {}

    def walk(e):
        if e is None or id(e) in seen:
            return
        _KEEP.append(e)
        kids = list(e)
        seen[id(e)] = [id(c) for c in kids]
        _TAGS[id(e)] = e.tag
        for c in kids:
            walk(c)
    walk(doc.xmlnode.getroot())
    for attr, _, _ in LIBS:
        for o in getattr(doc, attr):
            walk(getattr(o, 'xmlnode', None))
    for e in doc.effects:
        for p in e.params:
            walk(p.xmlnode)
    for n in all_nodes(doc):
        walk(n.xmlnode)
        for t in n.transforms:
            walk(t.xmlnode)
        for c in n.children:
            walk(getattr(c, 'xmlnode', None))
            for m in getattr(c, 'materials', None) or []:
                walk(m.xmlnode)
    for g in doc.geometries:
        for s in g.sourceById.values():
            walk(getattr(s, 'xmlnode', None))
        for p in g.primitives:
            walk(p.xmlnode)
    return seen


def sync_sites(doc):
    """(kind, parent element, wanted child elements in model order) for every reconciliation"""
    from collada import scene, source
    t = lambda s: '{%s}%s' % (NS, s)
    root = doc.xmlnode.getroot()
    out = []
    for attr, libname, _ in LIBS:
        libnode = root.find(t(libname))
        objs = list(getattr(doc, attr))
        if libnode is not None:
            out.append(('library', libnode, [o.xmlnode for o in objs]))
    for s in doc.scenes:
        out.append(('scene', s.xmlnode, [n.xmlnode for n in s.nodes]))
    for n in all_nodes(doc):
        out.append(('node', n.xmlnode, [x.xmlnode for x in n.transforms] + [c.xmlnode for c in n.children]))
        for c in n.children:
            if type(c) is scene.GeometryNode and c.materials:
                mp = c.xmlnode.find('%s/%s' % (t('bind_material'), t('technique_common')))
                if mp is not None:
                    out.append(('bind_material', mp, [m.xmlnode for m in c.materials]))
    for g in doc.geometries:
        mesh = g.xmlnode.find(t('mesh'))
        if mesh is None:
            continue
        srcs = []
        for s in g.sourceById.values():
            if isinstance(s, source.Source) and not any(s.xmlnode is x for x in srcs):
                srcs.append(s.xmlnode)
        v = mesh.find(t('vertices'))
        out.append(('mesh', mesh, srcs + ([v] if v is not None else []) + [p.xmlnode for p in g.primitives]
                    + mesh.findall(t('extra'))))
    for e in doc.effects:
        prof = e.xmlnode.find(t('profile_COMMON'))
        tec = prof.find(t('technique')) if prof is not None else None
        if tec is not None:
            out.append(('profile', prof, [p.xmlnode for p in e.params], tec))
    return out


def site_observations(doc, before):
    ids = {}

    def u(x):
        if x not in ids:
            ids[x] = len(ids) + 1
        return ids[x]
    obs = []
    for site in sync_sites(doc):
        kind, parent, want = site[0], site[1], site[2]
        _KEEP.append(parent)
        _KEEP.extend(want)
        old = before.get(id(parent), [])
        o = [kind, [u(x) for x in old], [u(id(x)) for x in want], [u(id(x)) for x in parent]]
        if kind == 'profile':
            # which identities are <newparam> elements, and the identity of <technique>
            # (<image> elements local to the profile are taken out as well: they are written in library_images)
            o.append([u(x) for x in old if _TAGS.get(x) in (T('newparam'), T('image'))] + [u(id(x)) for x in want])
            o.append(u(id(site[3])))
        obs.append(o)
    return obs


# =============================================================================== snapshots

def fl(x):
    return None if x is None else float(x)


def snap_value(v):
    from collada import material
    if v is None:
        return None
    if isinstance(v, material.Map):
        return {'map': [v.sampler.id, v.texcoord]}
    if isinstance(v, (tuple, list)):
        return pad_color([float(x) for x in v])
    return float(v)


def pad_color(v):
    """the constructor's documented normalisation of a colour: missing components are 0, alpha 1"""
    v = list(v)
    while len(v) < 3:
        v.append(0.0)
    while len(v) < 4:
        v.append(1.0)
    return v


def snap_inputs(p):
    out = []
    for lst in p.sources.values():
        for inp in lst:
            out.append([int(inp[0]), inp[1], inp[2][1:], None if inp[3] is None else str(inp[3])])
    return sorted(out, key=lambda x: (x[0], x[1], x[2], str(x[3])))


def prim_kind(p):
    return {'TriangleSet': 'triangles', 'LineSet': 'lines', 'Polylist': 'polylist', 'Polygons': 'polygons'}[type(p).__name__]


def snap_prim(p):
    import numpy
    idx = [] if p.index is None else numpy.asarray(p.index).flatten().tolist()
    d = {'kind': prim_kind(p), 'material': p.material, 'inputs': snap_inputs(p), 'index': [int(x) for x in idx]}
    d['label'] = '%s:%s:%d' % (d['kind'], d['material'], len(d['index']))
    if d['kind'] in ('polylist', 'polygons'):
        d['vcounts'] = [int(x) for x in p.vcounts]
    return d


def snap_geometry(g):
    from collada import source
    srcs, seen = [], set()
    for s in g.sourceById.values():
        if isinstance(s, source.Source) and id(s) not in seen:
            seen.add(id(s))
            d = {'id': s.id, 'components': list(s.components)}
            if isinstance(s, source.FloatSource):
                d['data'] = [float(x) for x in s.data.flatten().tolist()]
            srcs.append(d)
    return {'id': g.id, 'name': g.name or '', 'double_sided': bool(g.double_sided), 'sources': srcs,
            'primitives': [snap_prim(p) for p in g.primitives]}


def snap_light(l):
    k = type(l).__name__
    d = {'id': l.id, 'kind': k, 'color': [float(x) for x in l.color]}
    for a in ('constant_att', 'linear_att', 'quad_att', 'zfar', 'falloff_ang', 'falloff_exp'):
        if hasattr(l, a):
            d[a] = fl(getattr(l, a))
    return d


def snap_camera(c):
    d = {'id': c.id, 'kind': type(c).__name__}
    for a in ('xfov', 'yfov', 'xmag', 'ymag', 'aspect_ratio', 'znear', 'zfar'):
        if hasattr(c, a):
            d[a] = fl(getattr(c, a))
    return d


def snap_effect(e):
    from collada import material
    # the opaque mode is an attribute of <transparent>: without that property there is nothing to carry it
    d = {'id': e.id, 'shadingtype': e.shadingtype, 'double_sided': bool(e.double_sided),
         'opaque_mode': e.opaque_mode if e.transparent is not None else 'A_ONE',
         'props': {p: snap_value(getattr(e, p)) for p in e.supported}, 'params': [],
         'bumpmap': snap_value(e.bumpmap)}
    for p in e.params:
        if isinstance(p, material.Surface):
            d['params'].append(['surface', p.id, p.image.id, p.format])
        elif isinstance(p, material.Sampler2D):
            d['params'].append(['sampler2D', p.id, p.surface.id, p.minfilter, p.magfilter])
    return d


def snap_transform(t):
    import numpy
    k = type(t).__name__
    if k == 'TranslateTransform' or k == 'ScaleTransform':
        v = [t.x, t.y, t.z]
    elif k == 'RotateTransform':
        v = [t.x, t.y, t.z, t.angle]
    elif k == 'MatrixTransform':
        v = numpy.asarray(t.matrix).flatten().tolist()
    else:
        v = list(t.eye) + list(t.interest) + list(t.upvector)
    return {'kind': k.replace('Transform', '').lower(), 'values': [float(x) for x in v]}


def snap_child(c):
    from collada import scene
    k = type(c)
    if k is scene.Node:
        return snap_node(c)
    if k is scene.NodeNode:
        return {'label': 'instance_node#%s' % c.node.id, 'inst': 'node', 'target': c.node.id}
    if k is scene.GeometryNode or k is scene.ControllerNode:
        tgt = c.geometry.id if k is scene.GeometryNode else c.controller.id
        return {'label': 'instance_%s#%s' % ('geometry' if k is scene.GeometryNode else 'controller', tgt),
                'inst': 'geometry' if k is scene.GeometryNode else 'controller', 'target': tgt,
                'materials': [{'label': 'instance_material#%s>%s' % (m.symbol, m.target.id), 'symbol': m.symbol,
                               'target': m.target.id,
                               'inputs': [[i[0], i[1], None if i[2] is None else str(i[2])] for i in m.inputs]}
                              for m in (c.materials or [])]}
    if k is scene.LightNode:
        return {'label': 'instance_light#%s' % c.light.id, 'inst': 'light', 'target': c.light.id}
    if k is scene.CameraNode:
        return {'label': 'instance_camera#%s' % c.camera.id, 'inst': 'camera', 'target': c.camera.id}
    return {'label': 'extra', 'inst': 'extra'}


def snap_node(n):
    import numpy
    return {'label': 'node#%s' % n.id, 'id': n.id, 'name': n.name,
            'transforms': [snap_transform(t) for t in n.transforms],
            'matrix': [float(x) for x in numpy.asarray(n.matrix).flatten().tolist()],
            'children': [snap_child(c) for c in n.children]}


def snap_asset(a):
    return {'title': a.title, 'subject': a.subject, 'revision': a.revision, 'keywords': a.keywords,
            'unitname': a.unitname, 'unitmeter': fl(a.unitmeter), 'upaxis': a.upaxis,
            'created': a.created.isoformat() if a.created is not None else None,
            'modified': a.modified.isoformat() if a.modified is not None else None,
            'contributors': [{'author': c.author, 'authoring_tool': c.authoring_tool, 'comments': c.comments,
                              'copyright': c.copyright, 'source_data': c.source_data} for c in a.contributors]}


def snapshot(doc):
    return {
        'geometries': [snap_geometry(g) for g in doc.geometries],
        'lights': [snap_light(l) for l in doc.lights],
        'cameras': [snap_camera(c) for c in doc.cameras],
        'images': [{'id': i.id, 'path': i.path} for i in doc.images],
        'effects': [snap_effect(e) for e in doc.effects],
        'materials': [{'id': m.id, 'name': m.name, 'effect': m.effect.id} for m in doc.materials],
        'nodes': [snap_node(n) for n in doc.nodes],
        'scenes': [{'id': s.id, 'nodes': [snap_node(n) for n in s.nodes]} for s in doc.scenes],
        'scene': doc.scene.id if doc.scene is not None else None,
        'controllers': [c.id for c in doc.controllers],
        'asset': snap_asset(doc.assetInfo),
    }


# =============================================================================== independent reader

def T(s):
    return '{%s}%s' % (NS, s)


def ftext(e):
    return [float(x) for x in (e.text or '').split()]


def read_prim_xml(p, vertices):
    kind = p.tag.split('}')[1]
    inputs = []
    direct = []
    nind = 0
    for i in p.findall(T('input')):
        off = int(i.get('offset'))
        nind = max(nind, off + 1)
        src = i.get('source')[1:]
        st_ = i.get('set')
        if i.get('semantic') == 'VERTEX' and src in vertices:
            for sem, s in vertices[src]:
                inputs.append([off, 'VERTEX' if sem == 'POSITION' else sem, s, st_])
        else:
            if i.get('semantic') == 'VERTEX':
                direct.append(src)      # a VERTEX input must go through a <vertices> element
            inputs.append([off, i.get('semantic'), src, st_])
    ps = [[int(x) for x in (e.text or '').split()] for e in p.findall(T('p'))]
    if kind in ('triangles', 'lines', 'polylist'):
        ps = ps[:1]         # these elements hold one <p>
    d = {'kind': kind, 'material': p.get('material'),
         'inputs': sorted(inputs, key=lambda x: (x[0], x[1], x[2], str(x[3]))),
         'index': [x for q_ in ps for x in q_], 'count': int(p.get('count'))}
    d['label'] = '%s:%s:%d' % (d['kind'], d['material'], len(d['index']))
    d['direct_vertex'] = direct
    if kind == 'polylist':
        vc = p.find(T('vcount'))
        d['vcounts'] = [int(x) for x in (vc.text or '').split()] if vc is not None else []
    if kind == 'polygons':
        d['vcounts'] = [len(q_) // max(nind, 1) for q_ in ps]
    return d


def read_geometry_xml(g):
    mesh = g.find(T('mesh'))
    srcs = []
    for s in mesh.findall(T('source')):
        d = {'id': s.get('id')}
        acc = s.find('%s/%s' % (T('technique_common'), T('accessor')))
        d['components'] = [p.get('name') for p in acc.findall(T('param'))] if acc is not None else []
        fa = s.find(T('float_array'))
        if fa is not None:
            d['data'] = ftext(fa)
            d['count'] = int(fa.get('count'))
            d['acount'] = int(acc.get('count'))
            d['stride'] = int(acc.get('stride'))
            d['array_ok'] = (acc.get('source') == '#' + (fa.get('id') or ''))
        srcs.append(d)
    vertices = {}
    for v in mesh.findall(T('vertices')):
        vertices[v.get('id')] = [(i.get('semantic'), i.get('source')[1:]) for i in v.findall(T('input'))]
    prims = [read_prim_xml(p, vertices) for p in mesh
             if p.tag in (T('triangles'), T('polylist'), T('polygons'), T('lines'), T('tristrips'), T('trifans'), T('linestrips'))]
    ds = g.find('.//%s//%s' % (T('extra'), T('double_sided')))
    other = [c.tag.split('}')[1] for c in mesh if c.tag not in (T('source'), T('vertices'), T('extra')) and
             c.tag not in (T('triangles'), T('polylist'), T('polygons'), T('lines'))]
    return {'id': g.get('id') or '', 'name': g.get('name') or '', 'sources': srcs, 'primitives': prims,
            'double_sided': ds is not None and (ds.text or '').strip() == '1', 'unaccounted': other,
            'vertices': vertices}


def read_node_xml(n):
    tag = n.tag.split('}')[1]
    if tag == 'node':
        ts, cs = [], []
        for c in n:
            ct = c.tag.split('}')[1]
            if ct in ('translate', 'rotate', 'scale', 'matrix', 'lookat'):
                if cs:
                    ts.append({'kind': ct + '-after-child', 'values': ftext(c)})
                else:
                    ts.append({'kind': ct, 'values': ftext(c)})
            elif ct == 'asset':
                continue
            else:
                cs.append(read_node_xml(c))
        return {'label': 'node#%s' % n.get('id'), 'id': n.get('id'), 'name': n.get('name'), 'transforms': ts, 'children': cs}
    if tag.startswith('instance_'):
        k = tag[len('instance_'):]
        tgt = (n.get('url') or '')[1:]
        d = {'label': '%s#%s' % (tag, tgt), 'inst': k, 'target': tgt}
        if k in ('geometry', 'controller'):
            d['materials'] = []
            for m in n.findall('%s/%s/%s' % (T('bind_material'), T('technique_common'), T('instance_material'))):
                d['materials'].append({'label': 'instance_material#%s>%s' % (m.get('symbol'), (m.get('target') or '')[1:]),
                                       'symbol': m.get('symbol'), 'target': (m.get('target') or '')[1:],
                                       'inputs': [[i.get('semantic'), i.get('input_semantic'), i.get('input_set')]
                                                  for i in m.findall(T('bind_vertex_input'))]})
        return d
    return {'label': tag, 'inst': tag}


def read_optional(body, names):
    d = {}
    for k, tagname in names:
        e = body.find(T(tagname))
        d[k] = float(e.text) if e is not None and e.text is not None else None
    return d


def read_light_xml(l):
    body = l.find(T('technique_common'))[0]
    kind = {'directional': 'DirectionalLight', 'ambient': 'AmbientLight', 'point': 'PointLight', 'spot': 'SpotLight'}[body.tag.split('}')[1]]
    d = {'id': l.get('id'), 'kind': kind, 'color': ftext(body.find(T('color'))), 'name': l.get('name')}
    if kind in ('PointLight', 'SpotLight'):
        d.update(read_optional(body, [('constant_att', 'constant_attenuation'), ('linear_att', 'linear_attenuation'),
                                      ('quad_att', 'quadratic_attenuation')]))
    if kind == 'PointLight':
        d.update(read_optional(body, [('zfar', 'zfar')]))
    if kind == 'SpotLight':
        d.update(read_optional(body, [('falloff_ang', 'falloff_angle'), ('falloff_exp', 'falloff_exponent')]))
    return d


def read_camera_xml(c):
    body = c.find('%s/%s' % (T('optics'), T('technique_common')))[0]
    persp = body.tag == T('perspective')
    d = {'id': c.get('id'), 'kind': 'PerspectiveCamera' if persp else 'OrthographicCamera'}
    names = ['xfov', 'yfov'] if persp else ['xmag', 'ymag']
    d.update(read_optional(body, [(k, k) for k in names + ['aspect_ratio', 'znear', 'zfar']]))
    return d


def read_effect_xml(e):
    prof = e.find(T('profile_COMMON'))
    tec = prof.find(T('technique'))
    shader = None
    for s in ('phong', 'lambert', 'blinn', 'constant'):
        if tec.find(T(s)) is not None:
            shader = tec.find(T(s))
            break
    props = {}
    opaque = 'A_ONE'
    shaders_present = [s for s in ('phong', 'lambert', 'blinn', 'constant') if tec.find(T(s)) is not None]
    for p in ['emission', 'ambient', 'diffuse', 'specular', 'shininess', 'reflective', 'reflectivity',
              'transparent', 'transparency', 'index_of_refraction']:
        pn = shader.find(T(p)) if shader is not None else None
        if pn is None or len(pn) == 0:
            props[p] = None
            continue
        v = pn[0]
        if v.tag == T('color'):
            props[p] = pad_color(ftext(v))
        elif v.tag == T('float'):
            props[p] = float(v.text)
        elif v.tag == T('texture'):
            props[p] = {'map': [v.get('texture'), v.get('texcoord')]}
        else:
            props[p] = {'other': v.tag}
        if p == 'transparent' and pn.get('opaque') == 'RGB_ZERO':
            opaque = 'RGB_ZERO'
    params = []
    for np_ in list(prof.findall(T('newparam'))) + list(tec.findall(T('newparam'))):
        sf = np_.find(T('surface'))
        sm = np_.find(T('sampler2D'))
        if sf is not None:
            fm = sf.find(T('format'))
            params.append(['surface', np_.get('sid'), sf.find(T('init_from')).text, fm.text if fm is not None else None])
        elif sm is not None:
            mn, mg = sm.find(T('minfilter')), sm.find(T('magfilter'))
            params.append(['sampler2D', np_.get('sid'), sm.find(T('source')).text,
                           mn.text if mn is not None else None, mg.text if mg is not None else None])
    ds = e.find('.//%s//%s' % (T('extra'), T('double_sided')))
    bump = e.find('.//%s//%s' % (T('extra'), T('texture')))
    return {'id': e.get('id'), 'bumpmap': None if bump is None else {'map': [bump.get('texture'), bump.get('texcoord')]},
            'shadingtype': shader.tag.split('}')[1] if shader is not None else None,
            'shaders_present': shaders_present,
            'double_sided': ds is not None and (ds.text or '').strip() == '1', 'opaque_mode': opaque,
            'props': props, 'params': params}


def read_asset_xml(a):
    def tx(name):
        e = a.find(T(name))
        return e.text if e is not None else None
    u = a.find(T('unit'))
    cs = []
    for c in a.findall(T('contributor')):
        cs.append({k: (c.find(T(k)).text if c.find(T(k)) is not None else None)
                   for k in ('author', 'authoring_tool', 'comments', 'copyright', 'source_data')})
    return {'title': tx('title'), 'subject': tx('subject'), 'revision': tx('revision'), 'keywords': tx('keywords'),
            'unitname': u.get('name') if u is not None else None,
            'unitmeter': float(u.get('meter')) if u is not None else None, 'upaxis': tx('up_axis'),
            'created': tx('created'), 'modified': tx('modified'), 'contributors': cs}


def read_xml(data):
    root = ET.fromstring(data)
    out = {'unaccounted': []}
    readers = {'geometries': read_geometry_xml, 'lights': read_light_xml, 'cameras': read_camera_xml,
               'images': lambda i: {'id': i.get('id'), 'path': (i.find(T('init_from')).text if i.find(T('init_from')) is not None else None)},
               'effects': read_effect_xml,
               'materials': lambda m: {'id': m.get('id'), 'name': m.get('name'),
                                       'effect': (m.find(T('instance_effect')).get('url') or '')[1:]},
               'nodes': read_node_xml,
               'scenes': lambda s: {'id': s.get('id'), 'nodes': [read_node_xml(n) for n in s.findall(T('node'))],
                                    'other': [c.tag.split('}')[1] for c in s if c.tag != T('node')]},
               'controllers': lambda c: c.get('id')}
    for attr, libname, child in LIBS:
        items = []
        for lib in root.findall(T(libname)):
            for c in lib:
                if c.tag != T(child):
                    out['unaccounted'].append('%s/%s' % (libname, c.tag.split('}')[-1]))
                    continue
                items.append(readers[attr](c))
        out[attr] = items
    sc = root.find('%s/%s' % (T('scene'), T('instance_visual_scene')))
    out['scene'] = (sc.get('url') or '')[1:] if sc is not None else None
    a = root.find(T('asset'))
    out['asset'] = read_asset_xml(a) if a is not None else None
    out['root_children'] = [c.tag.split('}')[-1] for c in root]
    return out


# =============================================================================== comparison

def close(a, b):
    if a is None or b is None:
        return a is None and b is None
    if math.isnan(a) or math.isnan(b):
        return math.isnan(a) and math.isnan(b)
    # COLLADA floats are single precision: beyond its range a token is an infinity
    a = math.copysign(float('inf'), a) if abs(a) > 3.4028235e38 else a
    b = math.copysign(float('inf'), b) if abs(b) > 3.4028235e38 else b
    if math.isinf(a) or math.isinf(b):
        return a == b
    return abs(a - b) <= 1e-6 * max(abs(a), abs(b)) + 1e-12


def matrix_tol(transforms, *mats):
    """float32 products lose about 1e-7 of the largest intermediate term: the tolerance follows
    the product of the transforms' magnitudes (cancellation can make the result itself small)"""
    P = 1.0
    for t in transforms:
        P *= max([1.0] + [abs(x) for x in t.get('values', [])])
    return 1e-6 * max([P] + [abs(x) for m in mats for x in m]) + 1e-6


def diff(a, b, path=''):
    """first difference between two snapshot values: (path, a, b) or None.  Lists of labelled
    members are compared through their label sequences first."""
    if isinstance(a, float) or isinstance(b, float):
        if isinstance(a, (int, float)) and isinstance(b, (int, float)) and not isinstance(a, bool) and not isinstance(b, bool):
            if '.matrix' in path:       # a derived float32 product: absolute tolerance
                return None if abs(a - b) <= 1e-4 * max(1.0, abs(a)) else (path, a, b)
            return None if close(float(a), float(b)) else (path, a, b)
        return (path, a, b)
    if isinstance(a, dict) and isinstance(b, dict):
        for k in a:
            if k in ('label',):
                continue
            if k not in b:
                continue
            if k == 'matrix' and isinstance(a[k], list) and isinstance(b[k], list) and len(a[k]) == len(b[k]) == 16:
                # a derived float32 product: tolerance relative to the largest entry
                tol = matrix_tol(a.get('transforms', []), a[k], b[k])
                bad = [i for i in range(16) if abs(a[k][i] - b[k][i]) > tol]
                if bad:
                    return ('%s.matrix[%d]' % (path, bad[0]), a[k][bad[0]], b[k][bad[0]])
                continue
            d = diff(a[k], b[k], path + '.' + k)
            if d:
                return d
        return None
    if isinstance(a, list) and isinstance(b, list):
        la, lb = [labels_of(x) for x in a], [labels_of(x) for x in b]
        if all(x is not None for x in la + lb) and la != lb:
            return (path + '[labels]', la, lb)
        if len(a) != len(b):
            return (path + '[len]', a if len(a) < 8 else len(a), b if len(b) < 8 else len(b))
        for i, (x, y) in enumerate(zip(a, b)):
            d = diff(x, y, '%s[%d]' % (path, i))
            if d:
                return d
        return None
    return None if a == b else (path, a, b)


def labels_of(x):
    if isinstance(x, dict):
        if 'label' in x:
            return x['label']
        if 'id' in x and 'kind' not in x or isinstance(x.get('id'), str):
            return x.get('id')
    return None


def classify(path, model, other):
    """which clause a label-sequence difference violates (model = what the edited model says)"""
    if path.endswith('[labels]'):
        ms, os_ = list(model), list(other)
        extra = [x for x in os_ if x not in ms]
        missing = [x for x in ms if x not in os_]
        if extra:
            return 'survivor'
        if missing:
            return 'missing'
        if sorted(map(str, ms)) != sorted(map(str, os_)):
            return 'duplicate'
        return 'order'
    if path.endswith('.matrix') or '.matrix[' in path:
        return 'matrix'
    if path.endswith('.target') or path.endswith('.effect') or path.endswith('.scene') or '.map' in path:
        return 'reference'
    return 'attribute'


def site_of(path):
    import re
    p = re.sub(r'\[\d+\]', '', path).replace('[labels]', '').replace('[len]', '')
    return p.strip('.') or 'document'


def strip_for_file(model):
    """the part of the model snapshot the independent reader can see (no derived matrix)"""
    def node(n):
        if 'children' in n:
            d = dict(n)
            d.pop('matrix', None)
            d['children'] = [node(c) for c in n['children']]
            return d
        return n
    m = dict(model)
    m['nodes'] = [node(n) for n in model['nodes']]
    m['scenes'] = [{'id': s['id'], 'nodes': [node(n) for n in s['nodes']]} for s in model['scenes']]
    return m


def product_matrix(n):
    import numpy
    from collada import scene
    M = numpy.identity(4)
    for t in n['transforms_m']:
        M = M.dot(t)
    return M


def check_file_vs_model(pid, model, filesnap):
    """C06: what an independent reader finds in the bytes vs the in-memory model"""
    fails = []

    def fail(clause, site, what, detail=None):
        fails.append({'signature': '%s:%s:%s' % (pid, clause, site), 'clause': clause, 'what': what, 'detail': detail})
    for u in filesnap['unaccounted']:
        fail('unaccounted', u, 'managed library holds an element the model does not account for: %s' % u)
    for g in filesnap['geometries']:
        for u in g['unaccounted']:
            fail('unaccounted', 'mesh/' + u, 'mesh of %s holds <%s> which the model does not account for' % (g['id'], u))
        for s in (g['sources'] if pid == 'C06' else []):
            # an independent reader takes the values through the accessor: its bookkeeping is part
            # of what "recovers every source's values" means (C06 only; C04 owns self-consistency)
            if 'data' in s and not (s['count'] == len(s['data']) and s['array_ok']):
                fail('attribute', 'geometries.sources.count', 'float_array count/accessor source of %s disagree with the data' % s['id'])
            if 'data' in s and s['components'] and not (s['stride'] == len(s['components'])
                                                        and s['acount'] * s['stride'] == len(s['data'])):
                fail('attribute', 'geometries.sources.accessor', 'accessor count/stride of %s disagree with the data' % s['id'])
        through = [p for p in g['primitives'] if not p.get('direct_vertex')]
        if pid == 'C06' and g['primitives'] and not through:
            # <vertices> must stand for the positions of at least one primitive (the others may name
            # their own position source)
            fail('reference', 'geometries.primitives.vertices-indirection',
                 'no primitive of %s takes its positions through the <vertices> element' % g['id'])
        for p in g['primitives']:
            for inp in p['inputs']:
                if inp[1] == 'VERTEX' and inp[2] not in [s['id'] for s in g['sources']]:
                    fail('reference', 'geometries.primitives.inputs', 'VERTEX input of %s does not resolve through <vertices> to a source' % g['id'])
    for s in filesnap['scenes']:
        if s['other'] and False:
            fail('unaccounted', 'visual_scene', 'visual_scene holds %r' % s['other'])
    m = strip_for_file(model)
    for key in ('geometries', 'lights', 'cameras', 'images', 'effects', 'materials', 'nodes', 'scenes', 'scene', 'asset', 'controllers'):
        a, b = m.get(key), filesnap.get(key)
        if key == 'effects':
            for e in b:
                if len(e.get('shaders_present', [])) > 1:
                    fail('survivor', 'effects.shader', 'effect %s holds more than one shader element' % e['id'])
        if key == 'asset' and b is None:
            fail('missing', 'asset', 'no <asset> in the written document')
            continue
        d = diff(a, b, key)
        if d:
            clause = classify(d[0], d[1], d[2])
            fail(clause, site_of(d[0]), 'independent reading of the file differs from the model at %s: model %r, file %r'
                 % (d[0], short(d[1]), short(d[2])), {'path': d[0]})
    return fails


def short(x):
    s = repr(x)
    return s if len(s) < 160 else s[:157] + '...'


def check_reload_vs_model(pid, model, reloaded, node_products):
    """C02: the document reloaded from the written bytes vs the edited model"""
    fails = []

    def fail(clause, site, what, detail=None):
        fails.append({'signature': '%s:%s:%s' % (pid, clause, site), 'clause': clause, 'what': what, 'detail': detail})
    for key in ('geometries', 'lights', 'cameras', 'images', 'effects', 'materials', 'nodes', 'scenes', 'scene', 'asset', 'controllers'):
        d = diff(model.get(key), reloaded.get(key), key)
        if d:
            clause = classify(d[0], d[1], d[2])
            fail(clause, site_of(d[0]), 'reloaded document differs from the edited model at %s: model %r, reloaded %r'
                 % (d[0], short(d[1]), short(d[2])), {'path': d[0]})
    # a node's reloaded matrix is the one its (edited) transform list implies

    def walk(n, path):
        if 'transforms' not in n:
            return
        want = node_products.get(path)
        if want is not None:
            tol = matrix_tol(n.get('transforms', []), want, n['matrix'])
            for x, y in zip(want, n['matrix']):
                if abs(x - y) > tol:
                    fail('matrix', 'node.matrix', 'reloaded matrix of %s is not the product of its transform list: %r vs %r'
                         % (n['label'], short(n['matrix']), short(want)))
                    break
        for i, c in enumerate(n.get('children', [])):
            walk(c, path + (i,))
    for i, n in enumerate(reloaded['nodes']):
        walk(n, ('nodes', i))
    for si, s in enumerate(reloaded['scenes']):
        for i, n in enumerate(s['nodes']):
            walk(n, ('scenes', si, i))
    return fails


def transform_products(doc):
    """path -> product of the transform matrices of the model's node at that path"""
    import numpy
    out = {}

    def walk(n, path):
        if not is_plain_node(n):
            return
        M = numpy.identity(4, dtype=numpy.float64)
        for t in n.transforms:
            M = M.dot(numpy.asarray(t.matrix, dtype=numpy.float64))
        out[path] = [float(x) for x in M.flatten().tolist()]
        for i, c in enumerate(n.children):
            walk(c, path + (i,))
    for i, n in enumerate(doc.nodes):
        walk(n, ('nodes', i))
    for si, s in enumerate(doc.scenes):
        for i, n in enumerate(s.nodes):
            walk(n, ('scenes', si, i))
    return out


# =============================================================================== label skeletons (Check/C02.v)

def skel_of_snapshot(s):
    """label tree: document > libraries > objects > (nodes: transforms then children ...)"""
    def node(n):
        if 'transforms' in n:
            kids = [[t['kind'].replace('-after-child', '!'), []] for t in n['transforms']] + [node(c) for c in n['children']]
            return [n['label'], kids]
        if 'materials' in n:
            return [n['label'], [[m['label'], [['bvi:%s/%s/%s' % tuple(i), []] for i in m['inputs']]] for m in n['materials']]]
        return [n['label'], []]

    def geom(g):
        return ['geometry#%s' % g['id'], [['source#%s' % x['id'], []] for x in g['sources']] +
                [['%s:%s:%d' % (p['kind'], p['material'], len(p['index'])), []] for p in g['primitives']]]
    libs = []
    for key in ('geometries', 'lights', 'cameras', 'images', 'effects', 'materials'):
        kids = [geom(x) for x in s[key]] if key == 'geometries' else [['%s#%s' % (key, x['id']), []] for x in s[key]]
        libs.append([key, kids])
    libs.append(['nodes', [node(n) for n in s['nodes']]])
    libs.append(['scenes', [['visual_scene#%s' % x['id'], [node(n) for n in x['nodes']]] for x in s['scenes']]])
    libs.append(['scene#%s' % s['scene'], []])
    return ['document', libs]


# =============================================================================== content for Check/C06.v

def fmt7(x):
    return '%.7g' % x


def content_of(doc, filesnap):
    """The model's content in the formats the writer is documented to use (computed with the
    runtime's formatting, not with pycollada): source data '%.7g', everything else str()."""
    import numpy
    from collada import source, scene
    fgeo = {g['id']: g for g in filesnap['geometries']}

    def geom(g):
        srcs, seen = [], set()
        for s in g.sourceById.values():
            if isinstance(s, source.FloatSource) and id(s) not in seen:
                seen.add(id(s))
                flat = s.data.flatten().tolist()
                srcs.append({'id': s.id, 'text': ' '.join(fmt7(x) for x in flat), 'comps': list(s.components),
                             'count': len(flat), 'acount': len(s.data)})
        fv = fgeo.get(g.id, {}).get('vertices', {})
        vid = next(iter(fv), None)
        vref = None
        if vid is not None:
            vref = next((s for sem, s in fv[vid] if sem == 'POSITION'), None)
        prims = []
        for p in g.primitives:
            k = prim_kind(p)
            ins = []
            for lst in p.sources.values():
                for inp in lst:
                    ins.append([int(inp[0]), inp[1], inp[2][1:], None if inp[3] is None else str(inp[3])])
            idx = numpy.asarray(p.index)
            d = {'kind': k, 'material': p.material, 'inputs': ins, 'vcount': None}
            if k == 'triangles':
                d['count'] = int(p.ntriangles)
                d['ps'] = [' '.join(map(str, idx.flatten().tolist()))]
            elif k == 'lines':
                d['count'] = int(p.nlines)
                d['ps'] = [' '.join(map(str, idx.flatten().tolist()))]
            elif k == 'polylist':
                d['count'] = int(p.npolygons)
                d['vcount'] = ' '.join(map(str, [int(x) for x in p.vcounts]))
                d['ps'] = [' '.join(map(str, idx.flatten().tolist()))]
            else:
                d['count'] = int(p.npolygons)
                rows = idx.reshape((-1, p.nindices)) if idx.size else idx.reshape((0, p.nindices))
                d['ps'] = []
                start = 0
                for n in [int(x) for x in p.vcounts]:
                    d['ps'].append(' '.join(map(str, rows[start:start + n].flatten().tolist())))
                    start += n
            prims.append(d)
        return {'id': g.id, 'name': g.name or None, 'sources': srcs, 'vid': vid, 'vref': vref, 'prims': prims,
                'double_sided': bool(g.double_sided)}

    def transform(t):
        s = snap_transform(t)
        k = s['kind']
        if k in ('translate', 'scale'):
            vals = [t.x, t.y, t.z]
        elif k == 'rotate':
            vals = [t.x, t.y, t.z, t.angle]
        elif k == 'matrix':
            vals = list(numpy.asarray(t.matrix).flat)
        else:
            vals = list(numpy.concatenate([t.eye, t.interest, t.upvector]))
        return {'kind': k, 'text': ' '.join(map(str, vals))}

    def node(n):
        k = type(n)
        if k is scene.Node:
            return {'node': [n.id, n.name, [transform(t) for t in n.transforms], [node(c) for c in n.children if type(c) is not scene.ExtraNode]]}
        if k is scene.GeometryNode:
            return {'inst': ['geometry', n.geometry.id, [[m.symbol, m.target.id, [[i[0], i[1], None if i[2] is None else str(i[2])] for i in m.inputs]] for m in n.materials]]}
        if k is scene.LightNode:
            return {'inst': ['light', n.light.id, []]}
        if k is scene.CameraNode:
            return {'inst': ['camera', n.camera.id, []]}
        if k is scene.NodeNode:
            return {'inst': ['node', n.node.id, []]}
        return {'inst': ['controller', n.controller.id, []]}

    def light(l):
        s = snap_light(l)
        kind = {'DirectionalLight': 'directional', 'AmbientLight': 'ambient', 'PointLight': 'point', 'SpotLight': 'spot'}[s['kind']]
        params = []
        for attr, tagname in (('constant_att', 'constant_attenuation'), ('linear_att', 'linear_attenuation'),
                              ('quad_att', 'quadratic_attenuation'), ('zfar', 'zfar'), ('falloff_ang', 'falloff_angle'),
                              ('falloff_exp', 'falloff_exponent')):
            if hasattr(l, attr) and getattr(l, attr) is not None:
                params.append([tagname, str(getattr(l, attr))])
        return {'id': l.id, 'kind': kind, 'color': ' '.join(map(str, l.color)), 'params': params}

    def camera(c):
        persp = type(c).__name__ == 'PerspectiveCamera'
        params = []
        for attr in (['xfov', 'yfov'] if persp else ['xmag', 'ymag']) + ['aspect_ratio', 'znear', 'zfar']:
            if getattr(c, attr) is not None:
                params.append([attr, str(getattr(c, attr))])
        order = ['xfov', 'yfov', 'xmag', 'ymag', 'aspect_ratio', 'znear', 'zfar']
        params.sort(key=lambda p: order.index(p[0]))
        return {'id': c.id, 'kind': 'perspective' if persp else 'orthographic', 'params': params}
    return {'geometries': [geom(g) for g in doc.geometries], 'lights': [light(l) for l in doc.lights],
            'cameras': [camera(c) for c in doc.cameras], 'images': [i.id for i in doc.images],
            'effects': [e.id for e in doc.effects],
            'materials': [[m.id, str(m.name), m.effect.id] for m in doc.materials],
            'nodes': [node(n) for n in doc.nodes],
            'scenes': [[s.id, [node(n) for n in s.nodes]] for s in doc.scenes],
            'scene': doc.scene.id if doc.scene is not None else None}


# =============================================================================== one case

def run_case(case, pid='C02', want_content=True):
    import collada
    out = {'fails': [], 'sites': [], 'info': {}}
    st = St()
    stage = 'build'
    try:
        doc = build_base(case['base'], st)
        if case['base']['kind'] == 'gen' and case['base'].get('split') is None:
            repair_instances(doc)
        stage = 'edit'
        for i, op in enumerate(case['ops']):
            stage = 'op %d %s' % (i, op['op'])
            apply_op(doc, st, op, out)
            if op['op'] not in ('save', 'write'):
                repair_instances(doc)
    except Exception as e:  # noqa
        saving = stage.endswith('save') or stage.endswith('write')
        out['fails'].append({'signature': '%s:%s:%s:%s' % (pid, 'save-raises' if saving else 'edit-raises',
                                                           stage.split()[-1], type(e).__name__),
                             'clause': 'save-raises' if saving else 'edit-raises',
                             'what': '%s raised %r' % (stage, e), 'detail': traceback.format_exc()[-1500:]})
        out['info']['aborted'] = stage
        if not saving:
            # an edit the public API refuses is not a statement about save; drop the case
            out['fails'] = []
            out['info']['inapplicable'] = True
        return out
    # final write
    try:
        before = capture_children(doc)
        buf = io.BytesIO()
        doc.write(buf)
        data = buf.getvalue()
        out['sites'].extend(site_observations(doc, before))
    except Exception as e:  # noqa
        where = 'write' if doc.xmlnode.getroot().tag == T('COLLADA') else 'write@non-default-namespace'
        out['fails'].append({'signature': '%s:save-raises:%s:%s' % (pid, where, type(e).__name__), 'clause': 'save-raises',
                             'what': 'final %s raised %r' % (where, e), 'detail': traceback.format_exc()[-1500:]})
        return out
    model = snapshot(doc)
    products = transform_products(doc)
    try:
        filesnap = read_xml(data)
    except Exception as e:  # noqa
        out['fails'].append({'signature': '%s:unreadable:independent-reader:%s' % (pid, type(e).__name__), 'clause': 'unreadable',
                             'what': 'the written bytes cannot be read as COLLADA by the independent reader: %r' % (e,),
                             'detail': traceback.format_exc()[-1500:]})
        return out
    out['fails'].extend(check_file_vs_model('C06' if pid == 'C06' else pid, model, filesnap))
    if pid == 'C02':
        try:
            doc2 = collada.Collada(io.BytesIO(data))
            reloaded = snapshot(doc2)
            out['fails'].extend(check_reload_vs_model(pid, model, reloaded, products))
        except Exception as e:  # noqa
            out['fails'].append({'signature': '%s:reload-raises:load:%s' % (pid, type(e).__name__), 'clause': 'reload-raises',
                                 'what': 'the written document does not load: %r' % (e,), 'detail': traceback.format_exc()[-1500:]})
    out['skel_model'] = skel_of_snapshot(strip_for_file(model))
    out['skel_file'] = skel_of_snapshot(filesnap)
    out['info'].update({'bytes': len(data), 'nsites': len(out['sites']),
                        'nnodes': len(all_nodes(doc)), 'libs': {a: len(getattr(doc, a)) for a, _, _ in LIBS}})
    if want_content and case['base']['kind'] == 'gen' and case['base'].get('split') is None and len(data) < 200000:
        out['content'] = content_of(doc, filesnap)
        out['xml'] = data.decode('utf-8')
    return out


def shrink(case, signature, pid):
    ops = list(case['ops'])

    def fails(o):
        try:
            r = run_case(dict(case, ops=o), pid, want_content=False)
        except Exception:  # noqa
            return False
        return any(f['signature'] == signature for f in r['fails'])
    changed = True
    while changed and len(ops) > 0:
        changed = False
        for i in range(len(ops)):
            cand = ops[:i] + ops[i + 1:]
            if fails(cand):
                ops, changed = cand, True
                break
    return dict(case, ops=ops)


def run_cv(case):
    """collada.util._correctValInNode on a small element: children as [uid, tag, text]"""
    from collada.util import _correctValInNode
    from collada.common import E
    outer = E('outer')
    ids = {}
    for i, (tg, tx) in enumerate(case['kids']):
        c = E(tg) if tx is None else E(tg, tx)
        ids[id(c)] = i + 1
        _KEEP.append(c)
        outer.append(c)
    try:
        if case['after'] is None:
            _correctValInNode(outer, case['tag'], case['value'])
        else:
            _correctValInNode(outer, case['tag'], case['value'], case['after'])
    except Exception as e:  # noqa
        return {'error': repr(e)}
    return {'kids': [[ids.get(id(c), 0), c.tag.split('}')[1], c.text] for i, c in enumerate(outer)]}


def main():
    payload = json.load(sys.stdin)
    pid = payload.get('pid', 'C02')
    if 'cv_cases' in payload:
        json.dump([run_cv(c) for c in payload['cv_cases']], sys.stdout)
        return
    if 'shrink' in payload:
        json.dump(shrink(payload['shrink'], payload['signature'], pid), sys.stdout)
        return
    res = []
    for case in payload['cases']:
        try:
            res.append(run_case(case, pid, payload.get('content', True)))
        except Exception as e:  # noqa
            res.append({'fails': [{'signature': '%s:harness-error:%s' % (pid, type(e).__name__), 'clause': 'harness-error',
                                   'what': 'worker raised %r' % (e,), 'detail': traceback.format_exc()[-2000:]}],
                        'sites': [], 'info': {'worker_error': True}})
    json.dump(res, sys.stdout)


if __name__ == '__main__':
    main()
