"""Implementation worker for C19: loads a generated controller document through collada.Collada,
records the decoded skin / morph (or the exception class) and the skins bound through the scene,
and evaluates the property's clauses directly against the generator's expectation."""
import io
import json
import sys

import numpy


def exc_code(e):
    import collada.common as cc
    table = [(cc.DaeIncompleteError, 1), (cc.DaeBrokenRefError, 2), (cc.DaeMalformedError, 3),
             (cc.DaeUnsupportedError, 4), (cc.DaeSaveValidationError, 5), (cc.DaeError, 6),
             (IndexError, 7), (KeyError, 8), (TypeError, 9), (ValueError, 10), (AttributeError, 11)]
    for cls, code in table:
        if isinstance(e, cls):
            return code
    return 12


def ints(a):
    """nested lists of python ints if every entry is integral, else None"""
    arr = numpy.asarray(a, dtype=numpy.float64)
    if not numpy.all(numpy.isfinite(arr)) or not numpy.all(arr == numpy.round(arr)):
        return None
    return numpy.round(arr).astype(numpy.int64).tolist()


def matmul(a, b):
    return [[sum(a[i][k] * b[k][j] for k in range(4)) for j in range(4)] for i in range(4)]


def rows4(flat):
    return [list(flat[4 * i:4 * i + 4]) for i in range(4)]


def run_case(top):
    """load the document once; check the primary controller, then every extra controller of the
    same document (each with its own sources, possibly re-using source ids, and its own instances)"""
    import collada
    from collada.common import DaeMalformedError, DaeError
    fails = []
    obs = {'code': 0, 'view': None, 'bound': None}

    def fail(clause, site, what):
        if len(fails) < 4:
            fails.append({'clause': clause, 'site': site, 'what': what})

    case = top
    exp = case['expect']
    extras = top.get('extras') or []
    try:
        mesh = collada.Collada(io.BytesIO(top['xml'].encode('utf-8')))
        if len(mesh.controllers) != 1 + len(extras):
            raise RuntimeError('document loaded with %d controllers, errors %r' % (len(mesh.controllers), mesh.errors))
    except Exception as e:  # noqa
        obs['code'] = exc_code(e)
        if exp['outcome'] == 'ref-error':
            if not isinstance(e, DaeError):
                fail('ref-level', case['fault'], 'a %s with a broken reference (%s) raises %r, not a DaeError'
                     % (case['kind'], exp.get('why'), e))
        elif exp['outcome'] == 'malformed':
            if not isinstance(e, DaeMalformedError):
                fail('rejects', case['fault'], 'a %s controller (%s) is not rejected as DaeMalformedError but raises %r'
                     % (case['kind'], case['fault'], e))
        else:
            fail('accepts', type(e).__name__, 'a well-formed %s fails to load: %r' % (case['kind'], e))
        if extras and exp['outcome'] != 'ok':
            # the other controllers of the document are not affected by the faulty one
            try:
                mesh = collada.Collada(io.BytesIO(top['xml'].encode('utf-8')), ignore=[DaeError])
                obs['extras'] = []
                for sub in extras:
                    o, f = check_controller(mesh, sub, top)
                    obs['extras'].append(o)
                    fails.extend(f[:2])
                if exp['outcome'] == 'malformed' and not any(isinstance(x, DaeMalformedError) for x in mesh.errors):
                    fail('rejects', case['fault'], 'with errors ignored, the faulty %s is not recorded as DaeMalformedError: %r'
                         % (case['kind'], mesh.errors))
            except Exception as e2:  # noqa
                fail('isolation', 'ignore', 'loading the document with errors ignored raised %r' % (e2,))
        return {'obs': obs, 'fails': fails}
    if exp['outcome'] == 'ref-error':
        fail('ref-level', case['fault'], 'a %s with a broken reference (%s) is accepted' % (case['kind'], exp.get('why')))
    if exp['outcome'] == 'malformed':
        fail('rejects', case['fault'], 'a %s with fault "%s" (%s) is accepted' % (case['kind'], case['fault'], exp.get('why')))
    o, f = check_controller(mesh, case, top)
    obs.update(o)
    fails.extend(f)
    obs['extras'] = []
    for sub in extras:
        o, f = check_controller(mesh, sub, top)
        obs['extras'].append(o)
        fails.extend(f[:2])
    return {'obs': obs, 'fails': fails[:6]}


def check_controller(mesh, case, top):
    """-> (observation, failures) for one loaded controller of the document"""
    from collada import controller
    fails = []
    obs = {'code': 0, 'view': None, 'bound': None}

    def fail(clause, site, what):
        if len(fails) < 4:
            fails.append({'clause': clause, 'site': site, 'what': what})

    exp = case['expect']
    ctrl = mesh.controllers.get(case.get('cid', 'ctrl'))
    if ctrl is None:
        fail('accepts', 'missing', 'controller %s is not in the loaded document (errors %r)' % (case.get('cid', 'ctrl'), mesh.errors))
        return obs, fails
    if exp['outcome'] != 'ok':
        return obs, fails
    if case['kind'] == 'skin':
        skin = ctrl
        try:
            groups = [numpy.asarray(skin[i]).tolist() for i in range(len(skin))]
            view = {
                'nind': int(skin.nindices),
                'groups': groups,
                'joint_index': [numpy.asarray(x).tolist() for x in skin.joint_index],
                'weight_index': [numpy.asarray(x).tolist() for x in skin.weight_index],
                'joint_matrices': [[str(k), ints(numpy.asarray(v).reshape(-1))] for k, v in skin.joint_matrices.items()],
                'bind_shape': ints(numpy.asarray(skin.bind_shape_matrix).reshape(-1)),
            }
            obs['view'] = view
        except Exception as e:  # noqa
            fail('observe', 'Skin', 'reading the loaded skin raised %r' % (e,))
            return obs, fails
        if exp['outcome'] == 'ok':
            if len(skin) != len(case['vcount']):
                fail('groups', 'len', 'len(skin) = %d for %d vcount entries' % (len(skin), len(case['vcount'])))
            else:
                for i, g in enumerate(groups):
                    if [list(r) for r in g] != exp['groups'][i] or numpy.asarray(skin[i]).shape != (case['vcount'][i], exp['nind']):
                        fail('groups', 'rows', 'skin[%d] = %r, the %d rows delimited by vcount are %r'
                             % (i, g, case['vcount'][i], exp['groups'][i]))
                        break
            if view['joint_index'] != exp['joint_index'] or view['weight_index'] != exp['weight_index']:
                fail('groups', 'offsets', 'joint_index/weight_index %r / %r, expected %r / %r'
                     % (view['joint_index'], view['weight_index'], exp['joint_index'], exp['weight_index']))
            nj, nw = len(skin.weight_joints), len(skin.weights)
            if any(not (-1 <= x < nj) for col in view['joint_index'] for x in col) or \
                    any(not (0 <= x < nw) for col in view['weight_index'] for x in col):
                fail('in-range', 'accepted', 'accepted skin has an index outside its joint (%d) / weight (%d) source' % (nj, nw))
            if view['joint_matrices'] != exp['joint_matrices']:
                fail('joint-matrices', 'order', 'joint_matrices %r, expected %r' % (view['joint_matrices'], exp['joint_matrices']))
            if view['bind_shape'] != exp['bind_shape'] or numpy.asarray(skin.bind_shape_matrix).shape != (4, 4):
                fail('bind-shape', 'value', 'bind_shape_matrix %r, expected %r' % (view['bind_shape'], exp['bind_shape']))
            if skin.geometry is not mesh.geometries.get(case['source_geom']):
                fail('geometry', 'identity', 'skin.geometry is not the geometry object %s of the document' % case['source_geom'])
            # ---- bound through the scene: one bound skin per path to the controller instance,
            # each with path . bind_shape, on every traversal
            try:
                paths = case.get('paths') or [case['nodes']]
                wants = []
                for chain_ in paths:
                    path = [[1 if i == j else 0 for j in range(4)] for i in range(4)]
                    for m in chain_:
                        path = matmul(path, rows4(m))
                    wants.append(matmul(path, rows4(exp['bind_shape'])))
                order = sorted(range(len(paths)), key=lambda k: wants[k])
                src_prims = list(skin.geometry.primitives)
                obs['bound'] = []
                for trav in range(2):
                    bound = [b for b in mesh.scene.objects('controller')
                             if getattr(b, 'skin', None) is skin]
                    if len(bound) != len(paths) or not all(isinstance(b, controller.BoundSkin) for b in bound):
                        fail('bound', 'objects', "scene.objects('controller') yields %r for %d path(s) to the instance"
                             % (bound, len(paths)))
                        obs['bound'] = None
                        break
                    mats = [ints(numpy.asarray(b.geometry.matrix).reshape(-1)) for b in bound]
                    if any(m is None for m in mats):
                        fail('bound', 'matrix', 'a bound matrix is not integral: %r' % (mats,))
                        obs['bound'] = None
                        break
                    # the property does not fix the order in which the instances are yielded
                    got_order = sorted(range(len(bound)), key=lambda k: rows4(mats[k]))
                    paired = [None] * len(paths)
                    for gi, wi in zip(got_order, order):
                        paired[wi] = gi
                    obs['bound'].append([mats[paired[k]] for k in range(len(paths))])
                    for k in range(len(paths)):
                        b = bound[paired[k]]
                        if rows4(mats[paired[k]]) != wants[k]:
                            fail('bound', 'matrix', 'traversal %d: the bound matrices are %r, path . bind_shape for the %d '
                                 'path(s) is %r' % (trav, [rows4(m) for m in mats], len(paths), wants))
                            break
                        prims = list(b.primitives())
                        # one bound primitive per primitive of the source geometry: same count, order, kinds
                        # (empty primitives included) and, for the expected description, the generated kinds
                        want_kinds = [type(sp).__name__ for sp in src_prims]
                        got_kinds = [type(bp.primitive).__name__.replace('Bound', '') for bp in prims]
                        gen_kinds = None
                        g = next((x for x in top['geoms'] if x['id'] == case['source_geom']), None)
                        if g is not None and all(isinstance(pr, dict) for pr in g['prims']):
                            names = {'triangles': 'TriangleSet', 'lines': 'LineSet', 'polylist': 'Polylist', 'polygons': 'Polygons'}
                            gen_kinds = [names[pr['kind']] for pr in g['prims']]
                        if got_kinds != want_kinds or (gen_kinds is not None and got_kinds != gen_kinds) or b.skin is not skin \
                                or [len(bp) for bp in prims] != [len(sp) for sp in src_prims]:
                            fail('bound', 'primitives', 'bound primitives %r (lengths %r) for source primitives %r (lengths %r)'
                                 % (got_kinds, [len(bp) for bp in prims], gen_kinds or want_kinds, [len(sp) for sp in src_prims]))
                            break
                        bad = False
                        for bp, sp in zip(prims, src_prims):
                            if len(sp) == 0:
                                continue
                            V = numpy.asarray(sp.vertex, dtype=numpy.float64)
                            W = numpy.asarray(wants[k], dtype=numpy.float64)
                            expv = V.dot(W[:3, :3].T) + W[:3, 3]
                            got = numpy.asarray(bp.primitive.vertex, dtype=numpy.float64)
                            if got.shape != expv.shape or not numpy.array_equal(got, expv) or len(bp) != len(sp) \
                                    or not numpy.array_equal(numpy.asarray(bp.primitive.vertex_index).reshape(-1),
                                                             numpy.asarray(sp.vertex_index).reshape(-1)):
                                fail('bound', 'primitives', 'traversal %d, path %d: a bound primitive is not the source '
                                     'primitive under path . bind_shape' % (trav, k))
                                bad = True
                                break
                        if bad:
                            break
            except Exception as e:  # noqa
                fail('bound', 'raised', 'binding the skin through the scene raised %r' % (e,))
    else:
        morph = ctrl
        try:
            pairs = [[g.id, float(w)] for g, w in morph.target_list]
            obs['view'] = {'base': morph.source_geometry.id, 'pairs': pairs}
        except Exception as e:  # noqa
            fail('observe', 'Morph', 'reading the loaded morph raised %r' % (e,))
            return obs, fails
        if exp['outcome'] == 'ok':
            if morph.source_geometry is not mesh.geometries.get(case['base']):
                fail('morph', 'base', 'source_geometry is not the geometry object %s' % case['base'])
            if len(morph) != len(exp['pairs']) or pairs != exp['pairs'] or \
                    any(g is not mesh.geometries.get(g.id) for g, _ in morph.target_list) or \
                    any(morph[i] is not morph.target_list[i] for i in range(len(morph))):
                fail('morph', 'pairs', 'target_list %r, expected %r' % (pairs, exp['pairs']))
    return obs, fails


def main():
    payload = json.load(sys.stdin)
    out = []
    for case in payload['cases']:
        try:
            out.append(run_case(case))
        except Exception as e:  # noqa
            out.append({'obs': None, 'fails': [{'clause': 'worker', 'site': case.get('kind'),
                                                'what': 'worker raised %r' % (e,)}]})
    json.dump(out, sys.stdout)


if __name__ == '__main__':
    main()
