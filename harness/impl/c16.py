"""Implementation worker for C16: builds archive / directory layouts in a temporary directory
(outside /repo and /verif, removed afterwards), loads the same documents through every
container and records what pycollada did; also evaluates the property's clauses directly."""
import hashlib
import io
import json
import os
import shutil
import sys
import tempfile
import zipfile

from harness.impl.c16_blobs import DOC_BASE, aux_content, user_content, content_id, kind_id


def exc_code(e):
    import collada.common as cc
    table = [(cc.DaeIncompleteError, 1), (cc.DaeBrokenRefError, 2), (cc.DaeMalformedError, 3),
             (cc.DaeUnsupportedError, 4), (cc.DaeSaveValidationError, 5), (cc.DaeError, 6),
             (IndexError, 7), (KeyError, 8), (TypeError, 9), (ValueError, 10), (AttributeError, 11)]
    for cls, code in table:
        if isinstance(e, cls):
            return code
    return 12


def doc_bytes(k, images):
    """an independent (template-written) COLLADA document; k makes its content unique"""
    imgs = ''.join('<image id="img%d" name="img%d"><init_from>%s</init_from></image>' % (i, i, p)
                   for i, p in enumerate(images))
    ntri = k % 3 + 1
    pos = ' '.join('%d %d %d' % (i, i * k % 7, (i + k) % 5) for i in range(ntri + 2))
    idx = ' '.join('%d %d %d' % (i, i + 1, i + 2) for i in range(ntri))
    tex = ''
    if images:
        tex = ('<newparam sid="surf"><surface type="2D"><init_from>img0</init_from><format>A8R8G8B8</format></surface></newparam>'
               '<newparam sid="samp"><sampler2D><source>surf</source></sampler2D></newparam>')
        diffuse = '<diffuse><texture texture="samp" texcoord="UV"/></diffuse>'
    else:
        diffuse = '<diffuse><color>0.5 0.25 %d 1</color></diffuse>' % k
    s = ('<?xml version="1.0" encoding="utf-8"?>\n'
         '<COLLADA xmlns="http://www.collada.org/2005/11/COLLADASchema" version="1.4.1">'
         '<asset><created>2020-01-01T00:00:00</created><modified>2020-01-02T00:00:00</modified>'
         '<title>doc-%d</title><up_axis>Z_UP</up_axis></asset>'
         '<library_images>%s</library_images>'
         '<library_effects><effect id="fx"><profile_COMMON>%s<technique sid="common"><phong>%s</phong></technique>'
         '</profile_COMMON></effect></library_effects>'
         '<library_materials><material id="mat" name="mat"><instance_effect url="#fx"/></material></library_materials>'
         '<library_geometries><geometry id="g%d" name="g"><mesh>'
         '<source id="p"><float_array id="pa" count="%d">%s</float_array><technique_common>'
         '<accessor source="#pa" count="%d" stride="3"><param name="X" type="float"/><param name="Y" type="float"/>'
         '<param name="Z" type="float"/></accessor></technique_common></source>'
         '<vertices id="v"><input semantic="POSITION" source="#p"/></vertices>'
         '<triangles count="%d" material="m"><input semantic="VERTEX" source="#v" offset="0"/><p>%s</p></triangles>'
         '</mesh></geometry></library_geometries>'
         '<library_visual_scenes><visual_scene id="vs"><node id="n" name="n"><translate>%d 0 0</translate>'
         '<instance_geometry url="#g%d"><bind_material><technique_common>'
         '<instance_material symbol="m" target="#mat"/></technique_common></bind_material></instance_geometry>'
         '</node></visual_scene></library_visual_scenes>'
         '<scene><instance_visual_scene url="#vs"/></scene></COLLADA>'
         % (k, imgs, tex, diffuse, k, 3 * (ntri + 2), pos, ntri + 2, ntri, idx, k, k))
    return s.encode('utf-8')


def blob(kind, images):
    t = kind[0]
    if t == 'doc':
        return doc_bytes(kind[1], images)
    if t == 'aux':
        return aux_content(kind)
    if t == 'decoy':
        return b'\x00\x05\x16\x07\x00\x02\x00\x00Mac OS X        decoy-%d' % kind[1]
    if t == 'dir':
        return b''
    raise ValueError(kind)


# ---- the property's own notion of where a relative path leads (not pycollada's, not posixpath's)

def lexical(dirparts, path):
    """location (list of names) reached from directory `dirparts`, None if it leaves the container;
    second result: True when a '..' undid a directory that the path itself had just named (the
    strict reading would need that directory to exist)"""
    stack = list(dirparts)
    named = 0
    undone_named = False
    for c in path.split('/'):
        if c in ('', '.'):
            continue
        if c == '..':
            if not stack:
                return None, undone_named
            if named > 0:
                undone_named = True
                named -= 1
            stack.pop()
        else:
            stack.append(c)
            named += 1
    return stack, undone_named


def make_zip(entries, variant):
    """byte-level variants of one archive, all of which zipfile.ZipFile opens"""
    zbuf = io.BytesIO()
    comp = zipfile.ZIP_DEFLATED if variant in ('deflated', 'prepended-deflated') else zipfile.ZIP_STORED
    with zipfile.ZipFile(zbuf, 'w', compression=comp) as z:
        if variant == 'comment':
            z.comment = b'archive comment \x00 with bytes \xff at the end of the file'
        for i, (name, data) in enumerate(entries):
            if variant == 'zip64' and not name.endswith('/'):
                with z.open(name, 'w', force_zip64=True) as f:
                    f.write(data)
            elif variant == 'mixed' and i % 2:
                z.writestr(name, data, compress_type=zipfile.ZIP_DEFLATED)
            else:
                z.writestr(name, data)
    b = zbuf.getvalue()
    if variant.startswith('prepended'):
        # a self-extracting stub / junk in front of the first member: zipfile finds the directory from the end
        b = b'#!/bin/sh\necho stub\nexit 0\n' + bytes(range(256)) + b
    return b


def loader_form(fn, form):
    """the same user loader in the Python forms a caller may hand over"""
    import functools
    if form == 'lambda':
        return lambda fname: fn(fname)
    if form == 'partial':
        return functools.partial(lambda tag, fname: fn(fname), 'tag')
    if form == 'method':
        class Holder(object):
            def get(self, fname):
                return fn(fname)
        return Holder().get
    if form == 'callable_object':
        class Obj(object):
            def __call__(self, fname):
                return fn(fname)
        return Obj()
    if form == 'empty_dict_callable':
        class Memo(dict):           # a memoising loader: a (still empty) dict that is callable
            def __call__(self, fname):
                return fn(fname)
        return Memo()
    if form == 'falsy_callable':
        class Falsy(object):
            def __bool__(self):
                return False

            def __call__(self, fname):
                return fn(fname)
        return Falsy()
    if form == 'len0_callable':
        class Len0(object):
            def __len__(self):
                return 0

            def __call__(self, fname):
                return fn(fname)
        return Len0()
    return fn


def run_case(case):
    import collada
    from collada.common import DaeError, DaeBrokenRefError
    from harness.impl.c01_snapshot import snapshot
    images = case['images']
    members = case['members']          # [name, kind] in archive order
    disk = case['disk']                # [relpath, kind]; kind may be ['zip'] for the archive itself
    user_map = case['user_map']        # raw path -> aux number or None
    top = tempfile.mkdtemp(prefix='verif-c16-')
    old = os.getcwd()
    obs, fails = [], []
    try:
        cwd = os.path.join(top, 'o1', 'o2', 'o3', 'w')
        os.makedirs(cwd)
        os.chdir(cwd)
        zbytes = make_zip([(name, blob(kind, images)) for name, kind in members], case.get('zip_variant', 'plain'))
        for rel, kind in disk:
            d = os.path.dirname(rel)
            if d:
                os.makedirs(d, exist_ok=True)
            with open(rel, 'wb') as f:
                f.write(zbytes if kind[0] == 'zip' else blob(kind, images))
        # symbolic links (a document reached through a linked file or a linked directory)
        for link, tgt in case.get('links', []):
            d = os.path.dirname(link)
            if d:
                os.makedirs(d, exist_ok=True)
            os.symlink(os.path.join(cwd, tgt), link)
        member_names = [m[0] for m in members]
        member_kind = dict((m[0], m[1]) for m in members)
        disk_kind = dict((r, k) for r, k in list(disk) + list(case.get('disk_virtual', [])))
        calls = []

        def loader(fname):
            calls.append(fname)
            ans = user_map.get(fname)
            if ans is None:
                return None
            b = user_content(ans)
            form = ans[2]
            if form == 'bytearray':
                return bytearray(b)
            if form == 'memoryview':
                return memoryview(b)
            if form == 'str':
                return b.decode('latin-1')
            return b

        first_snap = {}
        for li, ld in enumerate(case['loads']):
            target = ld['target']
            is_zip = disk_kind[target][0] == 'zip'
            kw = {}
            if ld['zip_filename'] is not None:
                kw['zip_filename'] = ld['zip_filename']
            if ld['loader']:
                kw['aux_file_loader'] = loader_form(loader, ld.get('loader_form', 'function'))
            if ld['ignore']:
                kw['ignore'] = [DaeError]
            fobj = None
            code, data_id, member, imgs, snaph = 0, 0, None, [], None
            col = None
            off = ld.get('offset') or 0
            prefix = (b'HDR\x00' + bytes(range(256)) * 4)[:off]
            try:
                if ld['src'] == 'path':
                    col = collada.Collada(target, **kw)
                elif ld['src'] == 'abspath':
                    col = collada.Collada(os.path.join(cwd, target), **kw)
                elif ld['src'] == 'file':
                    if off:
                        # the document behind a header the caller has already consumed
                        tmpname = '_offs_%d.bin' % li
                        with open(tmpname, 'wb') as f:
                            f.write(prefix + open(target, 'rb').read())
                        fobj = open(tmpname, 'rb')
                        fobj.seek(off)
                    else:
                        fobj = open(target, 'rb')
                    col = collada.Collada(fobj, **kw)
                else:
                    stream = io.BytesIO(prefix + open(target, 'rb').read())
                    stream.seek(off)
                    col = collada.Collada(stream, **kw)
            except Exception as e:  # noqa
                code = exc_code(e)
            finally:
                if fobj is not None:
                    fobj.close()
            if col is not None:
                title = col.assetInfo.title or ''
                data_id = DOC_BASE + int(title.split('-')[1]) if title.startswith('doc-') else 9999
                member = col.filename if is_zip else None
                snap = snapshot(col)
                snaph = hashlib.sha1(json.dumps(snap, sort_keys=True).encode()).hexdigest()
                # the loaded document is written somewhere else BEFORE its auxiliary data is first
                # asked for: its own location (and so the data) must not change
                wf = ld.get('write_first')
                if wf:
                    try:
                        if wf == 'path':
                            os.makedirs('export_c16/deep', exist_ok=True)
                            col.write('export_c16/deep/out_%d.dae' % li)
                        elif wf == 'abspath':
                            os.makedirs('export_c16', exist_ok=True)
                            col.write(os.path.join(cwd, 'export_c16', 'out_%d.dae' % li))
                        else:
                            col.write(io.BytesIO())
                    except Exception as e:  # noqa
                        if len(fails) < 4:
                            fails.append({'clause': 'multi-step', 'site': 'write-before-data:%s' % type(e).__name__,
                                          'what': 'write() of the loaded document raised %r' % (e,), 'load': li})
                for im in col.images:
                    nerr = len(col.errors)
                    try:
                        v = im.data
                        if ld['ignore'] and len(col.errors) > nerr:
                            imgs.append([100 + exc_code(col.errors[-1]), content_id(v) if v else 0])
                        else:
                            imgs.append([0, content_id(v)])
                    except Exception as e:  # noqa
                        imgs.append([exc_code(e), 0])
            obs.append({'code': code, 'data': data_id, 'member': member, 'imgs': imgs, 'snap': snaph})

            # ------------------------------------------------ direct oracle for this load
            def fail(clause, site, what):
                if len(fails) < 4:
                    fails.append({'clause': clause, 'site': site, 'what': what, 'load': li})

            # which document must have been loaded?
            expect_doc, expect_err, expect_incomplete = None, False, False
            judged = True
            if is_zip:
                zf = ld['zip_filename']
                if zf is not None:
                    if zf in member_kind and zf != '':
                        k = member_kind[zf]
                        if k[0] == 'doc':
                            expect_doc = k[1]
                        else:
                            judged = False      # a named member that is not a document: not in the property
                    else:
                        expect_err = True
                else:
                    if case.get('ambiguous_selection'):
                        judged = False
                    else:
                        cands = [n for n in member_names if n.lower().endswith('.dae')
                                 and '__MACOSX' not in n.split('/')]
                        if cands:
                            k = member_kind[cands[0]]
                            expect_doc = k[1]
                        else:
                            expect_err = True
                            # no member with the suffix at all (empty archive, auxiliary files only,
                            # directories only): "an archive without a document is reported as such"
                            if not any(n.lower().endswith('.dae') for n in member_names):
                                expect_incomplete = True
            else:
                expect_doc = disk_kind[target][1]
            if judged:
                if expect_err:
                    if code == 0:
                        fail('no-document', 'zip', 'an archive without a (selectable) document loaded successfully')
                    elif not 1 <= code <= 6:
                        fail('no-document', 'zip:raw-exception', 'an archive without a document raised a non-DaeError (code %d)' % code)
                    elif expect_incomplete and code != 1:
                        fail('no-document', 'zip:not-reported-as-such',
                             'an archive with no .dae member at all (%d members) is not reported as "no document in archive" '
                             '(DaeIncompleteError) but with exception code %d' % (len(member_names), code))
                else:
                    if code != 0:
                        fail('same-model', '%s:load-failed' % ('zip' if is_zip else ld['src']),
                             'loading document %d from %s failed (code %d)' % (expect_doc, ld['src'], code))
                    elif data_id != DOC_BASE + expect_doc:
                        fail('member-selection', 'zip' if is_zip else ld['src'],
                             'expected document %d, loaded %d (member %r)' % (expect_doc, data_id - DOC_BASE, member))
            if col is not None:
                # same bytes, same model
                if data_id not in first_snap:
                    first_snap[data_id] = (snaph, li)
                elif first_snap[data_id][0] != snaph:
                    fail('same-model', 'snapshot', 'document %d loaded through load %d and load %d gives different models'
                         % (data_id - DOC_BASE, first_snap[data_id][1], li))
                # auxiliary files
                if len(imgs) != len(images):
                    fail('same-model', 'images', 'image library has %d entries, document has %d' % (len(imgs), len(images)))
                for ii, (path, ob) in enumerate(zip(images, imgs)):
                    want = None       # ('data', id) | ('broken',) | None = not judged
                    if path.startswith('/') and not ld['loader']:
                        continue      # absolute image paths are outside the property
                    if ld['loader']:
                        j = user_map.get(path)
                        want = ('broken',) if j is None else ('data', content_id(user_content(j)))
                    elif is_zip:
                        mparts = member.split('/')[:-1] if member else []
                        if member and all(c not in ('', '.', '..') for c in member.split('/')):
                            loc, undone = lexical(mparts, path)
                            if loc is None:
                                want = ('broken',)
                            elif not undone and loc:
                                nm = '/'.join(loc)
                                if nm in member_kind:
                                    if member_kind[nm][0] == 'aux':
                                        want = ('data', kind_id(member_kind[nm]))
                                elif (nm + '/') not in member_kind:
                                    want = ('broken',)
                    elif ld['src'] in ('path', 'abspath'):
                        loc, undone = lexical(target.split('/')[:-1], path)
                        if loc is not None and not undone and loc:
                            nm = '/'.join(loc)
                            if nm in disk_kind:
                                if disk_kind[nm][0] == 'aux':
                                    want = ('data', kind_id(disk_kind[nm]))
                            elif not os.path.exists(nm):
                                want = ('broken',)
                    else:
                        want = ('broken',)
                    if want is None:
                        continue
                    site = 'user' if ld['loader'] else ('zip' if is_zip else ld['src'])
                    if want[0] == 'data':
                        if ob != [0, want[1]]:
                            fail('aux-relative' if not ld['loader'] else 'user-loader', site,
                                 'image path %r: expected data %d, observed %r' % (path, want[1], ob))
                    else:
                        okb = (ob == [2, 0]) if not ld['ignore'] else (ob == [102, 0])
                        if not okb:
                            fail('missing-is-brokenref', site,
                                 'image path %r cannot be found: expected DaeBrokenRefError, observed %r' % (path, ob))
        if any(ld['loader'] for ld in case['loads']):
            bad = [c for c in calls if c not in images]
            if bad:
                fails.append({'clause': 'user-loader', 'site': 'user', 'load': -1,
                              'what': 'the user loader was called with %r, not a path of the document' % bad[0]})
        return {'obs': obs, 'fails': fails, 'cwd': cwd}
    finally:
        os.chdir(old)
        shutil.rmtree(top, ignore_errors=True)


EMPTY_DOC = (b'<?xml version="1.0"?><COLLADA xmlns="http://www.collada.org/2005/11/COLLADASchema" '
             b'version="1.4.1"/>')


def run_select(case):
    """member selection alone: every member is a (tiny) valid document, so the selected name
    can be read back from Collada.filename whatever it is"""
    import collada
    zbuf = io.BytesIO()
    with zipfile.ZipFile(zbuf, 'w') as z:
        for name in case['names']:
            z.writestr(name, EMPTY_DOC)
    kw = {}
    if case['zip_filename'] is not None:
        kw['zip_filename'] = case['zip_filename']
    try:
        col = collada.Collada(io.BytesIO(zbuf.getvalue()), **kw)
        return {'code': 0, 'member': col.filename}
    except Exception as e:  # noqa
        return {'code': exc_code(e), 'member': None}


def main():
    payload = json.load(sys.stdin)
    if 'select' in payload:
        json.dump([run_select(c) for c in payload['select']], sys.stdout)
        return
    out = []
    for case in payload['cases']:
        try:
            out.append(run_case(case))
        except Exception as e:  # noqa  (harness-side accident: reported as this case's failure)
            out.append({'obs': [{'code': 98, 'data': 0, 'member': None, 'imgs': [], 'snap': None} for _ in case['loads']],
                        'cwd': '/nowhere',
                        'fails': [{'clause': 'crash-or-hang', 'site': 'worker', 'load': -1,
                                   'what': 'unexpected %s in the worker: %s' % (type(e).__name__, e)}]})
    json.dump(out, sys.stdout)


if __name__ == '__main__':
    main()
