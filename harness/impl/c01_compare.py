"""Snapshot comparison for C01 (harness code; used in the harness process and, for the large
shipped documents, inside the worker).  Numbers are compared as the property says: equal to the
seven significant digits the writer emits, i.e. float32(float('%.7g' % x)) computed with the
runtime (numpy / the % operator), never through pycollada."""
import numpy


def norm_h(x):
    try:
        with numpy.errstate(over='ignore'):
            return float(numpy.float32(float('%.7g' % x)))
    except (OverflowError, ValueError):
        return x


def is_num(x):
    return isinstance(x, (int, float)) and not isinstance(x, bool)


def diff(a, b, approx, path='', out=None, limit=6):
    """list of (path, a, b) where the snapshots differ"""
    if out is None:
        out = []
    if len(out) >= limit:
        return out
    if is_num(a) and is_num(b):
        if approx:
            na, nb = norm_h(a), norm_h(b)
            if not (na == nb or (na != na and nb != nb)):
                out.append((path, a, b))
        else:
            if not ((a == b and type(a) is type(b)) or (a != a and b != b)):
                out.append((path, a, b))
        return out
    if isinstance(a, dict) and isinstance(b, dict):
        ka = set(a) - ({'dtype'} if approx else set())
        kb = set(b) - ({'dtype'} if approx else set())
        if ka != kb:
            out.append((path + '/<keys>', sorted(ka - kb), sorted(kb - ka)))
            return out
        for k in sorted(ka):
            diff(a[k], b[k], approx, path + '/' + str(k), out, limit)
        return out
    if isinstance(a, list) and isinstance(b, list):
        if len(a) != len(b):
            out.append((path + '/<len>', len(a), len(b)))
            return out
        for i, (x, y) in enumerate(zip(a, b)):
            diff(x, y, approx, path + '/' + str(i), out, limit)
        return out
    if a != b or type(a) is not type(b):
        out.append((path, a if not isinstance(a, (dict, list)) else '<%s>' % type(a).__name__,
                    b if not isinstance(b, (dict, list)) else '<%s>' % type(b).__name__))
    return out


def site_of(path):
    """a stable, narrow site name for a differing field: drop list positions and ids"""
    parts = [p for p in path.split('/') if p and not p.isdigit()]
    return '.'.join(parts[:4]) or 'root'
