"""Implementation worker for C03: builds documents (public constructors / shipped files, extended
with unmodelled top-level content), drives save()/write() through histories of attempts with
injected faults, and records what the implementation does: exception class, destination state,
deep model snapshot, root-level tree skeleton, bytes.  Also evaluates the property's clauses
directly (`fails`).  Temp directories are created outside /repo and /verif and removed."""
import datetime
import hashlib
import io
import json
import os
import shutil
import sys
import tempfile
import xml.etree.ElementTree as ET

NS = 'http://www.collada.org/2005/11/COLLADASchema'
MANAGED = ['library_geometries', 'library_controllers', 'library_lights', 'library_cameras',
           'library_images', 'library_effects', 'library_materials', 'library_nodes',
           'library_visual_scenes']
LIBATTR = ['geometries', 'controllers', 'lights', 'cameras', 'images', 'effects', 'materials', 'nodes',
           'scenes']
DATA = None


def exc_code(e):
    import collada.common as cc
    table = [(cc.DaeIncompleteError, 1), (cc.DaeBrokenRefError, 2), (cc.DaeMalformedError, 3),
             (cc.DaeUnsupportedError, 4), (cc.DaeSaveValidationError, 5), (cc.DaeError, 6),
             (IndexError, 7), (KeyError, 8), (TypeError, 9), (ValueError, 10), (AttributeError, 11)]
    for cls, code in table:
        if isinstance(e, cls):
            return code
    return 12


# ----------------------------------------------------------------------------- sinks

class SinkFull(OSError):
    pass


class FailingSink(object):
    """file-like object that accepts n bytes and raises on the byte after"""

    def __init__(self, n):
        self.n = n
        self.buf = bytearray()

    def write(self, b):
        b = bytes(b)
        room = self.n - len(self.buf)
        if len(b) > room:
            self.buf += b[:max(room, 0)]
            raise SinkFull('sink accepts %d bytes' % self.n)
        self.buf += b
        return len(b)


class FailingRaw(io.RawIOBase):
    """the same as an io.RawIOBase (ElementTree wraps it differently)"""

    def __init__(self, n):
        io.RawIOBase.__init__(self)
        self.n = n
        self.buf = bytearray()

    def writable(self):
        return True

    def write(self, b):
        b = bytes(b)
        room = self.n - len(self.buf)
        if len(b) > room:
            self.buf += b[:max(room, 0)]
            raise SinkFull('sink accepts %d bytes' % self.n)
        self.buf += b
        return len(b)


def healthy_bytes(doc):
    out = io.BytesIO()
    doc.write(out)
    return out.getvalue()


# ----------------------------------------------------------------------------- documents

EXT_XML = {
    'anim': '<library_animations xmlns="%s"><animation id="anim%%d"><source id="anim%%d-in"><float_array id="anim%%d-in-a" '
            'count="3">0 0.5   1</float_array><technique_common><accessor source="#anim%%d-in-a" count="3" stride="1">'
            '<param name="TIME" type="float"/></accessor></technique_common></source>'
            '<sampler id="anim%%d-s"><input semantic="INPUT" source="#anim%%d-in"/></sampler>'
            '<channel source="#anim%%d-s" target="n0/translate.X"/></animation><extra><technique profile="X">'
            '<note>keep   me</note></technique></extra></library_animations>' % NS,
    'clips': '<library_animation_clips xmlns="%s"><animation_clip id="clip%%d" start="0" end="1.5">'
             '<instance_animation url="#anim0"/></animation_clip></library_animation_clips>' % NS,
    'physmat': '<library_physics_materials xmlns="%s"><physics_material id="pm%%d"><technique_common>'
               '<dynamic_friction>0.25</dynamic_friction><restitution>0.5</restitution>'
               '<static_friction>0.125</static_friction></technique_common></physics_material>'
               '</library_physics_materials>' % NS,
    'physmodel': '<library_physics_models xmlns="%s"><physics_model id="pmod%%d"><rigid_body sid="rb"><technique_common>'
                 '<dynamic>true</dynamic><mass>2</mass><shape><box><half_extents>1 2 3</half_extents></box></shape>'
                 '</technique_common></rigid_body></physics_model></library_physics_models>' % NS,
    'physscene': '<library_physics_scenes xmlns="%s"><physics_scene id="ps%%d"><instance_physics_model url="#pmod0"/>'
                 '<technique_common><gravity>0 -9.8125 0</gravity><time_step>0.015625</time_step></technique_common>'
                 '</physics_scene></library_physics_scenes>' % NS,
    'force': '<library_force_fields xmlns="%s"><force_field id="ff%%d"><technique profile="Z"><wind strength="3"/>'
             '</technique></force_field></library_force_fields>' % NS,
    'dupcams': '<library_cameras xmlns="%s"><camera id="dupcam%%d"><optics><technique_common><perspective><yfov>35</yfov>'
               '<znear>1</znear><zfar>50</zfar></perspective></technique_common></optics></camera></library_cameras>' % NS,
    'duplights': '<library_lights xmlns="%s"><light id="duplight%%d"><technique_common><ambient><color>1 0.5 0.25</color>'
                 '</ambient></technique_common></light></library_lights>' % NS,
    'extrafx': '<extra xmlns="%s" id="exf%%d"><technique profile="EXPORTER"><exp:settings xmlns:exp="urn:example:exporter" '
               'exp:mode="fast" plain="1">1<exp:sub/></exp:settings><o:more xmlns:o="http://example.org/ext/1.0"/></technique></extra>' % NS,
    'extra': '<extra xmlns="%s" id="ex%%d" type="t"><technique profile="MAX3D"><frame_rate>30</frame_rate>'
             '<q xmlns="urn:other" k="v">text <b/>tail text</q></technique>'
             '<technique profile="Y"><param name="p%%d" type="float">  1.5  </param></technique></extra>' % NS,
}


def ext_element(kind, k):
    s = EXT_XML[kind]
    s = s.replace('%d', str(k)).replace('%%', '%')
    return ET.fromstring(s)


def T(name):
    return '{%s}%s' % (NS, name)


FIXED_CREATED = datetime.datetime(2020, 1, 2, 3, 4, 5)
FIXED_MODIFIED = datetime.datetime(2021, 6, 7, 8, 9, 10)


def build_prog(p):
    """A document from the public constructors.  p: dict of small integers."""
    import collada
    import numpy
    from collada import asset, camera, geometry, light, material, scene, source
    doc = collada.Collada()
    # non-finite and extreme values in every numeric place when p['extreme'] is set
    X = p.get('extreme', 0)
    INF, NAN = float('inf'), float('nan')
    SPECIAL = [INF, -INF, NAN, 3.4028235e38, -3.4028235e38, 1e-45, -0.0, 1e38, 16777217.0, 1e-30]

    def sp(i, default):
        return SPECIAL[(i + X) % len(SPECIAL)] if X else default
    contributors = [asset.Contributor(author='a%d' % i, authoring_tool='tool') for i in range(p.get('contributors', 0))]
    doc.assetInfo = asset.Asset(created=FIXED_CREATED, modified=FIXED_MODIFIED, title=p.get('title'),
                                unitname='meter', unitmeter=1.0, upaxis=asset.UP_AXIS.Y_UP if p.get('yup', 1) else asset.UP_AXIS.Z_UP,
                                contributors=contributors)
    for i in range(p.get('images', 0)):
        # the last of three or more images names a file that does not exist
        name = 'textures/missing.bin' if (i >= 2 and i == p.get('images', 0) - 1) else 'textures/tex%d.bin' % i
        doc.images.append(material.CImage('img%d' % i, name, doc))
    mats = []
    for i in range(p.get('materials', 0)):
        eff = material.Effect('eff%d' % i, [], ['phong', 'lambert', 'blinn', 'constant'][i % 4],
                              diffuse=(0.5, sp(i, 0.25), 0.125 * (i + 1), 1.0), specular=(0, 1, 0, 1),
                              shininess=sp(i + 1, 0.5), reflectivity=sp(i + 2, 0.0), transparency=sp(i + 4, 1.0))
        m = material.Material('mat%d' % i, 'material %d' % i, eff)
        doc.effects.append(eff)
        doc.materials.append(m)
        mats.append(m)
    geoms = []
    for i in range(p.get('geometries', 0)):
        n = 4 + i
        verts = numpy.array([[(j * 7 + c * 3 + i) % 11 - 5 + 0.5 * c for c in range(3)] for j in range(n)], dtype=numpy.float32)
        norms = numpy.array([[0, 0, 1], [0, 1, 0], [1, 0, 0]], dtype=numpy.float32)
        if X:
            for j in range(n):
                verts[j, j % 3] = SPECIAL[(i + j + X) % len(SPECIAL)]
            norms[1, 2] = SPECIAL[(i + X + 2) % len(SPECIAL)]
        vs = source.FloatSource('g%d-verts' % i, verts, ('X', 'Y', 'Z'))
        ns = source.FloatSource('g%d-norms' % i, norms, ('X', 'Y', 'Z'))
        g = geometry.Geometry(doc, 'geom%d' % i, 'geometry %d' % i, [vs, ns])
        il = source.InputList()
        il.addInput(0, 'VERTEX', '#g%d-verts' % i)
        il.addInput(1, 'NORMAL', '#g%d-norms' % i)
        kind = (p.get('primkind', 0) + i) % 3
        matsym = 'sym%d' % i
        if kind == 0:
            idx = numpy.array([0, 0, 1, 1, 2, 2, 0, 0, 2, 1, 3, 2], dtype=numpy.int32)
            g.primitives.append(g.createTriangleSet(idx, il, matsym))
        elif kind == 1:
            idx = numpy.array([0, 0, 1, 1, 1, 1, 2, 2], dtype=numpy.int32)
            g.primitives.append(g.createLineSet(idx, il, matsym))
        else:
            idx = numpy.array([0, 0, 1, 1, 2, 2, 3, 0, 0, 1, 2, 2, 3, 0], dtype=numpy.int32)
            g.primitives.append(g.createPolylist(idx, numpy.array([4, 3], dtype=numpy.int32), il, matsym))
        doc.geometries.append(g)
        geoms.append((g, matsym))
    cams = []
    combos = [dict(xfov=45.0), dict(yfov=30.0), dict(xfov=45.0, aspect_ratio=1.5), dict(yfov=30.0, aspect_ratio=2.0),
              dict(xfov=45.0, yfov=30.0)]
    ocombos = [dict(xmag=2.0), dict(ymag=3.0), dict(xmag=2.0, aspect_ratio=1.5), dict(ymag=3.0, aspect_ratio=2.0),
               dict(xmag=2.0, ymag=3.0)]
    for i in range(p.get('cameras', 0)):
        if (i + p.get('camkind', 0)) % 2 == 0:
            c = camera.PerspectiveCamera('cam%d' % i, sp(i, 0.5), sp(i + 3, 1000.0), **combos[(i + p.get('combo', 0)) % 5])
        else:
            c = camera.OrthographicCamera('cam%d' % i, sp(i + 1, 0.5), sp(i + 2, 1000.0), **ocombos[(i + p.get('combo', 0)) % 5])
        if X:
            for nm in ('xfov', 'yfov', 'xmag', 'ymag', 'aspect_ratio'):
                if getattr(c, nm, None) is not None and (i + len(nm)) % 2:
                    setattr(c, nm, sp(i + len(nm), 1.0))
        doc.cameras.append(c)
        cams.append(c)
    lights = []
    for i in range(p.get('lights', 0)):
        k = i % 4
        if k == 0:
            L = light.DirectionalLight('light%d' % i, (1, sp(i + 5, 1), 1))
        elif k == 1:
            L = light.AmbientLight('light%d' % i, (0.5, 0.25, 0.125))
        elif k == 2:
            L = light.PointLight('light%d' % i, (1, sp(i, 0.5), 0.25), sp(i + 1, 1.0), sp(i + 2, 0.5), sp(i + 3, 0.25))
        else:
            L = light.SpotLight('light%d' % i, (1, 1, sp(i, 0.5)), 1.0, 0.0, 0.5, sp(i + 1, 45.0), sp(i + 2, 2.0))
        doc.lights.append(L)
        lights.append(L)
    nodes = []
    for i, (g, sym) in enumerate(geoms):
        binds = [scene.MaterialNode(sym, mats[i % len(mats)], inputs=[])] if mats else []
        gn = scene.GeometryNode(g, binds)
        nodes.append(scene.Node('node-g%d' % i, children=[gn],
                                transforms=[scene.TranslateTransform(sp(i, i), 0.5, sp(i + 1, -1)), scene.ScaleTransform(1, sp(i + 2, 2), 0.5),
                                            scene.RotateTransform(0, 0, 1, sp(i + 3, 30.0))]))
    for i, c in enumerate(cams):
        nodes.append(scene.Node('node-c%d' % i, children=[scene.CameraNode(c)],
                                transforms=[scene.RotateTransform(0, 1, 0, 90.0)]))
    for i, L in enumerate(lights):
        nodes.append(scene.Node('node-l%d' % i, children=[scene.LightNode(L)]))
    nscenes = p.get('scenes', 1)
    for i in range(nscenes):
        sc = scene.Scene('scene%d' % i, nodes if i == 0 else [])
        doc.scenes.append(sc)
    if nscenes and p.get('default_scene', 1):
        doc.scene = doc.scenes[p.get('which_scene', 0) % nscenes]
    if p.get('library_node', 0):
        doc.nodes.append(scene.Node('libnode0', children=[]))
    return doc


def inject(root, ext):
    """ext: list of [kind, position]; position counts from the front if >= 0 else from the end"""
    for k, (kind, pos) in enumerate(ext):
        el = ext_element(kind, k)
        n = len(root)
        i = pos if pos >= 0 else n + 1 + pos
        i = max(0, min(n, i))
        root.insert(i, el)


def apply_edits(doc, edits):
    from collada import camera, light, material, scene
    for e in edits:
        if e == 'add_camera':
            doc.cameras.append(camera.PerspectiveCamera('newcam%d' % len(doc.cameras), 0.25, 100.0, yfov=40.0))
        elif e == 'add_camera_ortho':
            doc.cameras.append(camera.OrthographicCamera('newocam%d' % len(doc.cameras), 0.25, 100.0, xmag=2.0, aspect_ratio=1.25))
        elif e == 'add_light':
            doc.lights.append(light.DirectionalLight('newlight%d' % len(doc.lights), (1, 0.5, 0.5)))
        elif e == 'add_libnode':
            doc.nodes.append(scene.Node('newlibnode%d' % len(doc.nodes), children=[]))
        elif e == 'add_material':
            eff = material.Effect('neweff%d' % len(doc.effects), [], 'phong', diffuse=(0.25, 0.25, 0.5, 1.0))
            doc.effects.append(eff)
            doc.materials.append(material.Material('newmat%d' % len(doc.materials), 'nm', eff))
        elif e == 'clear_lights':
            while len(doc.lights):
                del doc.lights[0]
        elif e == 'clear_cameras':
            while len(doc.cameras):
                del doc.cameras[0]
        elif e == 'no_default_scene':
            doc.scene = None
        elif e == 'drop_scene_element':
            # a document whose tree has no <scene> (save() creates one, in front of the root's <extra>)
            root = doc.xmlnode.getroot()
            for c in root.findall(T('scene')):
                root.remove(c)
        else:
            raise ValueError(e)


TMP = None
SOURCES = {}       # id(document) -> (document, the bytes it was loaded from)


def loaded(data, doc):
    SOURCES[id(doc)] = (doc, data)
    return doc


def xml_text(spec):
    """a raw document: COLLADA elements in the default namespace or under a root prefix, foreign-namespace
    elements and attributes inside a top-level <extra> (and inside a node's <extra>) under chosen prefixes"""
    c = spec.get('rootprefix') or ''
    cp = c + ':' if c else ''
    decl = ['xmlns%s="%s"' % (':' + c if c else '', spec.get('ns') or NS)]
    body = []
    for k, (pfx, uri) in enumerate(spec.get('foreign', [])):
        if pfx:
            decl.append('xmlns:%s="%s"' % (pfx, uri))
            body.append('<%s:settings %s:mode="fast" plain="%d">%s<%s:sub/></%s:settings>' % (pfx, pfx, k, spec.get('value', 'v'), pfx, pfx))
        else:
            body.append('<settings xmlns="%s" plain="%d">%s</settings>' % (uri, k, spec.get('value', 'v')))
    t = ('<?xml version="1.0" encoding="utf-8"?>\n<{c}COLLADA {decl} version="1.4.1">'
         '<{c}asset><{c}created>2020-01-02T03:04:05</{c}created><{c}modified>2020-01-02T03:04:05</{c}modified>'
         '<{c}up_axis>Y_UP</{c}up_axis></{c}asset>'
         '<{c}library_visual_scenes><{c}visual_scene id="vs"><{c}node id="n" name="n">'
         '<{c}extra><{c}technique profile="NODEX">{body}</{c}technique></{c}extra></{c}node></{c}visual_scene>'
         '</{c}library_visual_scenes><{c}scene><{c}instance_visual_scene url="#vs"/></{c}scene>'
         '<{c}extra><{c}technique profile="EXPORTER">{body}</{c}technique></{c}extra></{c}COLLADA>')
    return t.format(c=cp, decl=' '.join(decl), body=''.join(body)).encode('utf-8')


def nsmap_hash():
    return hashlib.sha1(repr(sorted(ET._namespace_map.items())).encode()).hexdigest()[:12]


def other_step(att, fail):
    """work on OTHER documents in the same process between two attempts on the document under test:
    load them, write them (twice: their repeated writes must agree too), save them"""
    import collada
    for o in att.get('docs', []):
        try:
            d = build(o)
            if o.get('ns'):
                continue      # a document in another namespace is only loaded (saving those: C01/C15 finding)
            if 'write' in att.get('acts', []):
                b1 = healthy_bytes(d)
                b2 = healthy_bytes(d)
                if b1 != b2:
                    fail('repeat-bytes', 'write:other-document', 'repeated writes of an unedited (other) document differ')
            if 'save' in att.get('acts', []):
                d.save()
        except collada.DaeError:
            pass
        except Exception:  # noqa  (e.g. a document save() rejects: another property's concern)
            pass


def texture_bytes(i):
    return bytes(bytearray((i * 37 + j * 11) % 256 for j in range(40 + i)))


def project(spec):
    """Lay a document with auxiliary files out on disk (once per specification): a directory with
    model.dae and textures/, or a zip archive holding the same; returns what to load"""
    import zipfile
    key = hashlib.sha1(json.dumps({k: v for k, v in spec.items() if k != 'history'}, sort_keys=True).encode()).hexdigest()[:12]
    d = os.path.join(TMP, 'project-' + key)
    dae = os.path.join(d, 'sub', 'model.dae')
    zp = os.path.join(d, 'model.zip')
    if not os.path.isdir(d):
        os.makedirs(os.path.join(d, 'sub', 'textures'))
        base = build_prog(spec['params'])
        data = healthy_bytes(base)
        ET.register_namespace('', NS)
        root = ET.fromstring(data)
        inject(root, spec.get('ext', []))
        data = ET.tostring(root)
        with open(dae, 'wb') as f:
            f.write(data)
        files = {}
        for i in range(spec['params'].get('images', 0)):
            files['textures/tex%d.bin' % i] = texture_bytes(i)
        for name, b in files.items():
            with open(os.path.join(d, 'sub', name), 'wb') as f:
                f.write(b)
        with zipfile.ZipFile(zp, 'w') as z:
            z.writestr('sub/model.dae', data)
            for name, b in files.items():
                z.writestr('sub/' + name, b)
    return d, dae, zp


def build(spec):
    import collada
    if spec['kind'] == 'pathdoc':
        d, dae, zp = project(spec)
        how = spec.get('how', 'path')
        srcdata = open(dae, 'rb').read()
        if how == 'path':
            doc = collada.Collada(dae)
        elif how == 'zip':
            doc = collada.Collada(zp)
        elif how == 'zipstream':
            doc = collada.Collada(io.BytesIO(open(zp, 'rb').read()))
        elif how == 'loader':
            table = {'textures/tex%d.bin' % i: texture_bytes(i) for i in range(spec['params'].get('images', 0))}
            doc = collada.Collada(dae, aux_file_loader=lambda name: table.get(name))
        else:
            doc = collada.Collada(open(dae, 'rb'))
        apply_edits(doc, spec.get('edits', []))
        return loaded(srcdata, doc)
    if spec['kind'] == 'xml':
        doc = collada.Collada(io.BytesIO(xml_text(spec)))
        apply_edits(doc, spec.get('edits', []))
        return loaded(xml_text(spec), doc)
    if spec['kind'] == 'file':
        data = open(os.path.join(DATA, spec['name']), 'rb').read()
        if spec.get('ext'):
            ET.register_namespace('', NS)
            root = ET.fromstring(data)
            inject(root, spec['ext'])
            data = ET.tostring(root)
        doc = loaded(data, collada.Collada(io.BytesIO(data)))
    else:
        doc = build_prog(spec['params'])
        if spec.get('via_load'):
            data = healthy_bytes(doc)
            ET.register_namespace('', NS)
            root = ET.fromstring(data)
            inject(root, spec.get('ext', []))
            data = ET.tostring(root)
            doc = loaded(data, collada.Collada(io.BytesIO(data)))
        else:
            inject(doc.xmlnode.getroot(), spec.get('ext', []))
    if doc.xmlnode.getroot().find(T('asset')) is None or spec.get('fix_dates'):
        # a document without <asset> gets Asset() with the current time: pin it, or two builds of
        # the same specification would differ by their timestamps
        doc.assetInfo.created = FIXED_CREATED
        doc.assetInfo.modified = FIXED_MODIFIED
    apply_edits(doc, spec.get('edits', []))
    return doc


# ----------------------------------------------------------------------------- observation

def blank(s):
    return (not s) or (not s.strip())


def canon(e, out, top=True):
    """canonical content of a subtree: everything except the whitespace indent() may rewrite"""
    out.append('<')
    out.append(e.tag if isinstance(e.tag, str) else repr(e.tag))
    for k in sorted(e.attrib):
        out.append(' %s=%r' % (k, e.attrib[k]))
    out.append('>')
    if len(e) == 0:
        out.append(e.text or '')
    elif not blank(e.text):
        out.append(e.text)
    for c in e:
        canon(c, out, False)
    out.append('</>')
    if not top and not blank(e.tail):
        out.append(e.tail)


def chash(e):
    out = []
    canon(e, out)
    return hashlib.sha1(''.join(out).encode('utf-8', 'surrogatepass')).hexdigest()


class Obs(object):
    def __init__(self, enc):
        self.enc = enc
        self.I = enc.I
        self.reg = {}
        self.keep = []

    def register(self, e):
        if e is not None and id(e) not in self.reg:
            self.reg[id(e)] = len(self.reg) + 1
            self.keep.append(e)

    def uid(self, e):
        return self.reg.get(id(e), 0)

    def tagatom(self, tag):
        if tag.startswith('{' + NS + '}'):
            return self.I.atom(tag[len(NS) + 2:])
        return self.I.atom(tag)

    def hatom(self, h):
        return self.I.atom('#h:' + h)

    def attrs_atom(self, e):
        if not e.attrib and (len(e) == 0 and not e.text or len(e) > 0 and blank(e.text)):
            return 0
        s = repr(sorted(e.attrib.items())) + ('' if blank(e.text) else e.text)
        return self.hatom(hashlib.sha1(s.encode()).hexdigest())

    def kid_content(self, parent_local, k):
        if parent_local == 'scene' and k.tag == T('instance_visual_scene') and len(k) == 0 and blank(k.text) \
                and list(k.attrib) == ['url'] and k.get('url').startswith('#'):
            return self.I.atom(k.get('url')[1:])
        return self.hatom(chash(k))

    def register_doc(self, doc):
        root = doc.xmlnode.getroot()
        for c in root:
            self.register(c)
            for k in c:
                self.register(k)
        for a in LIBATTR:
            for o in getattr(doc, a):
                self.register(getattr(o, 'xmlnode', None))

    def skeleton(self, doc):
        root = doc.xmlnode.getroot()
        out = []
        for c in root:
            local = c.tag[len(NS) + 2:] if isinstance(c.tag, str) and c.tag.startswith('{' + NS + '}') else None
            if local in MANAGED or local == 'scene':
                out.append([self.uid(c), self.tagatom(c.tag), self.attrs_atom(c),
                            [[self.uid(k), self.kid_content(local, k)] for k in c]])
            else:
                out.append([self.uid(c), self.tagatom(c.tag), self.hatom(chash(c)), []])
        return out

    def unmanaged(self, root):
        res = []
        for c in root:
            local = c.tag[len(NS) + 2:] if isinstance(c.tag, str) and c.tag.startswith('{' + NS + '}') else None
            if local in MANAGED or local in ('scene', 'asset'):
                continue
            res.append(c)
        return res


def snapshot(doc):
    """deep canonical snapshot of the in-memory model (everything reachable from the document's
    lists and attributes except ElementTree nodes and back references to the document)"""
    import numpy
    seen = {}
    keep = []          # visited objects stay alive so that an id() is never reused during the walk

    def walk(x, depth=0):
        if x is None or isinstance(x, (bool, int, str, bytes)):
            return repr(x)
        if isinstance(x, float):
            return x.hex() if x == x else 'nan'
        if isinstance(x, numpy.ndarray):
            return 'nd(%s,%s,%s)' % (x.dtype, x.shape, hashlib.sha1(numpy.ascontiguousarray(x).tobytes()).hexdigest())
        if isinstance(x, numpy.generic):
            return repr(x.item())
        if isinstance(x, (datetime.datetime, datetime.date)):
            return x.isoformat()
        if isinstance(x, ET.Element) or isinstance(x, ET.ElementTree):
            return '<xml>'
        if id(x) in seen:
            return 'ref%d' % seen[id(x)]
        keep.append(x)
        if isinstance(x, (list, tuple)):
            seen[id(x)] = len(seen)
            return '[' + ','.join(walk(y, depth + 1) for y in x) + ']'
        if isinstance(x, dict):
            seen[id(x)] = len(seen)
            return '{' + ','.join('%s:%s' % (walk(k, depth + 1), walk(v, depth + 1))
                                  for k, v in sorted(x.items(), key=lambda kv: repr(kv[0]))) + '}'
        if isinstance(x, (set, frozenset)):
            return 'set(' + ','.join(sorted(walk(y, depth + 1) for y in x)) + ')'
        mod = getattr(type(x), '__module__', '') or ''
        if mod.startswith('collada'):
            import collada
            if isinstance(x, collada.Collada):
                return '<doc>'
            seen[id(x)] = len(seen)
            d = getattr(x, '__dict__', {})
            items = []
            for k in sorted(d):
                if k in ('xmlnode', 'collada', 'scenenode'):
                    continue
                items.append('%s=%s' % (k, walk(d[k], depth + 1)))
            return '%s(%s)' % (type(x).__name__, ','.join(items))
        if isinstance(x, BaseException):
            return 'exc:%s(%s)' % (type(x).__name__, x)
        if isinstance(x, type):
            return 'class:' + x.__name__
        import zipfile
        if isinstance(x, zipfile.ZipFile):
            return 'zip(%r,%r)' % (x.filename if isinstance(x.filename, str) else None, sorted(x.namelist()))
        if callable(x):
            f = getattr(x, '__func__', x)
            return 'fn:' + getattr(f, '__qualname__', type(x).__name__)
        return '<%s>' % type(x).__name__

    parts = []
    for a in LIBATTR + ['animations']:
        parts.append(a + '=' + walk(list(getattr(doc, a))))
    parts.append('asset=' + walk(doc.assetInfo))
    parts.append('scene=' + walk(doc.scene))
    parts.append('errors=%d' % len(doc.errors))
    # every document-level attribute: where the document lives and how auxiliary files are found
    # (filename, zfile, getFileData), error handling (errors, maskedErrors), validator, tag function, ...
    for k in sorted(doc.__dict__):
        if k == 'xmlnode':
            continue
        parts.append('doc.%s=%s' % (k, walk(doc.__dict__[k])))
    try:
        parts.append('doc.tag()=' + doc.tag('probe'))
    except Exception as e:  # noqa
        parts.append('doc.tag()=raises ' + type(e).__name__)
    return hashlib.sha1('\n'.join(parts).encode('utf-8', 'surrogatepass')).hexdigest()


# ----------------------------------------------------------------------------- faults

PERSP_BAD = [(None, None, None), (None, None, 1.5), (45.0, 30.0, 1.5)]
CAMCLS = None


def apply_fault(doc, fault):
    """returns an undo closure and the model-level description (list of [obj uid, exn], scene override)"""
    from collada import camera, scene
    undo = []
    bad = []
    sc = None
    for f in fault or []:
        if f[0] == 'scene':
            old = doc.scene
            sid = f[1]
            if isinstance(sid, list):      # ['same', k]: a copy of the k-th scene - same id, another object
                sid = doc.scenes[sid[1] % len(doc.scenes)].id if len(doc.scenes) else 'no-such-scene'
            doc.scene = scene.Scene(sid, [])
            undo.append(lambda old=old: setattr(doc, 'scene', old))
            sc = sid
        elif f[0] == 'camera':
            c = doc.cameras[f[1]]
            combo = PERSP_BAD[f[2]]
            if isinstance(c, camera.PerspectiveCamera):
                names = ('xfov', 'yfov', 'aspect_ratio')
            else:
                names = ('xmag', 'ymag', 'aspect_ratio')
            old = [getattr(c, n) for n in names]
            for n, v in zip(names, combo):
                setattr(c, n, v)
            undo.append(lambda c=c, names=names, old=old: [setattr(c, n, v) for n, v in zip(names, old)])
            bad.append(f[1])
    return undo, bad, sc


def query(doc):
    """read-only queries between attempts"""
    n = 0
    if doc.scene is not None:
        for kind in ('geometry', 'camera', 'light'):
            for o in doc.scene.objects(kind):
                n += 1
    for g in doc.geometries:
        for p in g.primitives:
            n += len(p)
    return n


def lazy_queries(doc):
    """queries whose answer is computed on first use from outside the document (auxiliary files):
    evaluated for the first time only after all the attempts, compared with a twin on which
    nothing was attempted"""
    import numpy
    out = []
    for img in doc.images:
        for name in ('data', 'pilimage', 'uintarray', 'floatarray'):
            try:
                v = getattr(img, name)
                if isinstance(v, (bytes, bytearray)):
                    r = 'bytes:' + hashlib.sha1(bytes(v)).hexdigest() + ':%d' % len(v)
                elif isinstance(v, numpy.ndarray):
                    r = 'nd:%s:%s' % (v.shape, hashlib.sha1(numpy.ascontiguousarray(v).tobytes()).hexdigest())
                else:
                    r = repr(v)[:80]
            except Exception as e:  # noqa
                r = 'raises ' + type(e).__name__
            out.append([img.id, name, r])
    out.append(['errors', len(doc.errors), [type(e).__name__ for e in doc.errors]])
    return out


# ----------------------------------------------------------------------------- one document

def run_doc(spec, tmpdir):
    from harness.enc.xml2coq import Enc
    fails = []

    def fail(clause, site, what, **detail):
        if len(fails) < 6:
            fails.append({'clause': clause, 'site': site, 'what': what, 'detail': detail})

    # ---- reference run: never fails
    ref = build(spec)
    snap0 = snapshot(ref)
    try:
        B = healthy_bytes(ref)
    except Exception as e:  # noqa
        # the document cannot be written at all: only "a failed write leaves the destination" applies
        return run_unwritable(spec, tmpdir, e)
    if snapshot(ref) != snap0:
        fail('model-changed', 'write', 'write() changed the in-memory model')
    ref_tree1 = [chash(c) for c in ref.xmlnode.getroot()]
    q = query(ref)
    for att in spec.get('history', []):
        if att['op'] == 'other':
            other_step(dict(att, acts=['load']), fail)      # loads of other documents between two writes
            break
    B2 = healthy_bytes(ref)
    query(ref)
    ref.save()
    ref.save()
    B3 = healthy_bytes(ref)
    if B2 != B or B3 != B:
        fail('repeat-bytes', 'write', 'repeated writes without edits differ (lengths %d %d %d)' % (len(B), len(B2), len(B3)))
    if [chash(c) for c in ref.xmlnode.getroot()] != ref_tree1:
        fail('repeat-tree', 'save', 'a second save changed the document tree')
    if snapshot(ref) != snap0:
        fail('model-changed', 'save', 'repeated save() changed the in-memory model')
    # contents the objects emit, by position
    emitted = [[chash(o.xmlnode) for o in getattr(ref, a)] for a in LIBATTR]
    asset_hash = chash(ref.assetInfo.xmlnode)

    # ---- unmanaged content: input subtrees vs the written bytes, read independently
    doc = build(spec)
    enc = Enc()
    ob = Obs(enc)
    ob.register_doc(doc)
    before_unm = ob.unmanaged(doc.xmlnode.getroot())
    src = SOURCES.get(id(doc))
    if src is not None and not src[1].startswith(b'PK'):
        # a loaded document: "survives load then save" is judged against the bytes that were loaded,
        # read independently - not against the tree the loader left behind
        src_unm = ob.unmanaged(ET.fromstring(src[1]))
        if len(src_unm) != len(before_unm):
            fail('unmanaged', 'load', 'loading changed the number of unmodelled top-level elements (%d in the file, %d in the tree)'
                 % (len(src_unm), len(before_unm)))
            src_unm = before_unm
    else:
        src_unm = before_unm
    before_canon = [chash(c) for c in src_unm]
    def noblank(e):
        # blank text (which indent() may rewrite) reads as no text on both sides
        import copy
        e = copy.deepcopy(e)
        for x in e.iter():
            if blank(x.text):
                x.text = None
        return e
    ubefore = [[ob.uid(c), enc.element(noblank(sc))] for c, sc in zip(before_unm, src_unm)]
    out_root = ET.fromstring(B)
    after_canon = [chash(c) for c in ob.unmanaged(out_root)]
    if before_canon != after_canon:
        fail('unmanaged', 'write', 'unmodelled top-level content changed: %d subtrees before, %d after, first difference at %s'
             % (len(before_canon), len(after_canon),
                next((i for i, (a, b) in enumerate(zip(before_canon, after_canon)) if a != b), 'length')))
    import xml.dom.minidom
    dom = xml.dom.minidom.parseString(B)

    def dropblank(n):
        for c in list(n.childNodes):
            if c.nodeType in (c.TEXT_NODE, c.CDATA_SECTION_NODE) and not c.data.strip():
                n.removeChild(c)
            elif c.nodeType == c.ELEMENT_NODE:
                dropblank(c)
    dropblank(dom.documentElement)
    uafter = []
    for c in dom.documentElement.childNodes:
        if c.nodeType == c.ELEMENT_NODE and not (c.namespaceURI == NS and (c.localName in MANAGED or c.localName in ('scene', 'asset'))):
            uafter.append(enc.dom_element(c))

    # ---- the model-level description of the document
    I = enc.I
    arrs = []
    for li, a in enumerate(LIBATTR):
        arr = []
        for k, o in enumerate(getattr(doc, a)):
            arr.append([li * 1000 + k + 1, I.atom(o.id if o.id is not None else ''), ob.uid(o.xmlnode), ob.hatom(emitted[li][k])])
        arrs.append(arr)
    msc = None
    if doc.scene is not None:
        su = 999999
        for k, o in enumerate(doc.scenes):
            if o is doc.scene:
                su = arrs[8][k][0]
        msc = [su, I.atom(doc.scene.id)]
    tree0 = ob.skeleton(doc)
    # the asset child: content atom of the whole subtree (skeleton() already gives that)
    masset = ob.hatom(asset_hash)

    # ---- the history
    events = []
    nfail = 0
    ns0 = nsmap_hash()
    for ai, att in enumerate(spec.get('history', [])):
        if att['op'] == 'other':
            other_step(att, fail)
            continue
        undo, bad, sc = apply_fault(doc, att.get('fault'))
        s_before = snapshot(doc)
        dest = att.get('dest')
        path = None
        pre = None
        sink = None
        if att['op'] == 'write':
            if dest[0] == 'path':
                os.makedirs(os.path.join(tmpdir, 'export'), exist_ok=True)
                path = os.path.join(tmpdir, 'export', 'out%d.dae' % ai)   # never the directory the document came from
                if dest[1] != 'existing' and ai % 2:
                    path = path.encode()                                   # a path may be given as bytes
                if dest[1] == 'existing':
                    pre = b'previous content %d\n' % ai
                    with open(path, 'wb') as f:
                        f.write(pre)
            else:
                n = dest[1]
                if n is None:
                    sink = io.BytesIO()
                elif dest[2] if len(dest) > 2 else False:
                    sink = FailingRaw(n)
                else:
                    sink = FailingSink(n)
        code = 0
        try:
            if att['op'] == 'save':
                doc.save()
            elif path is not None:
                doc.write(path)
            else:
                doc.write(sink)
        except Exception as e:  # noqa
            code = exc_code(e)
        s_after = snapshot(doc)
        dflag = 0
        if path is not None:
            exists = os.path.exists(path)
            cur = open(path, 'rb').read() if exists else None
            if code != 0:
                if (pre is None and exists) or (pre is not None and cur != pre):
                    dflag = 2
                    fail('destination', 'write:path:' + dest[1],
                         'failed write %s the destination' % ('created' if pre is None else 'modified'), attempt=ai)
            else:
                dflag = 1 if cur == B else 2
                if cur != B:
                    fail('later-write', 'write:path', 'a successful write to a path differs from the never-failed output', attempt=ai)
            if exists:
                os.remove(path)
        if att.get('fault') and code == 0 and att.get('expect_fail', True):
            fail('fault-not-detected', 'save:' + att['fault'][0][0], 'save() accepted %r' % (att['fault'],), attempt=ai)
        if s_after != s_before:
            fail('model-changed', att['op'] + (':failed' if code else ':ok'),
                 'the in-memory model changed during %s (exception code %d)' % (att['op'], code), attempt=ai)
        if sink is not None and dest[1] is not None:
            if code == 0 and dest[1] < len(B):
                fail('sink', 'write:sink', 'a sink accepting %d < %d bytes did not make write() fail' % (dest[1], len(B)), attempt=ai)
        if sink is not None and dest[1] is None and code == 0 and not att.get('fault'):
            if sink.getvalue() != B:
                fail('later-write', 'write:healthy', 'a healthy write after %d failed attempts and the work on other documents so far '
                     'differs from the first write of an untouched twin' % nfail, attempt=ai,
                     process_namespace_table_changed=(nsmap_hash() != ns0))
        skel = ob.skeleton(doc)
        for u in undo:
            u()
        if code != 0:
            nfail += 1
        cf = [[[arrs[3][k][0], 3] for k in bad], None if sc is None else [999998, I.atom(sc)]]
        below = None
        if sink is not None:
            below = (dest[1] is not None and dest[1] < len(B))
        events.append({'write': att['op'] == 'write', 'fault': cf,
                       'dest': None if att['op'] == 'save' else (['sink', below] if sink is not None else ['path', dest[1] == 'existing']),
                       'code': code, 'dflag': dflag, 'skel': skel})
        if att.get('query'):
            query(doc)
    # ---- finally: a healthy write must give the never-failed bytes, the model must be as it was
    try:
        Bf = healthy_bytes(doc)
        if Bf != B:
            fail('later-write', 'write:final', 'after %d failed attempts a healthy write differs from the never-failed output '
                 '(lengths %d vs %d)' % (nfail, len(Bf), len(B)), process_namespace_table_changed=(nsmap_hash() != ns0))
    except Exception as e:  # noqa
        fail('later-write', 'write:final:' + type(e).__name__, 'after %d failed attempts a healthy write raises %r' % (nfail, e))
    if snapshot(doc) != snap0:
        fail('model-changed', 'history', 'the in-memory model differs from the start after the history')
    # lazy queries, first evaluated now, against a twin on which nothing was ever attempted
    twin = build(spec)
    lt = lazy_queries(twin)
    ld = lazy_queries(doc)
    if lt != ld:
        i = next((i for i, (a, b) in enumerate(zip(lt, ld)) if a != b), 0)
        fail('lazy-query', 'after-history:' + str(lt[i][1]),
             'a query first evaluated after the attempts answers %r; on a document that was never saved it answers %r'
             % (ld[i], lt[i]))
    elif snapshot(twin) != snapshot(doc):
        fail('lazy-query', 'after-history:snapshot', 'after the same first-time queries the model differs from that of a never-saved twin')
    return {'fails': fails, 'len': len(B), 'nfail': nfail, 'writable': True, 'nlazy': len(ld) - 1,
            'case': {'masset': masset, 'arrs': arrs, 'msc': msc, 'tree0': tree0, 'events': events,
                     'ubefore': ubefore, 'uafter': uafter},
            'nunmanaged': len(before_unm), 'atoms': len(I.dyn)}


def run_unwritable(spec, tmpdir, err):
    """documents save() rejects as they are (e.g. a foreign namespace): a failed write must leave a
    path destination alone and the model unchanged"""
    fails = []
    doc = build(spec)
    s0 = snapshot(doc)
    for pre in (None, b'old'):
        path = os.path.join(tmpdir, 'unw.dae')
        if pre is not None:
            with open(path, 'wb') as f:
                f.write(pre)
        code = 0
        try:
            doc.write(path)
        except Exception as e:  # noqa
            code = exc_code(e)
        exists = os.path.exists(path)
        cur = open(path, 'rb').read() if exists else None
        if code != 0 and ((pre is None and exists) or (pre is not None and cur != pre)):
            fails.append({'clause': 'destination', 'site': 'write:path:unwritable',
                          'what': 'failed write %s the destination' % ('created' if pre is None else 'modified'), 'detail': {}})
        if exists:
            os.remove(path)
    if snapshot(doc) != s0:
        fails.append({'clause': 'model-changed', 'site': 'write:unwritable', 'what': 'a failed write changed the model', 'detail': {}})
    if lazy_queries(build(spec)) != lazy_queries(doc):
        fails.append({'clause': 'lazy-query', 'site': 'after-history:unwritable',
                      'what': 'a query first evaluated after a failed write answers differently from a never-written twin', 'detail': {}})
    return {'fails': fails, 'len': 0, 'nfail': 2, 'writable': False, 'case': None, 'why': repr(err)[:200]}


def sink_enum(spec, ns, check_every):
    """FailingSink(n) for every n in ns on ONE document instance (a history of len(ns) failed writes);
    after every check_every-th failure (and at the end) a healthy write must give the reference bytes"""
    fails = []
    ref = build(spec)
    B = healthy_bytes(ref)
    doc = build(spec)
    s0 = snapshot(doc)
    done = 0
    for j, n in enumerate(ns):
        sink = FailingSink(n) if j % 2 == 0 else FailingRaw(n)
        code = 0
        try:
            doc.write(sink)
        except SinkFull:
            code = 12
        except Exception as e:  # noqa
            code = exc_code(e)
            if len(fails) < 3:
                fails.append({'clause': 'sink', 'site': 'write:sink:' + type(e).__name__,
                              'what': 'write to a sink failing after %d bytes raised %r instead of the sink\'s own error' % (n, e),
                              'detail': {'n': n}})
        done += 1
        if (code == 0) != (n >= len(B)) and len(fails) < 3:
            fails.append({'clause': 'sink', 'site': 'write:sink:outcome',
                          'what': 'sink accepting %d bytes of %d: exception code %d' % (n, len(B), code), 'detail': {'n': n}})
        if bytes(sink.buf) != B[:min(n, len(B))] and len(fails) < 3 and code == 0:
            fails.append({'clause': 'later-write', 'site': 'write:sink:content',
                          'what': 'a sink that accepted everything holds other bytes than the never-failed output', 'detail': {'n': n}})
        if (j + 1) % check_every == 0 or j == len(ns) - 1:
            Bh = healthy_bytes(doc)
            if Bh != B and len(fails) < 3:
                fails.append({'clause': 'later-write', 'site': 'write:after-sink-failure',
                              'what': 'healthy write after a sink failed at byte %d differs from the never-failed output' % n,
                              'detail': {'n': n}})
    if snapshot(doc) != s0:
        fails.append({'clause': 'model-changed', 'site': 'write:sink', 'what': 'failed writes changed the in-memory model', 'detail': {}})
    if lazy_queries(build(spec)) != lazy_queries(doc):
        fails.append({'clause': 'lazy-query', 'site': 'after-sink-failures',
                      'what': 'a query first evaluated after failed writes answers differently from a never-written twin', 'detail': {}})
    return {'fails': fails, 'positions': done, 'len': len(B)}


# ----------------------------------------------------------------------------- indent

def indent_cases(trees):
    """trees: [level, tree]; tree = [label, text, tail, kids]; text/tail: None | str"""
    from collada import xmlutil

    def mk(t):
        e = ET.Element('t%d' % t[0])
        e.text = t[1]
        e.tail = t[2]
        for k in t[3]:
            e.append(mk(k))
        return e

    def rd(e):
        return [int(e.tag[1:]), e.text, e.tail, [rd(k) for k in e]]
    out = []
    for level, t in trees:
        e = mk(t)
        xmlutil.indent(e, level)
        after = rd(e)
        s1 = ET.tostring(e)
        xmlutil.indent(e, level)
        out.append({'after': after, 'idempotent': ET.tostring(e) == s1 and rd(e) == after})
    return out


def main():
    global DATA
    payload = json.load(sys.stdin)
    import collada
    DATA = os.path.join(os.path.dirname(collada.__file__), 'tests', 'data')
    if 'indent' in payload:
        json.dump(indent_cases(payload['indent']), sys.stdout)
        return
    global TMP
    tmpdir = tempfile.mkdtemp(prefix='c03-')
    assert not tmpdir.startswith('/repo') and not tmpdir.startswith('/verif')
    TMP = tmpdir
    try:
        out = []
        for job in payload['jobs']:
            try:
                if job['what'] == 'doc':
                    out.append(run_doc(job['spec'], tmpdir))
                else:
                    out.append(sink_enum(job['spec'], job['ns'], job['check_every']))
            except Exception as e:  # noqa
                import traceback
                out.append({'error': traceback.format_exc()[-1500:]})
        json.dump(out, sys.stdout)
    finally:
        shutil.rmtree(tmpdir, ignore_errors=True)


if __name__ == '__main__':
    main()
