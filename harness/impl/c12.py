"""Implementation worker for C12: loads a generated document (harness/gen/c12docs.py), iterates
Scene.objects(kind) for the four kinds, reports what was yielded (structured, integers) and
evaluates the property's clauses directly against the plain-integer reference traversal."""
import io
import json
import math
import sys

import numpy

from harness.gen import c12docs

BAD = 99999989


def iv(v):
    v = float(v)
    if not math.isfinite(v):
        return BAD
    r = round(v)
    return int(r) if abs(v - r) < 1e-4 and abs(r) < 2 ** 40 else BAD


def ints(a):
    return [iv(v) for v in numpy.asarray(a, dtype=numpy.float64).reshape(-1)]


def rows(a):
    a = numpy.asarray(a, dtype=numpy.float64)
    return [[iv(v) for v in r] for r in a.reshape(-1, 3)]


PRIM_KIND = {'BoundTriangleSet': 'triangles', 'BoundPolylist': 'polylist', 'BoundPolygons': 'polygons', 'BoundLineSet': 'lines'}


def observe_prims(A, boundgeom, fails, site):
    out = []
    for bp, p in zip(boundgeom.primitives(), boundgeom.original.primitives):
        kind = PRIM_KIND.get(type(bp).__name__, type(bp).__name__)
        mat = bp.material
        shapes = []
        for sh in bp.shapes():
            shapes.append({'verts': rows(sh.vertices), 'normals': None if sh.normals is None else rows(sh.normals),
                           'material': 0 if sh.material is None else A.get(sh.material.id, BAD)})
        out.append({'kind': kind, 'material': 0 if mat is None else A.get(mat.id, BAD),
                    'verts': [] if bp.vertex is None else rows(bp.vertex),
                    'normals': None if bp.normal is None else rows(bp.normal), 'shapes': shapes})
        # index arrays are unchanged by binding
        for name in ('index', 'vertex_index', 'normal_index'):
            a, b = getattr(bp, name, None), getattr(p, name, None)
            same = (a is None and b is None) or (a is not None and b is not None and numpy.array_equal(numpy.asarray(a), numpy.asarray(b)))
            if not same and len(fails) < 4:
                fails.append({'clause': 'index-unchanged', 'site': kind,
                              'detail': '%s of the bound %s differs from the primitive\'s' % (name, kind)})
    return out


LIGHT_CLASS = {'BoundPointLight': 0, 'BoundDirectionalLight': 1, 'BoundSpotLight': 2, 'BoundAmbientLight': 3}


def target_of(A, kind, o):
    if kind == 'controller' and type(o).__name__ == 'BoundSkin':
        return A.get(o.skin.id, BAD)
    return A.get(o.original.id, BAD)


def inspect(A, kind, o, fails):
    """everything the property talks about, read off one bound object"""
    if kind == 'geometry':
        return {'target': target_of(A, kind, o), 'M': ints(o.matrix), 'prims': observe_prims(A, o, fails, 'geometry')}
    if kind == 'controller':
        if type(o).__name__ == 'BoundSkin':
            return {'target': target_of(A, kind, o), 'M': ints(o.matrix),
                    'skin': {'M': ints(o.geometry.matrix), 'prims': observe_prims(A, o.geometry, fails, 'controller')}}
        return {'target': target_of(A, kind, o), 'M': ints(o.matrix), 'skin': None}
    if kind == 'camera':
        return {'target': target_of(A, kind, o), 'M': ints(o.matrix), 'pos': ints(o.position), 'dir': ints(o.direction),
                'up': ints(o.up)}
    g = lambda n: None if getattr(o, n, None) is None else ints(getattr(o, n))
    return {'target': target_of(A, kind, o), 'kind': LIGHT_CLASS.get(type(o).__name__, 9),
            'pos': g('position'), 'dir': g('direction'), 'up': g('up')}


def brief(A, kind, o):
    """identity of a yielded object at the moment it is yielded: target and placement"""
    if kind == 'light':
        g = lambda n: None if getattr(o, n, None) is None else ints(getattr(o, n))
        return [target_of(A, kind, o), g('position'), g('direction')]
    return [target_of(A, kind, o), ints(o.matrix)]


def brief_of_struct(kind, s):
    if kind == 'light':
        return [s['target'], s['pos'], s['dir']]
    return [s['target'], s['M']]


def observe(doc, A, fails):
    """The main observation COLLECTS each traversal first (list(scene.objects(kind))) and inspects the objects
    afterwards - the usual way of using the result, and the one in which an object must not depend on
    anything the traversal did after yielding it.  Then the same traversals are repeated streaming,
    interleaved with one another, and with a suspended traversal in the background."""
    sc = doc.scene
    obs = {}
    for kind in c12docs.KINDS:
        objs = list(sc.objects(kind))
        obs[kind] = [inspect(A, kind, o, fails) for o in objs]
    want = {k: [brief_of_struct(k, x) for x in obs[k]] for k in c12docs.KINDS}

    def differ(site, kind, got):
        if got != want[kind] and len(fails) < 4:
            fails.append({'clause': 'one-per-path-in-order', 'site': site,
                          'detail': 'Scene.objects(%r) %s yielded %d objects %r; collected first it yields %d: %r'
                                    % (kind, site, len(got), got[:4], len(want[kind]), want[kind][:4])})
    # streaming: every object looked at the moment it is yielded
    for kind in c12docs.KINDS:
        differ('streamed', kind, [brief(A, kind, o) for o in sc.objects(kind)])
    # a traversal suspended after its first object must not disturb (or be disturbed by) a complete one
    g = sc.objects('geometry')
    head = [brief(A, 'geometry', o) for o in [next(g, None)] if o is not None]
    for kind in ('geometry', 'light'):
        differ('beside-a-suspended-traversal', kind, [brief(A, kind, o) for o in sc.objects(kind)])
    differ('resumed-after-suspension', 'geometry', head + [brief(A, 'geometry', o) for o in g])
    # two traversals advanced alternately
    for k1, k2 in (('geometry', 'geometry'), ('geometry', 'light'), ('controller', 'camera')):
        g1, g2 = sc.objects(k1), sc.objects(k2)
        r1, r2, live1, live2 = [], [], True, True
        while live1 or live2:
            if live1:
                o = next(g1, None)
                live1 = o is not None
                if live1:
                    r1.append(brief(A, k1, o))
            if live2:
                o = next(g2, None)
                live2 = o is not None
                if live2:
                    r2.append(brief(A, k2, o))
        differ('interleaved-with-%s' % k2, k1, r1)
        differ('interleaved-with-%s' % k1, k2, r2)
    return obs


def compare(kind, got, want, fails):
    """the property's clauses, one by one"""
    def fail(clause, site, detail):
        if len(fails) < 4:
            fails.append({'clause': clause, 'site': site, 'detail': detail[:1200]})
    gt, wt = [g['target'] for g in got], [w['target'] for w in want]
    if gt != wt:
        fail('one-per-path-in-order', kind, 'Scene.objects(%r) yielded targets %r; the instance paths in document order are %r'
             % (kind, gt, wt))
        return
    for i, (g, w) in enumerate(zip(got, want)):
        if kind != 'light' and g['M'] != w['M']:
            fail('matrix', kind, 'object %d (target %d): matrix %r, product of the node matrices down its path %r'
                 % (i, g['target'], g['M'], w['M']))
            continue
        if kind == 'camera':
            for n in ('pos', 'dir', 'up'):
                if g[n] != w[n]:
                    fail('camera', n, 'camera %d %s = %r, expected %r for matrix %r' % (g['target'], n, g[n], w[n], w['M']))
        elif kind == 'light':
            if g['kind'] != w['kind']:
                fail('light', 'class', 'light %d bound as kind %r, expected %r' % (g['target'], g['kind'], w['kind']))
            for n in ('pos', 'dir', 'up'):
                if g[n] != w[n]:
                    fail('light', '%s-%s' % (c12docs.LIGHT_KINDS[w['kind']], n),
                         'light %d %s = %r, expected %r' % (g['target'], n, g[n], w[n]))
        else:
            gp = g['prims'] if kind == 'geometry' else (g['skin'] or {}).get('prims')
            wp = w['prims'] if kind == 'geometry' else (w['skin'] or {}).get('prims')
            if kind == 'controller':
                if (g['skin'] is None) != (w['skin'] is None):
                    fail('matrix', 'controller', 'controller %d bound as the wrong class' % g['target'])
                    continue
                if g['skin'] is None:
                    continue
                if g['skin']['M'] != w['skin']['M']:
                    fail('matrix', 'skin-geometry', 'skin %d: geometry bound with %r, expected matrix . bind_shape_matrix = %r'
                         % (g['target'], g['skin']['M'], w['skin']['M']))
                    continue
            if len(gp) != len(wp):
                fail('one-per-path-in-order', 'primitives', '%d bound primitives, geometry has %d' % (len(gp), len(wp)))
                continue
            for j, (a, b) in enumerate(zip(gp, wp)):
                if a['kind'] != b['kind']:
                    fail('one-per-path-in-order', 'primitives', 'primitive %d is a %s, expected %s' % (j, a['kind'], b['kind']))
                    continue
                if a['verts'] != b['verts']:
                    fail('vertices', b['kind'], 'object %d primitive %d: bound vertices %r, R.v+t = %r (matrix %r)'
                         % (i, j, a['verts'], b['verts'], w['M']))
                if a['normals'] != b['normals']:
                    fail('normals', b['kind'], 'object %d primitive %d: bound normals %r, R.n = %r (matrix %r)'
                         % (i, j, a['normals'], b['normals'], w['M']))
                if a['material'] != b['material']:
                    fail('material', b['kind'], 'object %d primitive %d: material %r, the instance binds its symbol to %r'
                         % (i, j, a['material'], b['material']))
                # what iterating the bound primitive hands out
                if [x['verts'] for x in a['shapes']] != [x['verts'] for x in b['shapes']]:
                    fail('vertices', b['kind'] + '-shapes', 'object %d primitive %d: the shapes carry vertices %r, expected %r'
                         % (i, j, [x['verts'] for x in a['shapes']], [x['verts'] for x in b['shapes']]))
                # (a Triangle without normals generates its own face normal: only sourced normals are compared)
                if b['normals'] is not None and [x['normals'] for x in a['shapes']] != [x['normals'] for x in b['shapes']]:
                    fail('normals', b['kind'] + '-shapes', 'object %d primitive %d: the shapes carry normals %r, expected %r'
                         % (i, j, [x['normals'] for x in a['shapes']], [x['normals'] for x in b['shapes']]))
                if any(x['material'] != b['material'] for x in a['shapes']):
                    fail('material', b['kind'] + '-shapes', 'object %d primitive %d: a shape carries material %r, the instance binds its symbol to %r'
                         % (i, j, [x['material'] for x in a['shapes']], b['material']))


def construct(lib, case):
    """The same scene built through the public constructors on top of the loaded libraries, in varying Python
    forms: default arguments with children / transforms / material bindings appended in place afterwards,
    explicit lists, None; several instances of one geometry; instance_node as NodeNode(node)."""
    import collada
    from collada import scene
    empty = dict(case, roots=[], libnodes=[], liborder=[])
    doc = collada.Collada(io.BytesIO(c12docs.render_document(lib, empty)))
    table = c12docs.resolve(case)
    shared = {}
    counter = [case.get('form', 0)]

    def form(n):
        counter[0] = (counter[0] * 7 + 3) % 1009
        return counter[0] % n

    def transform(t):
        if t[0] == 'matrix':
            return scene.MatrixTransform(numpy.array(t[1], dtype=numpy.float32 if form(2) else numpy.float64))
        if t[0] == 'translate':
            return scene.TranslateTransform(t[1], t[2], t[3])
        return scene.ScaleTransform(t[1], t[2], t[3])

    def matnodes(binds):
        return [scene.MaterialNode(sym, doc.materials.get(m), inputs=[]) for sym, m in binds]

    def get_shared(i):
        if i not in shared:
            shared[i] = build(table[i])
        return shared[i]

    def build(n):
        t = n['t']
        if t == 'node':
            kids = [build(c) for c in n['children'] if c['t'] != 'broken']
            trs = [transform(x) for x in n['transforms']]
            f = form(4)
            if f == 0:
                return scene.Node(n['id'], children=kids, transforms=trs)
            if f == 1:
                nd = scene.Node(n['id'], transforms=trs)          # default children, filled in place
                for k in kids:
                    nd.children.append(k)
                return nd
            if f == 2:
                nd = scene.Node(n['id'], children=kids)           # default transforms, filled in place
                nd.transforms.extend(trs)
                return nd
            nd = scene.Node(n['id'])
            nd.children += kids
            for x in trs:
                nd.transforms.append(x)
            return nd
        if t == 'inst':
            return scene.NodeNode(get_shared(n['ref']))
        if t == 'geom':
            g = doc.geometries.get(n['ref'])
            f = form(4)
            if f == 0:
                return scene.GeometryNode(g, matnodes(n['binds']))
            if f == 1:
                gn = scene.GeometryNode(g)                          # default materials, bound in place afterwards
                for m in matnodes(n['binds']):
                    gn.materials.append(m)
                return gn
            if f == 2:
                gn = scene.GeometryNode(g, None)
                gn.materials.extend(matnodes(n['binds']))
                return gn
            gn = scene.GeometryNode(g, materials=[])
            gn.materials += matnodes(n['binds'])
            return gn
        if t == 'ctrl':
            c = doc.controllers.get(n['ref'])
            if form(2):
                return scene.ControllerNode(c, matnodes(n['binds']))
            cn = scene.ControllerNode(c, [])
            for m in matnodes(n['binds']):
                cn.materials.append(m)
            return cn
        if t == 'light':
            return scene.LightNode(doc.lights.get(n['ref']))
        if t == 'cam':
            return scene.CameraNode(doc.cameras.get(n['ref']))
        return scene.ExtraNode(None)
    for n in case['libnodes']:
        doc.nodes.append(get_shared(n['id']))
    roots = [get_shared(r['id']) for r in case['roots']]
    sc = scene.Scene('built', roots)
    doc.scenes.append(sc)
    doc.scene = sc
    doc.save()            # node matrices of nodes whose transforms were filled in place are computed by save()
    return doc


def run_case(lib, case):
    import collada
    A = c12docs.atoms(lib)
    fails = []
    data = c12docs.render_document(lib, case)
    if case.get('build') == 'construct':
        doc = construct(lib, case)
    elif case.get('ignore'):
        # some instances refer to nothing: loaded with errors ignored they are dropped, the rest is unaffected
        doc = collada.Collada(io.BytesIO(data), ignore=[collada.common.DaeError])
    else:
        doc = collada.Collada(io.BytesIO(data))
    obs = observe(doc, A, fails)
    want = c12docs.expected(lib, case)
    for kind in c12docs.KINDS:
        compare(kind, obs[kind], want[kind], fails)
    flat = {k: [c12docs.flatten(k, s) for s in obs[k]] for k in c12docs.KINDS}
    followups(doc, A, lib, case, fails)
    return {'obs': flat, 'fails': fails}


def followups(doc, A, lib, case, fails):
    from collada import scene

    def differ(clause, site, kind, got, want_structs, what):
        want = [brief_of_struct(kind, x) for x in want_structs]
        if got != want and len(fails) < 4:
            fails.append({'clause': clause if [g[0] for g in got] == [w[0] for w in want] else 'one-per-path-in-order',
                          'site': site, 'detail': '%s: %s objects %r, expected %r' % (what, kind, got[:4], want[:4])})
    # a subtree entered with a matrix of the caller's: every object below is bound with that matrix times its path
    if case.get('enter'):
        ri, tr = case['enter']
        M0 = c12docs.transform_matrix(tr)
        arr = numpy.array(M0, dtype=numpy.float32)
        want = c12docs.expected(lib, case, c12docs.paths(case, only_root=ri, prefix=[M0]))
        root = doc.scene.nodes[ri]
        for kind in ('geometry', 'camera', 'light'):
            differ('matrix', 'subtree-entered-with-a-matrix', kind, [brief(A, kind, o) for o in root.objects(kind, arr)], want[kind],
                   'node %s .objects(%r, M0)' % (case['roots'][ri]['id'], kind))
    # one node's transform list is extended and saved: the next traversal binds with the new node matrix
    nid = case.get('edit_after')
    if nid:
        node = None
        for n in doc.scene.nodes:
            if n.id == nid:
                node = n
        if node is None:
            node = doc.nodes.get(nid)
        t = c12docs.EDIT_TRANSFORM
        node.transforms.append(scene.TranslateTransform(t[1], t[2], t[3]))
        node.save()
        want = c12docs.expected(lib, c12docs.edited(case, nid))
        for kind in ('geometry', 'camera', 'light'):
            differ('matrix', 'after-extending-a-node', kind, [brief(A, kind, o) for o in list(doc.scene.objects(kind))], want[kind],
                   'after appending a translate to node %s and save()' % nid)


class CaseTimeout(BaseException):
    pass


def _alarm(signum, frame):
    raise CaseTimeout()


def main():
    import signal
    payload = json.load(sys.stdin)
    lib = payload['lib']
    per_case = int(payload.get('per_case_timeout', 4))
    hung = 0
    signal.signal(signal.SIGALRM, _alarm)
    out = []
    for case in payload['cases']:
        if hung >= 3:        # do not sit out the timeout on every remaining case
            out.append({'obs': None, 'fails': [{'clause': 'not-run', 'site': 'worker', 'detail': 'skipped after 3 hung cases in this batch'}]})
            continue
        try:
            signal.alarm(per_case)      # a Python-level hang becomes this case's failure, not the batch's
            try:
                out.append(run_case(lib, case))
            finally:
                signal.alarm(0)
        except CaseTimeout:
            hung += 1
            out.append({'obs': None, 'fails': [{'clause': 'crash-or-hang', 'site': 'worker',
                                                'detail': 'no result after %d s' % per_case}]})
        except Exception as e:  # noqa: one failing case must not take the batch down
            out.append({'obs': None, 'fails': [{'clause': 'raises', 'site': type(e).__name__,
                                                'detail': '%s: %s' % (type(e).__name__, e)}]})
    json.dump(out, sys.stdout)


if __name__ == '__main__':
    main()
