"""Implementation worker for C01: interprets constructor programs over pycollada's public API,
runs  M0 -> write -> load M1 -> write -> load M2 -> write  and returns snapshots, bytes digests,
and the raw float/index token streams of the written generations (read with xml.etree, never
with pycollada).  Also: corpus documents (load -> write -> load -> write -> load -> write)."""
import datetime
import hashlib
import io
import json
import sys
import traceback
import xml.etree.ElementTree as ET



def exc_name(e):
    return type(e).__name__


def build(prog):
    import numpy
    import collada
    from collada import asset, camera, geometry, light, material, scene, source
    col = collada.Collada()
    a = prog.get('asset')
    if a is not None:
        contribs = [asset.Contributor(**c) for c in a.get('contributors', [])]
        kw = dict((k, a.get(k)) for k in ('title', 'subject', 'revision', 'keywords', 'unitname', 'unitmeter', 'upaxis'))
        col.assetInfo = asset.Asset(created=datetime.datetime.fromisoformat(a['created']),
                                    modified=datetime.datetime.fromisoformat(a['modified']),
                                    contributors=contribs, **kw)
    images = []
    for im in prog.get('images', []):
        o = material.CImage(im['id'], im['path'], col)
        col.images.append(o)
        images.append(o)
    effects = []
    for e in prog.get('effects', []):
        params = []
        for p in e['params']:
            if p['kind'] == 'surface':
                params.append(material.Surface(p['id'], images[p['image']], p.get('format')))
            else:
                params.append(material.Sampler2D(p['id'], params[p['surface']], p.get('minfilter'), p.get('magfilter')))
        kw = {}
        for k, v in e['props'].items():
            if isinstance(v, dict):
                kw[k] = material.Map(params[v['sampler']], v['texcoord'])
            elif isinstance(v, list):
                kw[k] = tuple(v)
            else:
                kw[k] = v
        bump = None
        if e.get('bumpmap') is not None:
            bump = material.Map(params[e['bumpmap']['sampler']], e['bumpmap']['texcoord'])
        o = material.Effect(e['id'], params, e['shadingtype'], bumpmap=bump, double_sided=e.get('double_sided', False),
                            opaque_mode=e.get('opaque_mode'), **kw)
        col.effects.append(o)
        effects.append(o)
    materials = []
    for m in prog.get('materials', []):
        o = material.Material(m['id'], m['name'], effects[m['effect']])
        col.materials.append(o)
        materials.append(o)
    geoms = []
    for g in prog.get('geometries', []):
        srcs = []
        for s in g['sources']:
            data = numpy.array(s['data'], dtype=numpy.float32 if s['dtype'] == 'f4' else numpy.float64)
            srcs.append(source.FloatSource(s['id'], data, tuple(s['components'])))
        geom = geometry.Geometry(col, g['id'], g['name'], srcs, double_sided=g.get('double_sided', False))
        for p in g['prims']:
            il = source.InputList()
            for off, sem, src, st in p['inputs']:
                il.addInput(off, sem, '#' + src, st)
            form = p.get('index_form', 'array')
            if p['kind'] == 'polygons':
                idx = [numpy.array(poly, dtype=numpy.int32) for poly in p['index']]
                prim = geom.createPolygons(idx, il, p.get('material'))
            else:
                idx = numpy.array(p['index'], dtype=numpy.int64 if form == 'int64' else numpy.int32)
                if p['kind'] == 'triangles':
                    prim = geom.createTriangleSet(idx, il, p.get('material'))
                elif p['kind'] == 'lines':
                    prim = geom.createLineSet(idx, il, p.get('material'))
                else:
                    prim = geom.createPolylist(idx, numpy.array(p['vcounts'], dtype=numpy.int32), il, p.get('material'))
            geom.primitives.append(prim)
        col.geometries.append(geom)
        geoms.append(geom)
    lights = []
    for l in prog.get('lights', []):
        k = l['kind']
        color = tuple(l['color'])
        if l.get('form') == 'list':
            color = list(l['color'])
        elif l.get('form') == 'nparray':
            color = numpy.array(l['color'], dtype=numpy.float64)
        elif l.get('form') == 'np64':
            color = tuple(numpy.float64(v) for v in l['color'])
        if l.get('form') in ('np64', 'nparray') and 'params' in l:
            l = dict(l, params=dict((kk, numpy.float64(v)) for kk, v in l['params'].items()))
        if k == 'ambient':
            o = light.AmbientLight(l['id'], color)
        elif k == 'directional':
            o = light.DirectionalLight(l['id'], color)
        elif k == 'point':
            o = light.PointLight(l['id'], color, **l.get('params', {}))
        else:
            o = light.SpotLight(l['id'], color, **l.get('params', {}))
        col.lights.append(o)
        lights.append(o)
    cameras = []
    for c in prog.get('cameras', []):
        if c.get('form') == 'np64':
            c = dict(c, znear=numpy.float64(c['znear']), zfar=numpy.float64(c['zfar']),
                     params=dict((kk, numpy.float64(v)) for kk, v in c.get('params', {}).items()))
        if c['kind'] == 'perspective':
            o = camera.PerspectiveCamera(c['id'], c['znear'], c['zfar'], **c.get('params', {}))
        else:
            o = camera.OrthographicCamera(c['id'], c['znear'], c['zfar'], **c.get('params', {}))
        col.cameras.append(o)
        cameras.append(o)
    byid = {}

    def transform(t):
        k, p = t['kind'], t['params']
        form = t.get('form', 'py')
        if k in ('translate', 'rotate', 'scale'):
            # the Python forms a caller's numbers come in: floats, ints, numpy scalars (elements
            # of arrays, results of numpy functions)
            if form == 'np64':
                p = [numpy.float64(v) for v in p]
            elif form == 'np32':
                p = [numpy.float32(v) for v in p]
            elif form == 'nparray':
                p = list(numpy.array(p, dtype=numpy.float64))
            elif form == 'int' and all(float(v).is_integer() for v in p):
                p = [int(v) for v in p]
        if k == 'translate':
            return scene.TranslateTransform(*p)
        if k == 'rotate':
            return scene.RotateTransform(*p)
        if k == 'scale':
            return scene.ScaleTransform(*p)
        if k == 'matrix':
            return scene.MatrixTransform(numpy.array(p, dtype=numpy.float32 if t.get('dtype') == 'f4' else numpy.float64))
        if k == 'lookat':
            return scene.LookAtTransform(numpy.array(p[0:3]), numpy.array(p[3:6]), numpy.array(p[6:9]))
        raise ValueError(k)

    def node(n):
        if 'inst' in n:
            k = n['inst']
            if k == 'geometry':
                mats = [scene.MaterialNode(m['symbol'], materials[m['target']], [tuple(i) for i in m['inputs']])
                        for m in n.get('materials', [])]
                return scene.GeometryNode(geoms[n['idx']], mats)
            if k == 'light':
                return scene.LightNode(lights[n['idx']])
            if k == 'camera':
                return scene.CameraNode(cameras[n['idx']])
            if k == 'node':
                return scene.NodeNode(ensure(n['ref']))
            raise ValueError(k)
        o = scene.Node(n['id'], children=[node(c) for c in n.get('children', [])],
                       transforms=[transform(t) for t in n.get('transforms', [])], name=n.get('name'))
        byid[n['id']] = o
        return o

    # top-level nodes (library and scenes) may instantiate one another in any order (forward
    # references in the document): a target is built on demand, placed in document order
    tops = {}

    def register(spec, top):
        if 'inst' in spec:
            return
        tops[spec['id']] = top
        for c in spec.get('children', []):
            register(c, top)
    for n in prog.get('nodes', []):
        register(n, n)
    for s in prog.get('scenes', []):
        for n in s['nodes']:
            register(n, n)
    building = set()

    def ensure(nid):
        if nid not in byid:
            top = tops[nid]
            if top['id'] in building:
                raise ValueError('cyclic or self-nested instance_node in program: %s' % nid)
            building.add(top['id'])
            node(top)
            building.discard(top['id'])
        return byid[nid]

    for n in prog.get('nodes', []):
        col.nodes.append(ensure(n['id']))
    for s in prog.get('scenes', []):
        col.scenes.append(scene.Scene(s['id'], [ensure(n['id']) for n in s['nodes']]))
    if prog.get('scene') is not None:
        col.scene = col.scenes[prog['scene']]
    return col


def local(tag):
    return tag.rsplit('}', 1)[-1]


def children(el, name):
    return [c for c in el if local(c.tag) == name]


def descendants(el, name):
    return [c for c in el.iter() if local(c.tag) == name]


def streams(data):
    """float_array and <p>/<vcount> token streams of a written document, per geometry in order
    (namespace-agnostic; xml.etree only)"""
    out = {'floats': [], 'ints': [], 'ns': None}
    root = ET.fromstring(data)
    out['ns'] = root.tag[1:].split('}')[0] if root.tag.startswith('{') else ''
    for g in descendants(root, 'geometry'):
        for s in descendants(g, 'source'):
            fa = children(s, 'float_array')
            if fa:
                out['floats'].append([g.get('id'), s.get('id'), (fa[0].text or '').split()])
        for mesh in children(g, 'mesh'):
            for prim in mesh:
                if local(prim.tag) in ('triangles', 'lines', 'polylist', 'polygons'):
                    toks = []
                    for p in children(prim, 'p'):
                        toks.extend((p.text or '').split())
                    vc = children(prim, 'vcount')
                    out['ints'].append([g.get('id'), local(prim.tag), toks,
                                        None if not vc else (vc[0].text or '').split()])
    return out


NS141 = b'http://www.collada.org/2005/11/COLLADASchema'
NS15 = b'http://www.collada.org/2008/03/COLLADASchema'


def derive(data, how):
    """documents the constructors cannot make: another namespace, no <scene> element"""
    if how == 'ns15':
        assert data.count(NS141) >= 1
        return data.replace(NS141, NS15)
    if how == 'noscene':
        root = ET.fromstring(data)
        for c in list(root):
            if local(c.tag) == 'scene':
                root.remove(c)
        ET.register_namespace('', NS141.decode())
        return ET.tostring(root)
    raise ValueError(how)


def write(col):
    buf = io.BytesIO()
    col.write(buf)
    return buf.getvalue()


def apply_edits(col, ops):
    """edits of the live model between two writes: in-place numpy edits of the arrays a user
    holds (source.data and the primitive's bound views of it) and plain attribute edits"""
    import numpy
    from collada import scene
    for op in ops:
        k = op['op']
        if k == 'scene_none':
            col.scene = None
            continue
        if k == 'scene_set':
            if len(col.scenes):
                col.scene = col.scenes[op['i'] % len(col.scenes)]
            continue
        if k == 'asset_title':
            col.assetInfo.title = op['v']
            continue
        if k == 'light_color':
            if len(col.lights):
                col.lights[op['i'] % len(col.lights)].color = tuple(op['v'])
            continue
        if k == 'camera_znear':
            if len(col.cameras):
                col.cameras[op['i'] % len(col.cameras)].znear = op['v']
            continue
        if k == 'effect_float':
            if len(col.effects):
                setattr(col.effects[op['i'] % len(col.effects)], op['prop'], op['v'])
            continue
        if k == 'material_name':
            if len(col.materials):
                col.materials[op['i'] % len(col.materials)].name = op['v']
            continue
        if k == 'node_name' or k == 'node_transform':
            tops = [n for sc in col.scenes for n in sc.nodes if isinstance(n, scene.Node)] + \
                   [n for n in col.nodes if isinstance(n, scene.Node)]
            if tops:
                n = tops[op['i'] % len(tops)]
                if k == 'node_name':
                    n.name = op['v']
                else:
                    n.transforms.insert(op['pos'] % (len(n.transforms) + 1), scene.TranslateTransform(*op['v']))
            continue
        geoms = list(col.geometries)
        if not geoms:
            continue
        g = geoms[op['geom'] % len(geoms)]
        if k == 'double_sided':
            g.double_sided = not g.double_sided
            continue
        srcs = sorted((s for s in {id(x): x for x in g.sourceById.values() if hasattr(x, 'components')}.values()),
                      key=lambda x: str(x.id))
        if k in ('scale', 'set', 'fill', 'add'):
            if not srcs:
                continue
            src = srcs[op['src'] % len(srcs)]
            d = src.data
            if d.size == 0:
                continue
            if k == 'scale':
                d *= op['k']
            elif k == 'add':
                d += op['k']
            elif k == 'set':
                d[op['row'] % d.shape[0], op['col'] % d.shape[1]] = op['v']
            else:
                d[...] = numpy.resize(numpy.array(op['values'], dtype=d.dtype), d.shape)
        elif k == 'vertex':
            prims = [p for p in g.primitives if getattr(p, 'vertex', None) is not None and len(p.vertex)]
            if not prims:
                continue
            pr = prims[op['prim'] % len(prims)]
            pr.vertex[op['row'] % len(pr.vertex)] = op['v']
        elif k == 'normal':
            prims = [p for p in g.primitives if getattr(p, 'normal', None) is not None and len(p.normal)]
            if not prims:
                continue
            pr = prims[op['prim'] % len(prims)]
            pr.normal[op['row'] % len(pr.normal)] = op['v']


def run_pipeline(first, want_streams=True, edits=None):
    """first() -> Collada (M0 built, or M1 loaded).  With `edits` (rounds of in-place array
    edits) the model is first written, edited, written, edited ...: the state after the last
    edit is the model M0 the clauses talk about.  Returns the per-stage record."""
    import collada
    from harness.impl.c01_snapshot import snapshot
    rec = {'stage': None, 'error': None, 'snaps': [], 'digests': [], 'streams': [], 'sizes': []}
    stage = 'build'
    try:
        col = first()
        for ri, ops in enumerate(edits or []):
            stage = 'prewrite%d' % ri
            write(col)
            stage = 'edit%d' % ri
            apply_edits(col, ops)
        rec['snaps'].append(snapshot(col))
        for gen in (1, 2, 3):
            stage = 'write%d' % gen
            b = write(col)
            rec['digests'].append(hashlib.sha1(b).hexdigest())
            rec['sizes'].append(len(b))
            if want_streams and gen <= 2:
                rec['streams'].append(streams(b))
            if gen == 3:
                break
            stage = 'load%d' % gen
            col = collada.Collada(io.BytesIO(b))
            rec['snaps'].append(snapshot(col))
    except Exception as e:  # noqa
        rec['stage'] = stage
        rec['error'] = exc_name(e)
        rec['trace'] = traceback.format_exc()[-1500:]
    return rec


def run_prog(prog):
    import collada
    if 'xml' in prog:
        # a document from the independent XML generator: in scope only if it loads
        data = prog['xml'].encode('utf-8')
        try:
            collada.Collada(io.BytesIO(data))
        except Exception as e:  # noqa
            return {'stage': None, 'error': None, 'not_loadable': exc_name(e), 'snaps': [], 'digests': [],
                    'streams': [], 'sizes': []}
        rec = run_pipeline(lambda: collada.Collada(io.BytesIO(data)), edits=prog.get('_edits'))
        rec['derived'] = 'xml'
        return rec
    how = prog.get('_derive')
    if how is None:
        return run_pipeline(lambda: build(prog), edits=prog.get('_edits'))
    data = derive(write(build(prog)), how)
    rec = run_pipeline(lambda: collada.Collada(io.BytesIO(data)), edits=prog.get('_edits'))
    rec['derived'] = how
    return rec


def run_corpus(path, repo_rel):
    import collada
    rec = {'file': repo_rel, 'loadable': True}
    try:
        collada.Collada(path)
    except Exception as e:  # noqa
        rec['loadable'] = False
        rec['load_error'] = exc_name(e)
        return rec
    from harness.impl.c01_compare import diff
    rec.update(run_pipeline(lambda: collada.Collada(path), want_streams=False))
    # the shipped documents are large: compare here and return the differences and a summary
    snaps = rec.pop('snaps')
    rec['summary'] = [{'libs': dict((k, len(v)) for k, v in s.items() if isinstance(v, list)),
                       'scene': s.get('scene'), 'errors': s.get('errors')} for s in snaps]
    rec['nsnaps'] = len(snaps)
    if len(snaps) >= 2:
        rec['diff01'] = diff(snaps[0], snaps[1], approx=True)
    if len(snaps) >= 3:
        rec['diff12'] = diff(snaps[1], snaps[2], approx=False)
    return rec


def main():
    payload = json.load(sys.stdin)
    out = []
    if 'corpus' in payload:
        for path, rel in payload['corpus']:
            try:
                out.append(run_corpus(path, rel))
            except Exception as e:  # noqa
                out.append({'file': rel, 'loadable': True, 'stage': 'worker', 'error': exc_name(e),
                            'trace': traceback.format_exc()[-1500:], 'digests': [], 'nsnaps': 0})
        json.dump(out, sys.stdout)
        return
    for prog in payload['cases']:
        try:
            out.append(run_prog(prog))
        except Exception as e:  # noqa
            out.append({'stage': 'worker', 'error': exc_name(e), 'trace': traceback.format_exc()[-1500:],
                        'snaps': [], 'digests': [], 'streams': [], 'sizes': []})
    json.dump(out, sys.stdout)


if __name__ == '__main__':
    main()
