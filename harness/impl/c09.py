"""Implementation worker for C09 (and the primitive builder shared with C10).

A case describes, abstractly, a geometry's sources, an input layout and an index stream; the
worker builds the primitive through the PUBLIC API -- Geometry.create{TriangleSet,LineSet,
Polylist,Polygons} with FloatSources and an InputList, or by loading a small COLLADA document
from bytes -- and reports (a) canonical observations for the in-Coq comparison with the model
and (b) the direct evaluation of the property's clauses on the implementation (`fails`).

case = {'kind': 'tri'|'line'|'polylist'|'polygons', 'via': 'create'|'xml',
        'srcs': [[nrows, ncomp], ...]               # source i has id 's<i>'
        'inputs': [[offset, SEM, tgt], ...]         # tgt = ['src', i] | ['verts', [[VSEM, i], ...]]
                                                    #       | ['missing'] | ['bad']
        'material': None | int, 'flat': [...], 'vcounts': [...], 'polys': [[...], ...]}
   or  {'kind': 'source', 'via': ..., 'n': raw data length, 'ncomp': components}
"""
import io
import json
import sys

SEMS = ['VERTEX', 'NORMAL', 'TEXCOORD', 'TEXBINORMAL', 'TEXTANGENT', 'COLOR', 'TANGENT', 'BINORMAL']
COMPS = {0: (), 1: ('A',), 2: ('S', 'T'), 3: ('X', 'Y', 'Z'), 4: ('R', 'G', 'B', 'A')}
KK = {'tri': 3, 'line': 2, 'polylist': 1, 'polygons': 1}
NS = 'http://www.collada.org/2005/11/COLLADASchema'


def exc_code(e):
    import collada.common as cc
    table = [(cc.DaeIncompleteError, 1), (cc.DaeBrokenRefError, 2), (cc.DaeMalformedError, 3),
             (cc.DaeUnsupportedError, 4), (cc.DaeSaveValidationError, 5), (cc.DaeError, 6),
             (IndexError, 7), (KeyError, 8), (TypeError, 9), (ValueError, 10), (AttributeError, 11)]
    for cls, code in table:
        if isinstance(e, cls):
            return code
    return 12


def val(sid, r, c):
    """data of source sid at (row r, component c): small integers, exact as float32; the Coq
    side (Check/PrimCase.v, mk_rows) uses the same formula"""
    return 97 * sid + 7 * r + c + 1


def src_data(sid, nrows, ncomp):
    return [val(sid, r, c) for r in range(nrows) for c in range(ncomp)]


def ref_of(tgt):
    if tgt[0] == 'src':
        return '#s%d' % tgt[1]
    if tgt[0] == 'verts':
        return '#verts'
    if tgt[0] == 'missing':
        return '#nope'
    return 'x'


# ---------------------------------------------------------------- building

def make_data(flat, n, nc, form, numpy):
    """the same values in the Python forms a caller may hand to FloatSource: flat (documented),
    already shaped (right or other row width), float64, non-contiguous slices of a bigger table"""
    a = numpy.array(flat, dtype=numpy.float32)
    if form == 'rows':
        return a.reshape(-1, nc)
    if form.startswith('wide'):
        return a.reshape(-1, int(form[4:]))
    if form == 'f64':
        return a.astype(numpy.float64)
    if form == 'f64x':
        # double precision values that single precision cannot represent (direct-oracle probes only)
        return numpy.array(flat, dtype=numpy.float64) / 3.0 + 16777217.0
    if form == 'strided':
        big = numpy.zeros(2 * len(flat), dtype=numpy.float32)
        big[::2] = a
        return big[::2]
    if form == 'strided2d':
        big = numpy.zeros((n, 2 * nc), dtype=numpy.float32)
        big[:, :nc] = a.reshape(-1, nc)
        return big[:, :nc]
    return a


def build_create(case):
    """-> (callable constructing the primitive, doc)"""
    import numpy
    import collada
    from collada import source
    doc = collada.Collada()
    df = case.get('dforms') or {}
    srcs = [source.FloatSource('s%d' % i, make_data(src_data(i, n, nc), n, nc, df.get(str(i), 'flat'), numpy), COMPS[nc])
            for i, (n, nc) in enumerate(case['srcs'])]
    geom = collada.geometry.Geometry(doc, 'g0', 'g0', srcs)
    il = source.InputList()
    sets = case.get('sets') or [None] * len(case['inputs'])
    for (off, sem, tgt), st in zip(case['inputs'], sets):
        il.addInput(off, sem, ref_of(tgt), st)
    mat = None if case.get('material') is None else 'mat%d' % case['material']
    kind = case['kind']
    nsaves = case.get('saves', 0)
    for _ in range(nsaves):
        # the document / its sources are saved (possibly several times, nothing changed in between)
        # before the primitive is made: saving must leave the sources as they are
        for sobj in srcs:
            sobj.save()
        try:
            geom.save()
        except Exception:  # noqa  (saving a geometry without primitives is not this property's subject)
            pass
    main = _maker(case, case, geom, il, mat, numpy)
    pre = [_maker(case, dict(case, **st), geom, il, mat, numpy) for st in case.get('prelude') or []]

    def go():
        # earlier constructions on the same geometry / sources / input list; their outcome is irrelevant
        for mk in pre:
            try:
                mk()
            except Exception:  # noqa
                pass
        return main()
    return go


def _maker(case0, case, geom, il, mat, numpy):
    kind = case0['kind']
    # argument forms: the index dtype (int32 like the loaders, int64 = numpy's default, uint32)
    # and vcounts as an array or a plain list; values go up to 2**31 - 1
    dt = {'int32': numpy.int32, 'int64': numpy.int64, 'uint32': numpy.uint32}[case.get('dtype', 'int32')]
    if kind == 'tri':
        return lambda: geom.createTriangleSet(numpy.array(case['flat'], dtype=dt), il, mat)
    if kind == 'line':
        return lambda: geom.createLineSet(numpy.array(case['flat'], dtype=dt), il, mat)
    if kind == 'polylist':
        vf = case.get('vcform', 'array')
        vc = list(case['vcounts']) if vf == 'list' else \
            numpy.array(case['vcounts'], dtype=numpy.int32 if vf == 'array' else getattr(numpy, vf))
        return lambda: geom.createPolylist(numpy.array(case['flat'], dtype=dt), vc, il, mat)
    pd = case.get('pdtypes')
    if pd and len(pd) == len(case['polys']):
        # every polygon array in its own integer dtype (each wide enough for its own values)
        return lambda: geom.createPolygons([numpy.array(p, dtype=getattr(numpy, d)) for p, d in zip(case['polys'], pd)], il, mat)
    return lambda: geom.createPolygons([numpy.array(p, dtype=dt) for p in case['polys']], il, mat)


def xml_source(i, n, nc, raw=None, names=None, attrs=None):
    names = COMPS[nc] if names is None else names
    if raw is None and list(names) == ['S', 'T', 'P'] and nc == 2:
        data = [val(i, r, c) for r in range(n) for c in range(3)]      # the loader keeps columns 0 and 1
    else:
        data = src_data(i, n, nc) if raw is None else raw
    params = ''.join(('<param name="%s" type="float"/>' % c) if c else '<param type="float"/>' for c in names)
    return ('<source id="s%d"><float_array id="s%d-array" count="%d">%s</float_array><technique_common>'
            '<accessor source="#s%d-array" count="%d" stride="%s">%s</accessor></technique_common></source>'
            % (i, i, len(data), ' '.join(str(x) for x in data), i,
               n if attrs is None else attrs[2], ('%d' % len(names)) if attrs is None else '%d" offset="%d' % (attrs[0], attrs[1]),
               params))


def form_names(form, nc):
    if form == 'uv':
        return ['U', 'V']
    if form == 'stp':
        return ['S', 'T', 'P']
    if form == 'unnamed':
        return [None] * nc
    if form == 'partial':
        return [None] + list(COMPS[nc][1:])
    return list(COMPS[nc])


def xml_doc(case):
    parts = ['<?xml version="1.0" encoding="utf-8"?>\n<COLLADA xmlns="%s" version="1.4.1">'
             '<asset><created>2020-01-01T00:00:00Z</created><modified>2020-01-01T00:00:00Z</modified></asset>'
             '<library_geometries><geometry id="g0" name="g0"><mesh>' % NS]
    if case['kind'] == 'source':
        n, nc = case['n'], case['ncomp']
        parts.append(xml_source(0, n // max(nc, 1), nc, raw=list(range(1, n + 1)),
                                names=form_names(case.get('form', 'std'), nc)))
        parts.append('<vertices id="verts"><input semantic="POSITION" source="#s0"/></vertices>')
    else:
        pn = case.get('pnames') or {}
        for i, (n, nc) in enumerate(case['srcs']):
            parts.append(xml_source(i, n, nc, names=pn.get(str(i)), attrs=(case.get('acc_attrs') or {}).get(str(i))))
        verts = None
        for off, sem, tgt in case['inputs']:
            if tgt[0] == 'verts':
                verts = tgt[1]
        if verts is not None:
            parts.append('<vertices id="verts">%s</vertices>' % ''.join(
                '<input semantic="%s" source="#s%d"/>' % (vs, i) for vs, i in verts))
        tagname = {'tri': 'triangles', 'line': 'lines', 'polylist': 'polylist', 'polygons': 'polygons'}[case['kind']]
        mat = '' if case.get('material') is None else ' material="mat%d"' % case['material']
        parts.append('<%s count="0"%s>' % (tagname, mat))
        sets = case.get('sets')
        for k, (off, sem, tgt) in enumerate(case['inputs']):
            st = k if sets is None else sets[k]
            parts.append('<input offset="%d" semantic="%s" source="%s"%s/>'
                         % (off, sem, ref_of(tgt), '' if st is None else ' set="%s"' % st))
        if case['kind'] == 'polylist':
            parts.append('<vcount>%s</vcount>' % ' '.join(str(x) for x in case['vcounts']))
        if case['kind'] == 'polygons':
            for p in case['polys']:
                parts.append('<p>%s</p>' % ' '.join(str(x) for x in p))
        else:
            parts.append('<p>%s</p>' % ' '.join(str(x) for x in case['flat']))
        parts.append('</%s>' % tagname)
    parts.append('</mesh></geometry></library_geometries></COLLADA>')
    return ''.join(parts).encode('utf-8')


def build_xml(case):
    import collada
    data = xml_doc(case)

    def go():
        doc = collada.Collada(io.BytesIO(data))
        return doc.geometries[0].primitives[0]
    return go


def construct(case):
    """-> (primitive or None, exception or None)"""
    try:
        mk = build_xml(case) if case['via'] == 'xml' else build_create(case)
        return mk(), None
    except Exception as e:  # noqa
        return None, e


# ---------------------------------------------------------------- independent judgement

def effective_inputs(case):
    """the inputs after <vertices> dereferencing, computed from the case alone (plain lists):
    [(offset, SEM, sid)] or None when some reference does not resolve"""
    out, queued = [], []
    for off, sem, tgt in case['inputs']:
        if tgt[0] in ('missing', 'bad'):
            return None
        if tgt[0] == 'verts':
            if sem == 'VERTEX':
                for vs, i in tgt[1]:
                    queued.append((off, 'VERTEX' if vs == 'POSITION' else vs, i))
        else:
            out.append((off, sem, tgt[1]))
    return out + queued


def stream_of(case, nind):
    if case['kind'] == 'polygons':
        flat = [x for p in case['polys'] for x in p]
        return flat, [len(p) // nind for p in case['polys']]
    return list(case['flat']), list(case.get('vcounts') or [])


def exposed_of(kind, eff):
    """[(offset, sid, expected component count, label)] of the inputs whose index column must be in
    range of a source with the right component count (property text: vertex, normal, each texcoord,
    tangent and binormal set).  Triangles expose their tangent / binormal sets; polylists and polygons
    hand them to triangleset(), so the constructor validates EVERY such input there too, paired with an
    input of the other semantic or not.  Line sets neither expose nor validate them (documented in
    notes/C09.md): no demand."""
    out = []
    for sem, ncomp, only_first in (('VERTEX', 3, True), ('NORMAL', 3, True), ('TEXCOORD', 2, False)) + \
            ((('TEXTANGENT', 3, False), ('TEXBINORMAL', 3, False)) if kind in ('tri', 'polylist', 'polygons') else ()):
        b = [(off, i) for off, s, i in eff if s == sem]
        if only_first:
            b = b[:1]
        for j, (off, i) in enumerate(b):
            out.append((off, i, ncomp, '%s%d' % (sem, j)))
    return out


def source_stride(case):
    # the S,T,P form only exists on the load path (the loader's normalising branch)
    return 3 if case.get('form') == 'stp' and case['via'] == 'xml' else case['ncomp']


def judge(case):
    """Which of the defects listed in the property the input has (empty list: none).
    None when the property makes no demand (unresolved references, no vertex input)."""
    if case['kind'] == 'source':
        stride = source_stride(case)
        return ['stride'] if stride > 0 and case['n'] % stride != 0 else []
    eff = effective_inputs(case)
    if eff is None or not any(s == 'VERTEX' for _, s, _ in eff):
        return None
    nind = max(off for off, _, _ in eff) + 1
    k = KK[case['kind']]
    flat, vcounts = stream_of(case, nind)
    bad = []
    if case['kind'] == 'polygons' and any(len(p) % nind for p in case['polys']):
        bad.append('ragged')
    if len(flat) % (k * nind) != 0:
        if 'ragged' not in bad:
            bad.append('ragged')
        return bad
    ncorners = len(flat) // nind
    if k == 1 and sum(vcounts) != ncorners:
        bad.append('vcount')
    if ncorners > 0:
        for off, i, ncomp, label in exposed_of(case['kind'], eff):
            n, nc = case['srcs'][i]
            column = flat[off::nind]
            if max(column) >= n:
                bad.append('out-of-range')
            if nc != ncomp:
                bad.append('components')
    return sorted(set(bad))


# ---------------------------------------------------------------- observation + oracle

def views_of(p, kind):
    """[(tag, data array, index array)] of everything the primitive exposes"""
    out = []
    if p.vertex_index is not None or p.vertex is not None:
        out.append((0, p.vertex, p.vertex_index))
    if p.normal_index is not None or p.normal is not None:
        out.append((1, p.normal, p.normal_index))
    for d, ix in zip(p.texcoordset, p.texcoord_indexset):
        out.append((2, d, ix))
    if len(p.texcoordset) != len(p.texcoord_indexset):
        out.append((2, None, None))
    if kind == 'tri':
        for d, ix in zip(p.textangentset, p.textangent_indexset):
            out.append((3, d, ix))
        for d, ix in zip(p.texbinormalset, p.texbinormal_indexset):
            out.append((4, d, ix))
    return out


def check_views(p, kind, nrows, k, after):
    """observations of every exposed (array, index) pair and the in-range / shape clauses on them"""
    import numpy
    views, fails = [], []
    for tag, d, ix in views_of(p, kind):
        if d is None or ix is None:
            fails.append({'clause': 'shape', 'defect': 'half-view' + after, 'site': kind, 'got': 'tag%d' % tag,
                          'detail': 'array/index pair incomplete for view tag %d' % tag})
            continue
        d = numpy.asarray(d)
        ix = numpy.asarray(ix)
        views.append([tag, int(d.shape[0]), int(d.shape[1]) if d.ndim == 2 else 0, [int(x) for x in ix.shape],
                      [int(x) for x in ix.flatten().tolist()]])
        # clause: documented shapes
        want_shape = (nrows, k) if k > 1 else (nrows,)
        want_comp = 2 if tag == 2 else 3
        if tuple(ix.shape) != want_shape:
            fails.append({'clause': 'shape', 'defect': 'index-shape' + after, 'site': kind, 'got': 'tag%d' % tag,
                          'detail': 'index array of view %d has shape %r, documented %r' % (tag, tuple(ix.shape), want_shape)})
        if d.ndim != 2 or d.shape[1] != want_comp:
            fails.append({'clause': 'shape', 'defect': 'data-shape' + after, 'site': kind, 'got': 'tag%d' % tag,
                          'detail': 'data array of view %d has shape %r, documented (N, %d)' % (tag, tuple(d.shape), want_comp)})
        # clause: every entry is a valid position, so source[index] never fails
        flat = ix.flatten()
        if flat.size and (int(flat.max()) >= d.shape[0] or int(flat.min()) < 0):
            fails.append({'clause': 'in-range', 'defect': 'index-beyond-source' + after, 'site': kind, 'got': 'tag%d' % tag,
                          'detail': 'view %d: index max %d but the array has %d rows' % (tag, int(flat.max()), d.shape[0])})
        else:
            try:
                sel = d[ix]
                if sel.shape[:ix.ndim] != ix.shape:
                    raise IndexError('selection has shape %r' % (sel.shape,))
            except Exception as e:  # noqa
                fails.append({'clause': 'in-range', 'defect': 'selection-raises' + after, 'site': kind, 'got': 'tag%d' % tag,
                              'detail': 'source[index] raised %r for view %d' % (e, tag)})
    return views, fails


def run_case(case):
    import numpy
    import collada.common as cc
    bad = judge(case)
    if case['kind'] == 'source':
        from collada import source
        acc = None
        try:
            if case['via'] == 'xml':
                import collada
                doc = collada.Collada(io.BytesIO(xml_doc(case)))
                src = doc.geometries[0].sourceById['s0']
                d = numpy.asarray(src.data)
                acc = [int(len(src)), int(d.shape[1]) if d.ndim == 2 else 0,
                       [[int(x) if float(x).is_integer() else 999999937 for x in row] for row in d.tolist()]]
            else:
                source.FloatSource('s0', numpy.arange(case['n'], dtype=numpy.float32), COMPS[case['ncomp']])
            exc = None
        except Exception as e:  # noqa
            exc = e
        fails = []
        if bad and not isinstance(exc, cc.DaeMalformedError):
            fails.append({'clause': 'not-rejected', 'defect': 'stride', 'site': 'source-' + case.get('form', 'std'),
                          'got': 'accepted' if exc is None else type(exc).__name__,
                          'detail': 'source with %d values, %d params (%s): %r' % (case['n'], case['ncomp'], case.get('form', 'std'), exc)})
        if acc is not None and acc[0] * source_stride(case) != case['n']:
            fails.append({'clause': 'shape', 'defect': 'source-length', 'site': 'source-' + case.get('form', 'std'), 'got': 'accepted',
                          'detail': 'loaded source has %d elements for %d values of stride %d' % (acc[0], case['n'], source_stride(case))})
        return {'code': 0 if exc is None else exc_code(exc), 'acc': acc, 'fails': fails, 'bad': bad}
    p, exc = construct(case)
    kind = case['kind']
    fails = []
    if exc is not None:
        if bad and not isinstance(exc, cc.DaeMalformedError):
            fails.append({'clause': 'not-rejected', 'defect': bad[0], 'site': kind, 'got': type(exc).__name__,
                          'detail': 'input is %s but construction raised %r instead of DaeMalformedError' % (bad, exc)})
        return {'code': exc_code(exc), 'acc': None, 'fails': fails, 'bad': bad, 'exc': repr(exc)[:200]}
    if bad:
        fails.append({'clause': 'not-rejected', 'defect': bad[0], 'site': kind, 'got': 'accepted',
                      'detail': 'input is %s but the primitive was accepted' % (bad,)})
    # ---- accepted: observe and evaluate the clauses
    k = KK[kind]
    nrows = len(p.index)
    views, vf = check_views(p, kind, nrows, k, '')
    fails += vf
    if k == 1:
        nv = int(sum(int(x) for x in p.vcounts))
        if nv != nrows:
            fails.append({'clause': 'shape', 'defect': 'vcount-vs-rows', 'site': kind, 'got': 'accepted',
                          'detail': 'vcounts sum to %d but the index arrays have %d rows' % (nv, nrows)})
    acc = [int(p.nindices), int(nrows), int(len(p)), views]
    if nrows > 0:
        # saving the sources (twice, nothing changed in between) must leave the exposed arrays as they are
        try:
            for _ in range(2):
                for lst in p.sources.values():
                    for inp in lst:
                        inp[4].save()
            saved = True
        except Exception:  # noqa
            saved = False
        if saved:
            fails += check_views(p, kind, nrows, k, '-after-saving-sources')[1]
    if kind == 'tri' and nrows > 0:
        # the public mutators that install new views: the clauses must hold for the views as they are now
        for step in ('generateNormals', 'generateTexTangentsAndBinormals'):
            try:
                getattr(p, step)()
            except Exception:  # noqa  (e.g. no texcoords: not this property's subject)
                continue
            fails += check_views(p, kind, nrows, k, '-after-' + step)[1]
    return {'code': 0, 'acc': acc, 'fails': fails, 'bad': bad}


def main():
    payload = json.load(sys.stdin)
    out = []
    for case in payload['cases']:
        try:
            out.append(run_case(case))
        except BaseException as e:  # noqa  (the oracle itself tripped over what the implementation returned)
            import traceback
            out.append({'code': 98, 'acc': None, 'bad': None,
                        'fails': [{'clause': 'oracle-exception', 'defect': type(e).__name__, 'site': case.get('kind'),
                                   'got': 'exception', 'detail': traceback.format_exc()[-600:]}]})
    json.dump(out, sys.stdout)


if __name__ == '__main__':
    main()
