"""Implementation worker for C13: builds a node from a list of transforms (constructed, or
loaded from generated XML), edits node.transforms, saves, writes and reloads; reports the
matrices it saw and evaluates the property's clauses directly against a float64 reference
that does not use pycollada (Rodrigues' vector formula, plain products)."""
import io
import json
import math
import sys

import numpy

XML_HEAD = ('<?xml version="1.0" encoding="utf-8"?>\n'
            '<COLLADA xmlns="http://www.collada.org/2005/11/COLLADASchema" version="1.4.1">\n'
            '<asset><created>2020-01-01T00:00:00</created><modified>2020-01-01T00:00:00</modified></asset>\n')
XML_HEAD += ('<library_cameras><camera id="cam0"><optics><technique_common><perspective><xfov>45</xfov>'
             '<znear>0.01</znear><zfar>1000</zfar></perspective></technique_common></optics></camera></library_cameras>\n')
XML_TAIL = '<scene><instance_visual_scene url="#vs"/></scene>\n</COLLADA>\n'
LIBS_OPEN = '<library_visual_scenes><visual_scene id="vs">\n'
LIBS_CLOSE = '</visual_scene></library_visual_scenes>\n'
CHILD = '<node id="child"><translate>1 0 0</translate><instance_camera url="#cam0"/></node>\n'

BAD = 99999989  # an observation that is not (close to) an integer


def fmt(v):
    return repr(float(v)) if not float(v).is_integer() or abs(v) >= 1e15 else str(int(v))


def xml_of(tr, style=0):
    """style varies what a loader must not care about: a sid attribute, the white space between the numbers"""
    k = tr[0]
    if k == 'translate' or k == 'scale':
        vals = tr[1:4]
    elif k == 'rotate':
        vals = tr[1:5]
    elif k == 'matrix':
        vals = tr[1]
    elif k == 'lookat':
        vals = tr[1] + tr[2] + tr[3]
    else:
        raise ValueError(k)
    sep = [' ', ' ', '\n', '  ', '\t'][style % 5]
    pad = ['', '', ' ', '\n'][style % 4]
    sid = ' sid="%s%d"' % (k, style) if style % 3 == 1 else ''
    return '<%s%s>%s%s%s</%s>' % (k, sid, pad, sep.join(fmt(v) for v in vals), pad, k)


SCALAR_FORMS = ['py', 'int8', 'uint8', 'int16', 'uint16', 'int32', 'uint32', 'int64', 'uint64', 'float16', 'float32', 'float64',
                'arr0d-float64', 'arr0d-int32', 'pyfloat']


def as_form(v, k):
    """the number v in another Python form of the same value: numpy scalars of every dtype that holds it
    exactly (float32 within rounding for non-integers), 0-d arrays, int vs float"""
    name = SCALAR_FORMS[k % len(SCALAR_FORMS)]
    fv = float(v)
    if name == 'py':
        return v
    if name == 'pyfloat':
        return fv
    if name.startswith('arr0d-'):
        dt = numpy.dtype(name[6:])
        if dt.kind == 'i' and not fv.is_integer():
            return v
        return numpy.array(v, dtype=dt)
    dt = numpy.dtype(name)
    if dt.kind in 'iu':
        if not fv.is_integer():
            return v
        info = numpy.iinfo(dt)
        if not (info.min <= int(fv) <= info.max):
            return v
        return dt.type(int(fv))
    if dt == numpy.float16 and float(numpy.float16(fv)) != fv:
        return v
    if dt == numpy.float32 and fv.is_integer() and float(numpy.float32(fv)) != fv:
        return v
    return dt.type(fv)


def construct(tr, form):
    from collada import scene
    k = tr[0]
    f = lambda v, i: as_form(v, form + 4 * i)
    if k == 'translate':
        return scene.TranslateTransform(f(tr[1], 0), f(tr[2], 1), f(tr[3], 2))
    if k == 'scale':
        return scene.ScaleTransform(f(tr[1], 0), f(tr[2], 1), f(tr[3], 2))
    if k == 'rotate':
        # (no float16 here: the parameters of a rotation enter arithmetic, and half precision in gives half precision out)
        g = lambda v, i: v if isinstance(f(v, i), numpy.float16) else f(v, i)
        return scene.RotateTransform(g(tr[1], 0), g(tr[2], 1), g(tr[3], 2), g(tr[4], 3))
    if k == 'matrix':
        dts = [numpy.float32, numpy.float64, numpy.float64]
        if all(float(v).is_integer() and abs(v) < 100 for v in tr[1]):
            dts += [numpy.int16, numpy.int32, numpy.int64, numpy.float16]
        return scene.MatrixTransform(numpy.array(tr[1], dtype=dts[form % len(dts)]))
    if k == 'lookat':
        if form % 3 == 1:
            return scene.LookAtTransform(list(tr[1]), list(tr[2]), list(tr[3]))
        dt = numpy.float32 if (form % 3 == 2 and all(float(numpy.float32(v)) == float(v) for v in tr[1] + tr[2] + tr[3])) else numpy.float64
        return scene.LookAtTransform(numpy.array(tr[1], dtype=dt), numpy.array(tr[2], dtype=dt), numpy.array(tr[3], dtype=dt))
    raise ValueError(k)


# ---------------------------------------------------------------- float64 reference (no pycollada)

def ref_matrix(tr):
    k = tr[0]
    M = numpy.identity(4)
    if k == 'translate':
        M[0][3], M[1][3], M[2][3] = tr[1], tr[2], tr[3]
    elif k == 'scale':
        M[0][0], M[1][1], M[2][2] = tr[1], tr[2], tr[3]
    elif k == 'matrix':
        for i in range(4):
            for j in range(4):
                M[i][j] = tr[1][4 * i + j]
    elif k == 'rotate':
        ax = numpy.array(tr[1:4], dtype=numpy.float64)
        th = math.radians(tr[4])
        for j in range(3):
            e = numpy.zeros(3)
            e[j] = 1.0
            # right-handed rotation of e about the unit axis by th
            v = e * math.cos(th) + numpy.cross(ax, e) * math.sin(th) + ax * numpy.dot(ax, e) * (1 - math.cos(th))
            M[0][j], M[1][j], M[2][j] = v
    elif k == 'lookat':
        return None  # lookat is specified by its two clauses, not by a reference matrix
    return M


def close(a, b, tol):
    a = numpy.asarray(a, dtype=numpy.float64)
    b = numpy.asarray(b, dtype=numpy.float64)
    return a.shape == b.shape and bool(numpy.all(numpy.isfinite(a))) and bool(numpy.all(numpy.abs(a - b) <= tol))


def check_transform(tr, M, site):
    """the 'mathematical meaning' clause for one transform; returns (clause, detail) or None"""
    M = numpy.asarray(M, dtype=numpy.float64)
    if M.shape != (4, 4):
        return ('shape', '%s matrix has shape %r' % (tr[0], M.shape))
    k = tr[0]
    if k == 'lookat':
        # the implementation receives the numbers in single precision when they come from XML
        cast = (lambda v: numpy.array(v, dtype=numpy.float32).astype(numpy.float64)) if site == 'loaded' else (lambda v: numpy.array(v, dtype=numpy.float64))
        eye, interest, up = cast(tr[1]), cast(tr[2]), cast(tr[3])
        o = M.dot([0, 0, 0, 1])
        if not (abs(o[3] - 1) <= 1e-6 and bool(numpy.all(numpy.abs(o[:3] - eye) <= 1e-6 * float(numpy.max(numpy.abs(eye))) + 1e-30))):
            return ('lookat-origin', 'M.(0,0,0,1) = %r, eye = %r' % (o.tolist(), eye.tolist()))
        z = M.dot([0, 0, -1, 0])
        d = interest - eye
        d = d / math.sqrt(float(d.dot(d)))
        nz = math.sqrt(float(z[:3].dot(z[:3])))
        if not (nz > 0 and abs(z[3]) <= 1e-5 and close(z[:3] / nz, d, 1e-4)):
            return ('lookat-minus-z', 'M.(0,0,-1,0) = %r, unit(interest - eye) = %r' % (z.tolist(), d.tolist()))
        # the frame: Z and X columns are unit vectors (whatever the distance between eye and interest and the
        # length of up), X is perpendicular to Z and to up, and the frame is right-handed
        X, Z = M[:3, 0], M[:3, 2]
        nx = math.sqrt(float(X.dot(X)))
        un = up / math.sqrt(float(up.dot(up)))
        if not (abs(nz - 1) <= 1e-4 and abs(nx - 1) <= 1e-4 and abs(float(X.dot(Z))) <= 1e-4 and abs(float(X.dot(un))) <= 1e-4):
            return ('lookat-frame', 'lookat%r: |Z column| = %r, |X column| = %r, X.Z = %r, X.up/|up| = %r (a unit, mutually '
                    'perpendicular side and view axis are expected at every scale)' % (tr[1:], nz, nx, float(X.dot(Z)), float(X.dot(un))))
        det = float(numpy.linalg.det(M[:3, :3]))
        if not det > 0:
            return ('lookat-handedness', 'the linear part of the lookat matrix has determinant %r (left-handed frame): %r'
                    % (det, M.tolist()))
        return None
    R = ref_matrix(tr)
    mag = float(numpy.max(numpy.abs(R)))
    # float32 storage: 6e-8 relative; rotations loaded from XML evaluate the angle in float32
    tol = 2e-6 * max(1.0, mag) if k != 'rotate' else 1e-5
    if k in ('translate', 'scale', 'matrix'):
        ok = bool(numpy.all(numpy.abs(M - R) <= 2e-7 * numpy.abs(R) + 1e-30))
    else:
        ok = close(M, R, tol)
    if not ok:
        return (k, '%s%r gives %r, expected %r' % (k, tr[1:], M.tolist(), R.tolist()))
    return None


def size(M):
    """spectral norm (>= 1): rotations do not inflate the tolerance of a long product"""
    return max(1.0, float(numpy.linalg.norm(numpy.asarray(M, dtype=numpy.float64), 2)))


def product(mats):
    P = numpy.identity(4)
    for m in mats:
        P = P.dot(numpy.asarray(m, dtype=numpy.float64))
    return P


def check_product(node_matrix, mats, clause, what, slack=None):
    """|node.matrix - product| entry by entry against the float32 error model: a few 1e-7 per factor relative
    to the product of the ABSOLUTE matrices (so a small entry made of small numbers is judged on its own
    scale, whatever else the matrices contain), plus the first-order effect of the known uncertainty of the
    factors (slack: per factor, absolute uncertainty of its 3x3 block - rotations evaluated in single precision)"""
    P = product(mats)
    A = numpy.identity(4)
    B = numpy.identity(4)
    for i, m in enumerate(mats):
        a = numpy.abs(numpy.asarray(m, dtype=numpy.float64))
        A = A.dot(a)
        d = numpy.zeros((4, 4))
        if slack and slack[i]:
            d[:3, :3] = slack[i]
        B = B.dot(a + d)
    tol = 4e-7 * (3 + len(mats)) * A + 2.0 * (B - A) + 1e-35
    got = numpy.asarray(node_matrix, dtype=numpy.float64)
    if got.shape != (4, 4) or not bool(numpy.all(numpy.isfinite(got))) or not bool(numpy.all(numpy.abs(got - P) <= tol)):
        return (clause, '%s: node.matrix = %r, product of the %d transform matrices in listed order = %r'
                % (what, got.tolist(), len(mats), P.tolist()))
    return None


def slack_of(trs):
    """rotations (angle and axis through single precision) and lookats (unit vectors): 2e-6 on the 3x3 block"""
    return [2e-6 if t[0] in ('rotate', 'lookat') else 0.0 for t in trs]


def ints(M):
    out = []
    for v in numpy.asarray(M, dtype=numpy.float64).reshape(-1):
        r = round(float(v)) if math.isfinite(float(v)) else BAD
        out.append(int(r) if abs(float(v) - r) < 0.05 and abs(r) < 2 ** 40 else BAD)
    return out


def apply_edits(node, edits, form, held=None):
    """held: the caller kept a reference to the list (ts = node.transforms, some time ago) and edits THROUGH it,
    without asking the node for the list again"""
    for e in edits:
        L = node.transforms if held is None else held
        k = e[0]
        try:
            if k == 'append':
                t = construct(e[1], form)
                if form % 3 == 0:
                    L += [t]
                else:
                    L.append(t)
            elif k == 'insert':
                L.insert(e[1], construct(e[2], form))
            elif k == 'delete':
                del L[e[1]]
            elif k == 'replace':
                L[e[1]] = construct(e[2], form)
            elif k == 'reverse':
                L.reverse()
            elif k == 'clear':
                if form % 2 or held is not None:
                    del L[:]
                else:
                    node.transforms = []
        except IndexError:
            pass


def run_case(case):
    import collada
    from collada import scene
    form = case.get('form', 0)
    mode = case['mode']
    site = 'loaded' if mode == 'L' else 'constructed'
    fails = []

    def fail(clause, detail, where=None):
        if len(fails) < 3:
            fails.append({'clause': clause, 'site': where or site, 'detail': detail[:1500]})

    bystanders = []
    nest = case.get('nest', 0)      # 0: scene root; 1: child of a scene root; 2: library node instantiated in the scene
    inner = ('<node id="n" name="n">\n' + '\n'.join(xml_of(t, form + i) for i, t in enumerate(case['init'])) + '\n' + CHILD +
             '</node>\n')
    if mode == 'L':
        # fwd: below the node there is an instance_node of a node defined LATER in the same visual scene /
        # library_nodes, so the node is abandoned in the first pass and loaded by a retry pass
        fwd = case.get('fwd', 0)
        later = '<node id="later"><scale>2 2 2</scale></node>\n' if fwd else ''
        if fwd == 1:
            inner = inner.replace('<instance_camera url="#cam0"/>', '<instance_camera url="#cam0"/><instance_node url="#later"/>')
        elif fwd == 2:
            inner = inner.replace(CHILD, CHILD + '<instance_node url="#later"/>')
        if nest == 0:
            body = LIBS_OPEN + inner + later + LIBS_CLOSE
        elif nest == 1:
            body = LIBS_OPEN + '<node id="wrap"><translate>1 1 1</translate>\n' + inner + '</node>\n' + later + LIBS_CLOSE
        else:
            body = ('<library_nodes>' + inner + later + '</library_nodes>\n' + LIBS_OPEN +
                    '<node id="wrap"><instance_node url="#n"/></node>\n' + LIBS_CLOSE)
        doc = collada.Collada(io.BytesIO((XML_HEAD + body + XML_TAIL).encode()))
    else:
        doc = collada.Collada()
        trs = [construct(t, form) for t in case['init']]
        cam = collada.camera.PerspectiveCamera('cam0', 45.0, 0.01, 1000.0)
        doc.cameras.append(cam)
        # bystanders: nodes made the short way, for which no transform is ever listed
        bystanders.append(scene.Node('by1'))
        child = scene.Node('child', children=[scene.CameraNode(cam)], transforms=[scene.TranslateTransform(1, 0, 0)])
        made = case.get('made', 0)
        if made == 1:
            node0 = scene.Node('n', children=[child])            # transforms omitted, listed in place afterwards
            node0.transforms.extend(trs)
            node0.save()
        elif made == 2:
            node0 = scene.Node('n')                              # everything omitted
            node0.children.append(child)
            for t in trs:
                node0.transforms.append(t)
            node0.save()
        else:
            node0 = scene.Node('n', children=[child], transforms=trs)
        bystanders.append(scene.Node('by2', children=[]))
        if nest == 0:
            roots = [node0]
        elif nest == 1:
            roots = [scene.Node('wrap', children=[node0], transforms=[scene.TranslateTransform(1, 1, 1)])]
        else:
            doc.nodes.append(node0)
            roots = [scene.Node('wrap', children=[scene.NodeNode(node0)])]
        sc = scene.Scene('vs', roots)
        doc.scenes.append(sc)
        doc.scene = sc

    def locate(d):
        if nest == 0:
            return d.scene.nodes[0]
        if nest == 1:
            return d.scene.nodes[0].children[0]
        return d.nodes[0]
    node = locate(doc)
    top = doc.scene.nodes[0]
    # how the caller gets at the list: asks the node every time, or keeps the list object it got once
    held = node.transforms if case.get('held') else None

    def cur():
        return node.transforms if held is None else held
    if len(cur()) != len(case['init']):
        fail('node-product', 'node has %d transforms, %d were given' % (len(cur()), len(case['init'])))
    # ---- meaning of each transform, and the node matrix as constructed / loaded
    for tr, t in zip(case['init'], cur()):
        w = check_transform(tr, t.matrix, site)
        if w:
            fail(w[0], w[1])
    w = check_product(node.matrix, [t.matrix for t in cur()], 'node-product', site)
    if w:
        fail(w[0], w[1])
    obs = {'init': ints(node.matrix)}
    # ---- edit history, then save()
    def plain(final, edits):     # the plain-list reference for the descriptors
        final = list(final)
        for e in edits:
            try:
                if e[0] == 'append':
                    final.append(e[1])
                elif e[0] == 'insert':
                    final.insert(e[1], e[2])
                elif e[0] == 'delete':
                    del final[e[1]]
                elif e[0] == 'replace':
                    final[e[1]] = e[2]
                elif e[0] == 'reverse':
                    final.reverse()
                elif e[0] == 'clear':
                    final = []
            except IndexError:
                pass
        return final

    def do_save():
        if case.get('save_via') == 'doc':
            doc.save()
        elif nest == 1:
            top.save()           # saving the parent saves (and recomputes) the nodes below it
        else:
            node.save()

    def phase(final, edits, label, key_m, key_s, fault=False):
        """edit cur(), save, and hold the result against the edited list; with fault, a first
        attempt to save fails inside a child of the node (an instance_camera pointed at nothing), the cause
        is repaired, and the save is repeated"""
        final = plain(final, edits)
        apply_edits(node, edits, form, held)
        if fault:
            camnode = node.children[0].children[0]
            good = camnode.camera
            camnode.camera = doc.cameras.get('no-such-camera')
            try:
                do_save()
            except Exception:  # noqa: the failure is the point
                pass
            camnode.camera = good
        do_save()
        mats = [t.matrix for t in cur()]
        if len(mats) != len(final):
            fail('save-recomputes', '%s: the node has %d transforms, a plain list has %d' % (label, len(mats), len(final)))
        else:
            for tr, t in zip(final, cur()):
                w = check_transform(tr, t.matrix, site)
                if w:
                    fail(w[0], w[1])
            w = check_product(node.matrix, [ref_or(tr, t) for tr, t in zip(final, cur())], 'save-recomputes', label,
                              slack_of(final))
            if w:
                fail(w[0], w[1], 'save')
        obs[key_m] = [ints(m) for m in mats]
        obs[key_s] = ints(node.matrix)
        return final
    flt = case.get('fault', 0)
    final = phase(case['init'], case['edits'], 'after %d edit(s)%s and save()' % (len(case['edits']), ', a failed save, its repair' if flt == 1 else ''),
                  'mats', 'saved', fault=(flt == 1))
    # a second round of edits and a second save (saves may come anywhere in a history)
    edits2 = case.get('edits2') or []
    final = phase(final, edits2, 'after %d edit(s), save(), %d more edit(s)%s and a second save()'
                  % (len(case['edits']), len(edits2), ', a failed save, its repair' if flt == 2 else ''), 'mats2', 'saved2', fault=(flt == 2))
    # ---- state carried across objects: nodes for which nothing was listed are untouched by all of the above,
    # and so is a node made now
    if mode != 'L':
        bystanders.append(scene.Node('by3'))
        bystanders.append(scene.Node('by4', children=[scene.Node('by5')]))
    for b in bystanders:
        for stage in ('as made', 'after its own save()'):
            nkids = 1 if b.id == 'by4' else 0
            if len(b.transforms) != 0 or len(b.children) != nkids or not close(b.matrix, numpy.identity(4), 0.0):
                fail('node-product', 'node %s, for which no transform was listed, has %d transform(s), %d child(ren) and matrix %r (%s)'
                     % (b.id, len(b.transforms), len(b.children), numpy.asarray(b.matrix).tolist(), stage), 'bystander')
                break
            b.save()
    if case.get('far'):
        # a lookat far from the origin cannot survive the single precision of a written document: nothing to compare
        obs['reloaded'] = obs['saved2']
        return {'obs': obs, 'fails': fails}
    # ---- write, load again
    buf = io.BytesIO()
    doc.write(buf)
    doc2 = collada.Collada(io.BytesIO(buf.getvalue()))
    node2 = locate(doc2)
    if len(node2.transforms) != len(final):
        fail('save-recomputes', 'reloaded node has %d transforms, the saved node had %d' % (len(node2.transforms), len(final)),
             'reload')
    else:
        w = check_product(node2.matrix, [ref_or(tr, t) for tr, t in zip(final, cur())], 'save-recomputes',
                          'written and loaded again after %d + %d edit(s)' % (len(case['edits']), len(edits2)), slack_of(final))
        if w:
            fail(w[0], w[1], 'reload')
    obs['reloaded'] = ints(node2.matrix)
    return {'obs': obs, 'fails': fails}


def ref_or(tr, t):
    """float64 reference matrix of a transform descriptor (the implementation's own matrix for a
    lookat, whose meaning is checked clause by clause)"""
    R = ref_matrix(tr)
    return numpy.asarray(t.matrix, dtype=numpy.float64) if R is None else R


class CaseTimeout(BaseException):
    pass


def _alarm(signum, frame):
    raise CaseTimeout()


def main():
    import signal
    payload = json.load(sys.stdin)
    per_case = int(payload.get('per_case_timeout', 4))
    hung = 0
    signal.signal(signal.SIGALRM, _alarm)
    out = []
    for case in payload['cases']:
        if hung >= 3:        # do not sit out the timeout on every remaining case
            out.append({'obs': None, 'fails': [{'clause': 'not-run', 'site': 'worker', 'detail': 'skipped after 3 hung cases in this batch'}]})
            continue
        try:
            signal.alarm(per_case)      # a Python-level hang becomes this case's failure, not the batch's
            try:
                out.append(run_case(case))
            finally:
                signal.alarm(0)
        except CaseTimeout:
            hung += 1
            out.append({'obs': None, 'fails': [{'clause': 'crash-or-hang', 'site': 'loaded' if case.get('mode') == 'L' else 'constructed',
                                                'detail': 'no result after %d s' % per_case}]})
        except Exception as e:  # noqa: one failing case must not take the batch down
            out.append({'obs': None, 'fails': [{'clause': 'raises', 'site': 'loaded' if case.get('mode') == 'L' else 'constructed',
                                                'detail': '%s: %s' % (type(e).__name__, e)}]})
    json.dump(out, sys.stdout)


if __name__ == '__main__':
    main()
