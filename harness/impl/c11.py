"""Implementation worker for C11: builds a real COLLADA document around a <tristrips>, <trifans>,
<polylist> or <polygons> primitive, loads it with pycollada, records the resulting index arrays
(canonical observations for the in-Coq correspondence) and evaluates the property's clauses
directly on the loaded objects (`fails`).  The document text is produced here by plain string
formatting, never by pycollada.

The source DATA (positions, normals, texture coordinates) comes with the case: the property says
the operations only permute index rows, so they must not depend on what the rows point to
(concave / collinear / coincident / NaN positions ...)."""
import io
import itertools
import json
import math
import sys
from collections import Counter


def exc_code(e):
    import collada.common as cc
    table = [(cc.DaeIncompleteError, 1), (cc.DaeBrokenRefError, 2), (cc.DaeMalformedError, 3),
             (cc.DaeUnsupportedError, 4), (cc.DaeSaveValidationError, 5), (cc.DaeError, 6),
             (IndexError, 7), (KeyError, 8), (TypeError, 9), (ValueError, 10), (AttributeError, 11)]
    for cls, code in table:
        if isinstance(e, cls):
            return code
    return 12


# ---- default source data (cases without a 'data' table): exactly representable in float32
def pos_of(j):
    return [float(j), float(2 * j + 1), float(-j)]


def nrm_of(j):
    return [j + 0.5, float(-2 * j), 7.0]


def tex_of(s, j):
    return [float(j), float(1000 * (s + 1) + j)]


NTEX = 3
NNRM = 2


def tables(case):
    """{'pos': [...], 'nrm': [[...], [...]], 'tex': [[...], [...], [...]]}: one entry per label"""
    n = case['nsrc']
    d = case.get('data') or {}

    def fl(rows):
        return [[float(x) for x in r] for r in rows]
    return {'pos': fl(d['pos']) if 'pos' in d else [pos_of(j) for j in range(n)],
            'nrm': [fl(t) for t in d['nrm']] if 'nrm' in d else
                   [[nrm_of(j) for j in range(n)], [[float(-j), 3.0, j + 0.25] for j in range(n)]],
            'tex': [fl(t) for t in d['tex']] if 'tex' in d else
                   [[tex_of(s, j) for j in range(n)] for s in range(NTEX)]}


def num(x):
    if x != x:
        return 'NaN'
    if x in (float('inf'), float('-inf')):
        return 'INF' if x > 0 else '-INF'
    return '%.9g' % x


def source_xml(sid, comps, values, n):
    flat = ' '.join(num(x) for v in values for x in v)
    params = ''.join('<param name="%s" type="float"/>' % c for c in comps)
    return ('<source id="%s"><float_array id="%s-array" count="%d">%s</float_array><technique_common>'
            '<accessor source="#%s-array" count="%d" stride="%d">%s</accessor></technique_common></source>'
            % (sid, sid, n * len(comps), flat, sid, n, len(comps), params))


def p_xml(p, form):
    if not p:
        return {'selfclose': '<p/>', 'empty': '<p></p>', 'blank': '<p> \n </p>'}[form]
    return '<p>%s</p>' % ' '.join(map(str, p))


def input_sources(case):
    """source key of every input, in document order: ('pos',), ('nrm', i), ('tex', i), ('col',)"""
    out, nn, nt = [], 0, 0
    for sem, off, st in case['inputs']:
        if sem == 'VERTEX':
            out.append(('pos',))
        elif sem == 'NORMAL':
            out.append(('nrm', nn % NNRM))
            nn += 1
        elif sem == 'TEXCOORD':
            out.append(('tex', nt % NTEX))
            nt += 1
        else:
            out.append(('col',))
    return out


def build_document(case):
    n = case['nsrc']
    tb = tables(case)
    srcs = [source_xml('pos', 'XYZ', tb['pos'], n)]
    srcs += [source_xml('nrm%d' % i, 'XYZ', tb['nrm'][i], n) for i in range(NNRM)]
    srcs += [source_xml('tex%d' % i, 'ST', tb['tex'][i], n) for i in range(NTEX)]
    srcs.append(source_xml('col', 'RGB', [[0.0, 0.0, 1.0]] * n, n))
    inputs = []
    for (sem, off, st), key in zip(case['inputs'], input_sources(case)):
        src = {'pos': 'verts', 'col': 'col'}.get(key[0]) or '%s%d' % key
        inputs.append('<input offset="%d" semantic="%s" source="#%s"%s/>'
                      % (off, sem, src, '' if st is None else ' set="%d"' % st))
    kind = case['kind']
    form = case.get('empty_form', 'empty')
    body = ''.join(inputs)
    if kind == 'polylist':
        body += '<vcount>%s</vcount>' % ' '.join(map(str, case['vcounts']))
        body += p_xml(case['ps'][0], form)
        count = len(case['vcounts'])
    else:
        body += ''.join(p_xml(p, form) for p in case['ps'])
        count = len(case['ps'])
    prim = '<%s count="%d" material="m">%s</%s>' % (kind, count, body, kind)
    nodes = []
    for i, inst in enumerate(instances_of(case)):
        mat = '' if inst.get('matrix') is None else '<matrix>%s</matrix>' % ' '.join(num(float(x)) for x in inst['matrix'])
        bind = ''
        if inst.get('material'):
            bind = ('<bind_material><technique_common><instance_material symbol="m" target="#mat%s"/>'
                    '</technique_common></bind_material>' % inst['material'])
        nodes.append('<node id="n%d">%s<instance_geometry url="#g">%s</instance_geometry></node>' % (i, mat, bind))
    fx = ''.join('<effect id="fx%s"><profile_COMMON><technique sid="common"><phong><diffuse><color>%s</color></diffuse>'
                 '</phong></technique></profile_COMMON></effect>' % (m, c)
                 for m, c in (('A', '1 0 0 1'), ('B', '0 1 0 1')))
    mats = ''.join('<material id="mat%s"><instance_effect url="#fx%s"/></material>' % (m, m) for m in 'AB')
    return ('<?xml version="1.0" encoding="UTF-8"?>\n'
            '<COLLADA xmlns="http://www.collada.org/2005/11/COLLADASchema" version="1.4.1">'
            '<asset><created>2020-01-01T00:00:00</created><modified>2020-01-01T00:00:00</modified>'
            '<up_axis>Y_UP</up_axis></asset>'
            '<library_effects>%s</library_effects><library_materials>%s</library_materials>'
            '<library_geometries><geometry id="g" name="g"><mesh>%s'
            '<vertices id="verts"><input semantic="POSITION" source="#pos"/></vertices>%s'
            '</mesh></geometry></library_geometries>'
            '<library_visual_scenes><visual_scene id="s">%s'
            '</visual_scene></library_visual_scenes>'
            '<scene><instance_visual_scene url="#s"/></scene></COLLADA>'
            % (fx, mats, ''.join(srcs), prim, ''.join(nodes))).encode('utf-8')


def instances_of(case):
    return case.get('instances') or [{'matrix': None, 'material': None}]


def transform(inst, p, translate=True):
    """R p (+ t) for the instance's row-major 4x4 matrix, in exact small-number arithmetic"""
    m = inst.get('matrix')
    if m is None:
        return [float(x) for x in p]
    return [sum(m[4 * r + c] * p[c] for c in range(3)) + (m[4 * r + 3] if translate else 0.0) for r in range(3)]


def rows_of(p, k):
    return [tuple(p[i:i + k]) for i in range(0, len(p), k)]


def canon(tri):
    """a triangle up to rotation of its corners (rotation keeps the winding)"""
    t = [tuple(c) for c in tri]
    return min((tuple(t[i:] + t[:i]) for i in range(3)))


def expected_expand(kind, rows):
    out = []
    n = len(rows)
    for k in range(n - 2):
        if kind == 'trifans':
            out.append((rows[0], rows[k + 1], rows[k + 2]))
        elif k % 2 == 0:
            out.append((rows[k], rows[k + 1], rows[k + 2]))
        else:
            out.append((rows[k + 1], rows[k], rows[k + 2]))
    return out


def offsets_of(case):
    """offsets of the inputs a Triangle / Polygon exposes in the code as it stands: VERTEX, first
    NORMAL, every TEXCOORD in listing order (used for the correspondence's observations)"""
    v = [o for s, o, _ in case['inputs'] if s == 'VERTEX'][:1]
    nn = [o for s, o, _ in case['inputs'] if s == 'NORMAL'][:1]
    t = [o for s, o, _ in case['inputs'] if s == 'TEXCOORD']
    return v, nn, t


def same(a, b):
    """equal float vectors (as float32), NaN equal to NaN"""
    import numpy
    x = numpy.asarray(a, dtype=numpy.float32).ravel()
    y = numpy.asarray(b, dtype=numpy.float32).ravel()
    return x.shape == y.shape and bool(numpy.array_equal(x, y, equal_nan=True))


def finite(v):
    return all(math.isfinite(float(x)) for x in v)


class Layout(object):
    """Which input feeds which slot of a Triangle/Polygon.  The property fixes that every input's
    index and data stay with their corner; it does not fix in which order several inputs of one
    semantic are exposed.  An *assignment* is (normal input or None, tuple of texcoord inputs):
    positions in case['inputs'].  A path (whole primitive / per polygon) is acceptable when at
    least one assignment explains everything it delivers, and two paths agree when one
    assignment explains both."""

    def __init__(self, case):
        self.case = case
        self.tb = tables(case)
        self.keys = input_sources(case)
        ins = case['inputs']
        self.v = [i for i, x in enumerate(ins) if x[0] == 'VERTEX'][0]
        self.normals = [i for i, x in enumerate(ins) if x[0] == 'NORMAL']
        self.texs = [i for i, x in enumerate(ins) if x[0] == 'TEXCOORD']

    def off(self, i):
        return self.case['inputs'][i][1]

    def data(self, i, label):
        key = self.keys[i]
        t = self.tb['pos'] if key[0] == 'pos' else self.tb[key[0]][key[1]]
        return t[label]

    def assignments(self, has_normal, ntex):
        ns = self.normals if has_normal else [None]
        if has_normal and not self.normals:
            return []
        if ntex != len(self.texs):
            return []
        return [(n, p) for n in ns for p in itertools.permutations(self.texs)]

    def explains(self, a, corner):
        """corner = (row or None, vidx, vdata, nidx, ndata, [tidx], [tdata]); row = full index row when
        the path delivers it"""
        row, vi, vd, ni, nd, tis, tds = corner
        n, perm = a
        if row is not None:
            if vi != row[self.off(self.v)]:
                return False
            if n is not None and ni != row[self.off(n)]:
                return False
            for s, ti in enumerate(perm):
                if tis[s] != row[self.off(ti)]:
                    return False
        if not same(vd, self.data(self.v, vi)):
            return False
        if n is not None and not same(nd, self.data(n, ni)):
            return False
        for s, ti in enumerate(perm):
            if not same(tds[s], self.data(ti, tis[s])):
                return False
        return True

    def project(self, a, row):
        n, perm = a
        return tuple([row[self.off(self.v)]] + ([row[self.off(n)]] if n is not None else []) +
                     [row[self.off(t)] for t in perm])


def corners_of(tri, rows3):
    """the three corners of a Triangle object as tuples for Layout.explains"""
    out = []
    # a Triangle without a normal input computes face normals itself and carries no normal indices
    has_n = tri.normal_indices is not None and hasattr(tri.normal_indices, '__len__')
    for c in range(3):
        out.append((None if rows3 is None else rows3[c], int(tri.indices[c]), tri.vertices[c],
                    int(tri.normal_indices[c]) if has_n else None, tri.normals[c] if has_n else None,
                    [int(x[c]) for x in tri.texcoord_indices], [x[c] for x in tri.texcoords]))
    return out, has_n, len(tri.texcoords)


ACCESS_FORMS = ['getitem', 'getitem_rev', 'iter', 'method', 'shapes', 'zip', 'stream']


def collect(prim, form, method):
    """The elements (polygons / triangles) of a primitive, obtained in one of the ways a caller can:
    prim[i] in ascending or descending order, list(prim) (legacy iteration), list(prim.<method>()),
    list(prim.shapes()), two generators advanced in lockstep - all materialised BEFORE any element is
    used - or a generator consumed one element at a time ('stream')."""
    n = len(prim)
    gen = getattr(prim, method, None) if form in ('method', 'stream', 'zip') else None
    if form == 'shapes' or (form in ('zip',) and gen is None):
        gen = getattr(prim, 'shapes', None)
    if form == 'getitem':
        return [prim[i] for i in range(n)]
    if form == 'getitem_rev':
        back = [prim[i] for i in reversed(range(n))]
        return back[::-1]
    if form == 'iter' or gen is None:
        return list(prim) if n else []
    if form == 'zip':
        pairs = list(zip(gen(), gen()))
        return [a for a, b in pairs]
    if form == 'stream':
        return gen()
    return list(gen())


def whole_assignments(lay, triset, tris, form='getitem'):
    """assignments that explain every corner of every triangle of a triangle set whose index rows are `tris`"""
    cands = None
    for ti, tri_obj in enumerate(collect(triset, form, 'triangles')):
        if ti >= len(tris):
            return [], ti
        cs, has_n, ntex = corners_of(tri_obj, tris[ti])
        if cands is None:
            cands = lay.assignments(has_n, ntex)
        cands = [a for a in cands if all(lay.explains(a, c) for c in cs)]
        if not cands:
            return [], ti
    return cands, None


def as_triangles(arr, k):
    """the index array of a triangle set as nested lists of shape (n, 3, k) of ints"""
    import numpy
    a = numpy.asarray(arr)
    if a.ndim != 3 or a.shape[1:] != (3, k):
        raise ValueError('index array of shape %r, expected (n, 3, %d)' % (a.shape, k))
    return [[[int(x) for x in c] for c in tr] for tr in a.tolist()]


class Bound(object):
    """The primitive bound once per scene instance (the objects are kept, as a viewer keeps them).
    touch(i) triangulates instance i; the order of the touches relative to each other and to the
    unbound triangleset() is part of the case."""

    def __init__(self, doc, case):
        self.case = case
        self.insts = instances_of(case)
        self.prims = []
        self.ts = {}
        self.error = None
        try:
            for bg in doc.scene.objects('geometry'):
                self.prims.append(list(bg.primitives())[0])
        except Exception as e:  # noqa
            self.error = e

    def touch(self, i):
        if self.error is not None or i in self.ts or i >= len(self.prims):
            return
        try:
            bp = self.prims[i]
            self.ts[i] = bp.triangleset() if self.case['kind'] in ('polylist', 'polygons') else bp
        except Exception as e:  # noqa
            self.error = e


def corner_key(vi, vd, nd):
    return (int(vi), tuple(float(x) for x in vd), None if nd is None else tuple(float(x) for x in nd))


def check_bound(bound, case, lay, tris, groups, have_pp, why):
    """every scene instance of the primitive (its own matrix and material binding) gives the same index
    rows; the vertices of its triangles are its own transform of the rows' positions; and what its
    triangleset() delivers per corner is what its own polygons deliver.  Only when there is a triangle."""
    kind, k = case['kind'], case['nind']
    if not tris:
        return
    for i in range(len(bound.insts)):
        bound.touch(i)
    if bound.error is not None:
        return why('bound', type(bound.error).__name__, 'triangles through the scene raised %r' % (bound.error,))
    if len(bound.prims) != len(bound.insts):
        return why('bound', 'instances', '%d bound geometries for %d scene instances' % (len(bound.prims), len(bound.insts)))
    pform = (case.get('access') or {}).get('poly', 'getitem')
    tform = (case.get('access') or {}).get('tri', 'getitem')
    tb = lay.tb
    all_finite = all(finite(p_) for p_ in tb['pos']) and all(finite(x) for t_ in tb['nrm'] for x in t_)
    voff = lay.off(lay.v)
    try:
        for i, inst in enumerate(bound.insts):
            bts = bound.ts[i]
            bidx = as_triangles(bts.index, k)
            if bidx != tris:
                return why('bound', 'index', 'instance %d: bound triangle set has index %r, unbound %r' % (i, bidx, tris))
            whole = []
            for ti, tr in enumerate(collect(bts, tform, 'triangles')):
                cs = []
                for c in range(3):
                    src = lay.data(lay.v, tris[ti][c][voff])
                    # a transform is a matrix product: rows with inf do not survive it exactly
                    if finite(src) and not same(tr.vertices[c], transform(inst, src)):
                        return why('bound', 'vertex', 'instance %d (matrix %r), triangle %d corner %d: vertex %r is not the '
                                   'transformed position %r of its row' % (i, inst.get('matrix'), ti, c,
                                                                            [float(x) for x in tr.vertices[c]], transform(inst, src)))
                    has_n = tr.normal_indices is not None and hasattr(tr.normal_indices, '__len__')
                    cs.append(corner_key(tr.indices[c], tr.vertices[c], tr.normals[c] if has_n else None))
                whole.append(cs)
            if have_pp and kind in ('polylist', 'polygons') and all_finite:
                bp = bound.prims[i]
                pos = 0
                bpolys = collect(bp, pform, 'polygons')
                if pform != 'stream':
                    need_n = len(bpolys)
                    if need_n != len(groups):
                        return why('bound', 'polygons', 'instance %d: %d polygons handed out for %d' % (i, need_n, len(groups)))
                for pi, bpoly in enumerate(bpolys):
                    mine = []
                    for tr in bpoly.triangles():
                        has_n = tr.normal_indices is not None
                        mine.append([corner_key(tr.indices[c], tr.vertices[c], tr.normals[c] if has_n else None)
                                     for c in range(3)])
                    part = whole[pos:pos + len(groups[pi])]
                    pos += len(groups[pi])
                    if Counter(canon(x) for x in mine) != Counter(canon(x) for x in part):
                        return why('bound', 'per-polygon', 'instance %d (matrix %r) polygon %d: triangleset() delivers %r, '
                                   'the instance\'s own polygon %r (vertex index, vertex, normal per corner)'
                                   % (i, inst.get('matrix'), pi, part, mine))
    except Exception as e:  # noqa
        return why('bound', type(e).__name__, 'triangles through the scene raised %r' % (e,))


def observe_bound(bound, case):
    """index of the first scene instance of the primitive (None when it cannot be observed)"""
    try:
        bound.touch(0)
        return as_triangles(bound.ts[0].index, case['nind'])
    except Exception:  # noqa
        return None


def run_case_guarded(case):
    try:
        return run_case(case)
    except Exception as e:  # noqa
        return {'load_code': 12, 'index': None, 'vcounts': None, 'tri_code': 0, 'tri_index': None, 'pp': None,
                'fails': [{'clause': 'observable', 'site': '%s:%s' % (case.get('kind'), type(e).__name__),
                           'detail': 'observing the loaded primitive raised %r' % (e,)}]}


def run_case(case):
    import collada
    kind = case['kind']
    k = case['nind']
    out = {'load_code': 0, 'index': None, 'vcounts': None, 'tri_code': 0, 'tri_index': None, 'pp': None,
           'fails': []}
    fails = out['fails']

    def why(clause, site, detail):
        fails.append({'clause': clause, 'site': '%s:%s' % (kind, site), 'detail': detail})
        return True

    try:
        doc = collada.Collada(io.BytesIO(build_document(case)))
        prim = doc.geometries[0].primitives[0]
    except Exception as e:  # noqa
        out['load_code'] = exc_code(e)
        why('loads', type(e).__name__, 'loading the document raised %r' % (e,))
        return out
    lay = Layout(case)
    v, nn, t = offsets_of(case)
    pform = (case.get('access') or {}).get('poly', 'getitem')
    tform = (case.get('access') or {}).get('tri', 'getitem')
    bound = Bound(doc, case)
    order = case.get('order') or ['u'] + list(range(len(bound.insts)))
    for item in order[:order.index('u')] if 'u' in order else []:
        bound.touch(item)         # instances triangulated before the unbound primitive is

    if kind in ('tristrips', 'trifans'):
        idx = prim.index
        out['index'] = as_triangles(idx, k)
        runs = [rows_of(p, k) for p in case['ps']]
        exp = [tr for r in runs for tr in expected_expand(kind, r)]
        want = sum(max(len(r) - 2, 0) for r in runs)
        got = [tuple(tuple(c) for c in tr) for tr in out['index']]
        if len(prim) != want or len(got) != want:
            why('count', 'ntriangles', '%d triangles for run lengths %r, expected %d'
                % (len(got), [len(r) for r in runs], want))
        elif Counter(map(canon, got)) != Counter(map(canon, exp)):
            why('winding', 'index', 'triangles %r, expected (up to order and rotation) %r' % (got, exp))
        else:
            cands, at = whole_assignments(lay, prim, out['index'], tform)
            if got and not cands:
                why('attached', 'Triangle', 'triangle %d: the delivered vertex/normal/texcoord indices or data '
                    'are not those of its rows %r under any assignment of inputs' % (at, got[at]))
        for item in order:
            if item != 'u':
                bound.touch(item)
        if out['index']:
            out['bound_index'] = observe_bound(bound, case)
        if not fails:
            check_bound(bound, case, lay, out['index'], None, False, why)
        return out

    # polylist / polygons
    out['vcounts'] = [int(x) for x in prim.vcounts]
    if kind == 'polylist':
        rows = rows_of(case['ps'][0], k)
        vc = list(case['vcounts'])
    else:
        rows = [r for p in case['ps'] for r in rows_of(p, k)]
        vc = [len(p) // k for p in case['ps']]
        if out['vcounts'] != vc:
            why('polygon-lengths', 'vcounts', 'vcounts %r for <p> lengths %r' % (out['vcounts'], vc))
            return out
    polys = []
    s = 0
    for c in vc:
        polys.append(rows[s:s + c])
        s += c
    exp_groups = [expected_expand('trifans', pr) for pr in polys]
    want = sum(max(c - 2, 0) for c in vc)
    try:
        ts = prim.triangleset()
        tidx = ts.index
    except Exception as e:  # noqa
        out['tri_code'] = exc_code(e)
        why('triangulates', 'triangleset:' + type(e).__name__, 'triangleset() raised %r for vcounts %r' % (e, vc))
        return out
    out['tri_index'] = as_triangles(tidx, k)
    got = [tuple(tuple(c) for c in tr) for tr in out['tri_index']]
    bad = False
    whole = None
    if len(ts) != want or len(got) != want:
        bad = why('count', 'triangleset', '%d triangles for vcounts %r, expected %d' % (len(got), vc, want))
    else:
        pos = 0
        for pi, g in enumerate(exp_groups):
            part = got[pos:pos + len(g)]
            pos += len(g)
            if Counter(map(canon, part)) != Counter(map(canon, g)):
                bad = why('fan', 'triangleset', 'polygon %d (vcounts %r): triangles %r, expected the fan %r'
                          % (pi, vc, part, g))
                break
        if not bad and got:
            whole, at = whole_assignments(lay, ts, out['tri_index'], tform)
            if not whole:
                bad = why('attached', 'triangleset', 'triangle %d: the delivered vertex/normal/texcoord indices or '
                          'data are not those of its rows %r under any assignment of inputs' % (at, got[at]))
    # per-polygon triangulation through Polygon.triangles(); a polylist without any index row has
    # no per-input index arrays to slice (iteration of empty primitives is C10's subject)
    if len(rows) > 0:
        pcands = None
        try:
            pp = []
            for pi, poly in enumerate(collect(prim, pform, 'polygons')):
                tris = []
                for tr in poly.triangles():
                    cs, has_n, ntex = corners_of(tr, None)
                    if pcands is None:
                        pcands = lay.assignments(has_n, ntex)
                    cols = [tr.indices]
                    if has_n:
                        cols.append(tr.normal_indices)
                    cols.extend(tr.texcoord_indices)
                    tris.append([[int(col[c]) for col in cols] for c in range(3)])
                    # every slot's data is the data its own index points to, under some assignment
                    pcands = [a for a in pcands if all(lay.explains(a, c) for c in cs)]
                    if not pcands and not fails:
                        why('attached', 'Polygon.triangles', 'polygon %d: the data delivered for a corner is not the '
                            'data of its indices under any assignment of inputs' % pi)
                pp.append(tris)
            out['pp'] = pp
        except Exception as e:  # noqa
            out['pp_code'] = exc_code(e)
            why('per-polygon', 'Polygon.triangles:' + type(e).__name__, 'per-polygon triangulation raised %r' % (e,))
            return out
        if pcands is None:
            pcands = []          # no polygon has a triangle
        # the triangles of every polygon are its fan, read through one assignment of inputs
        good = []
        for a in pcands:
            if all(Counter(canon(x) for x in pp[pi]) == Counter(canon([lay.project(a, r) for r in x]) for x in g)
                   for pi, g in enumerate(exp_groups)):
                good.append(a)
        if any(exp_groups) and not fails:
            if [len(x) for x in pp] != [len(g) for g in exp_groups]:
                why('per-polygon', 'Polygon.triangles', 'per-polygon triangle counts %r, expected %r'
                    % ([len(x) for x in pp], [len(g) for g in exp_groups]))
            elif not good:
                why('per-polygon', 'Polygon.triangles', 'Polygon.triangles() gives %r, the fans of the polygons are %r '
                    '(no assignment of inputs to the exposed columns explains it)' % (pp, exp_groups))
            elif whole is not None and not [a for a in good if a in whole]:
                why('per-polygon', 'agrees', 'Polygon.triangles() and triangleset() attach different inputs to the same '
                    'corners: per polygon %r, whole primitive %r (normal input, texcoord inputs by slot)' % (good, whole))
    for item in order:
        if item != 'u':
            bound.touch(item)
    if out['tri_index']:
        out['bound_index'] = observe_bound(bound, case)
    if not fails:
        check_bound(bound, case, lay, out['tri_index'], exp_groups, out['pp'] is not None, why)
    return out


def run_slice(case):
    a, b, s, n = case['a'], case['b'], case['s'], case['n']
    return {'slice': list(range(n))[slice(a, b, s)], 'fails': []}


def main():
    payload = json.load(sys.stdin)
    out = []
    for case in payload['cases']:
        if case['kind'] == 'slice':
            out.append(run_slice(case))
        else:
            out.append(run_case_guarded(case))
    json.dump(out, sys.stdout)


if __name__ == '__main__':
    main()
