"""Implementation worker for C11: builds a real COLLADA document around a <tristrips>, <trifans>,
<polylist> or <polygons> primitive, loads it with pycollada, records the resulting index arrays
(canonical observations for the in-Coq correspondence) and evaluates the property's clauses
directly on the loaded objects (`fails`).  The document text is produced here by plain string
formatting, never by pycollada."""
import io
import json
import sys
from collections import Counter


def exc_code(e):
    import collada.common as cc
    table = [(cc.DaeIncompleteError, 1), (cc.DaeBrokenRefError, 2), (cc.DaeMalformedError, 3),
             (cc.DaeUnsupportedError, 4), (cc.DaeSaveValidationError, 5), (cc.DaeError, 6),
             (IndexError, 7), (KeyError, 8), (TypeError, 9), (ValueError, 10), (AttributeError, 11)]
    for cls, code in table:
        if isinstance(e, cls):
            return code
    return 12


# ---- source data: exactly representable in float32, different for every label and source
def pos_of(j):
    return [float(j), float(2 * j + 1), float(-j)]


def nrm_of(j):
    return [j + 0.5, float(-2 * j), 7.0]


def tex_of(s, j):
    return [float(j), float(1000 * (s + 1) + j)]


def source_xml(sid, comps, values, n):
    flat = ' '.join(('%g' % x) for v in values for x in v)
    params = ''.join('<param name="%s" type="float"/>' % c for c in comps)
    return ('<source id="%s"><float_array id="%s-array" count="%d">%s</float_array><technique_common>'
            '<accessor source="#%s-array" count="%d" stride="%d">%s</accessor></technique_common></source>'
            % (sid, sid, n * len(comps), flat, sid, n, len(comps), params))


def p_xml(p, form):
    if not p:
        return {'selfclose': '<p/>', 'empty': '<p></p>', 'blank': '<p> \n </p>'}[form]
    return '<p>%s</p>' % ' '.join(map(str, p))


def build_document(case):
    n = case['nsrc']
    srcs = [source_xml('pos', 'XYZ', [pos_of(j) for j in range(n)], n),
            source_xml('nrm', 'XYZ', [nrm_of(j) for j in range(n)], n),
            source_xml('tex0', 'ST', [tex_of(0, j) for j in range(n)], n),
            source_xml('tex1', 'ST', [tex_of(1, j) for j in range(n)], n),
            source_xml('col', 'RGB', [[0.0, 0.0, 1.0]] * n, n)]
    inputs = []
    ntex = 0
    for sem, off, st in case['inputs']:
        if sem == 'VERTEX':
            src = 'verts'
        elif sem == 'NORMAL':
            src = 'nrm'
        elif sem == 'TEXCOORD':
            src = 'tex%d' % ntex
            ntex += 1
        else:
            src = 'col'
        inputs.append('<input offset="%d" semantic="%s" source="#%s"%s/>'
                      % (off, sem, src, '' if st is None else ' set="%d"' % st))
    kind = case['kind']
    form = case.get('empty_form', 'empty')
    body = ''.join(inputs)
    if kind == 'polylist':
        body += '<vcount>%s</vcount>' % ' '.join(map(str, case['vcounts']))
        body += p_xml(case['ps'][0], form)
        count = len(case['vcounts'])
    else:
        body += ''.join(p_xml(p, form) for p in case['ps'])
        count = len(case['ps'])
    prim = '<%s count="%d" material="m">%s</%s>' % (kind, count, body, kind)
    return ('<?xml version="1.0" encoding="UTF-8"?>\n'
            '<COLLADA xmlns="http://www.collada.org/2005/11/COLLADASchema" version="1.4.1">'
            '<asset><created>2020-01-01T00:00:00</created><modified>2020-01-01T00:00:00</modified>'
            '<up_axis>Y_UP</up_axis></asset>'
            '<library_geometries><geometry id="g" name="g"><mesh>%s'
            '<vertices id="verts"><input semantic="POSITION" source="#pos"/></vertices>%s'
            '</mesh></geometry></library_geometries>'
            '<library_visual_scenes><visual_scene id="s"><node id="n"><instance_geometry url="#g"/></node>'
            '</visual_scene></library_visual_scenes>'
            '<scene><instance_visual_scene url="#s"/></scene></COLLADA>'
            % (''.join(srcs), prim)).encode('utf-8')


def rows_of(p, k):
    return [tuple(p[i:i + k]) for i in range(0, len(p), k)]


def canon(tri):
    """a triangle up to rotation of its corners (rotation keeps the winding)"""
    t = [tuple(c) for c in tri]
    return min((tuple(t[i:] + t[:i]) for i in range(3)))


def expected_expand(kind, rows):
    out = []
    n = len(rows)
    for k in range(n - 2):
        if kind == 'trifans':
            out.append((rows[0], rows[k + 1], rows[k + 2]))
        elif k % 2 == 0:
            out.append((rows[k], rows[k + 1], rows[k + 2]))
        else:
            out.append((rows[k + 1], rows[k], rows[k + 2]))
    return out


def offsets_of(case):
    """offsets of the inputs a Triangle / Polygon exposes: VERTEX, first NORMAL, every TEXCOORD"""
    v = [o for s, o, _ in case['inputs'] if s == 'VERTEX'][:1]
    nn = [o for s, o, _ in case['inputs'] if s == 'NORMAL'][:1]
    t = [o for s, o, _ in case['inputs'] if s == 'TEXCOORD']
    return v, nn, t


def check_attached(case, triset, why):
    """the data delivered for every corner of every triangle is the data the corner's row points to"""
    import numpy
    v, nn, t = offsets_of(case)
    idx = triset.index
    for ti in range(len(idx)):
        tri = triset[ti]
        for c in range(3):
            row = [int(x) for x in idx[ti][c]]
            if [float(x) for x in tri.vertices[c]] != pos_of(row[v[0]]):
                return why('attached', 'vertex', 'triangle %d corner %d: vertex data %r is not that of row %r'
                           % (ti, c, tri.vertices[c].tolist(), row))
            if nn:
                if tri.normals is None or [float(x) for x in tri.normals[c]] != nrm_of(row[nn[0]]):
                    return why('attached', 'normal', 'triangle %d corner %d: normal is not that of row %r' % (ti, c, row))
            if len(tri.texcoords) != len(t):
                return why('attached', 'texcoord', 'triangle %d has %d texcoord sets, the primitive has %d inputs'
                           % (ti, len(tri.texcoords), len(t)))
            for s, off in enumerate(t):
                if [float(x) for x in tri.texcoords[s][c]] != tex_of(s, row[off]):
                    return why('attached', 'texcoord', 'triangle %d corner %d set %d: texcoord is not that of row %r'
                               % (ti, c, s, row))
    return None


def as_triangles(arr, k):
    """the index array of a triangle set as nested lists of shape (n, 3, k) of ints"""
    import numpy
    a = numpy.asarray(arr)
    if a.ndim != 3 or a.shape[1:] != (3, k):
        raise ValueError('index array of shape %r, expected (n, 3, %d)' % (a.shape, k))
    return [[[int(x) for x in c] for c in tr] for tr in a.tolist()]


def check_bound(doc, case, tris, pp, why):
    """the same primitive reached through the scene (bound to the identity transform) gives the same
    triangles; evaluated only when there is at least one triangle"""
    kind, k = case['kind'], case['nind']
    if not tris:
        return
    try:
        bg = list(doc.scene.objects('geometry'))[0]
        bp = list(bg.primitives())[0]
        bts = bp.triangleset() if kind in ('polylist', 'polygons') else bp
        bidx = as_triangles(bts.index, k)
        v, nn, t = offsets_of(case)
        if bidx != tris:
            return why('bound', 'index', 'bound triangle set has index %r, unbound %r' % (bidx, tris))
        for ti, tr in enumerate(bts):
            for c in range(3):
                if [float(x) for x in tr.vertices[c]] != pos_of(tris[ti][c][v[0]]):
                    return why('bound', 'vertex', 'bound triangle %d corner %d: vertex is not that of its row' % (ti, c))
        if pp is not None and kind in ('polylist', 'polygons'):
            for pi in range(len(bp)):
                got = [[int(x) for x in tr.indices] for tr in bp[pi].triangles()]
                want = [[c[0] for c in tr] for tr in pp[pi]]
                if got != want:
                    return why('bound', 'Polygon.triangles', 'bound polygon %d triangulates to %r, unbound %r' % (pi, got, want))
    except Exception as e:  # noqa
        return why('bound', type(e).__name__, 'triangles through the scene raised %r' % (e,))


def run_case_guarded(case):
    try:
        return run_case(case)
    except Exception as e:  # noqa
        return {'load_code': 12, 'index': None, 'vcounts': None, 'tri_code': 0, 'tri_index': None, 'pp': None,
                'fails': [{'clause': 'observable', 'site': '%s:%s' % (case.get('kind'), type(e).__name__),
                           'detail': 'observing the loaded primitive raised %r' % (e,)}]}


def run_case(case):
    import collada
    kind = case['kind']
    k = case['nind']
    out = {'load_code': 0, 'index': None, 'vcounts': None, 'tri_code': 0, 'tri_index': None, 'pp': None,
           'fails': []}
    fails = out['fails']

    def why(clause, site, detail):
        fails.append({'clause': clause, 'site': '%s:%s' % (kind, site), 'detail': detail})
        return True

    try:
        doc = collada.Collada(io.BytesIO(build_document(case)))
        prim = doc.geometries[0].primitives[0]
    except Exception as e:  # noqa
        out['load_code'] = exc_code(e)
        why('loads', type(e).__name__, 'loading the document raised %r' % (e,))
        return out
    v, nn, t = offsets_of(case)
    proj = v + nn + t

    if kind in ('tristrips', 'trifans'):
        idx = prim.index
        out['index'] = as_triangles(idx, k)
        runs = [rows_of(p, k) for p in case['ps']]
        exp = [tr for r in runs for tr in expected_expand(kind, r)]
        want = sum(max(len(r) - 2, 0) for r in runs)
        got = [tuple(tuple(int(x) for x in c) for c in tr) for tr in idx.tolist()]
        if len(prim) != want or len(got) != want:
            why('count', 'ntriangles', '%d triangles for run lengths %r, expected %d'
                % (len(got), [len(r) for r in runs], want))
        elif Counter(map(canon, got)) != Counter(map(canon, exp)):
            why('winding', 'index', 'triangles %r, expected (up to order and rotation) %r' % (got, exp))
        else:
            check_attached(case, prim, why)
        if not fails:
            check_bound(doc, case, out['index'], None, why)
        return out

    # polylist / polygons
    out['vcounts'] = [int(x) for x in prim.vcounts]
    if kind == 'polylist':
        rows = rows_of(case['ps'][0], k)
        vc = list(case['vcounts'])
    else:
        rows = [r for p in case['ps'] for r in rows_of(p, k)]
        vc = [len(p) // k for p in case['ps']]
        if out['vcounts'] != vc:
            why('polygon-lengths', 'vcounts', 'vcounts %r for <p> lengths %r' % (out['vcounts'], vc))
            return out
    polys = []
    s = 0
    for c in vc:
        polys.append(rows[s:s + c])
        s += c
    exp_groups = [expected_expand('trifans', pr) for pr in polys]
    want = sum(max(c - 2, 0) for c in vc)
    try:
        ts = prim.triangleset()
        tidx = ts.index
    except Exception as e:  # noqa
        out['tri_code'] = exc_code(e)
        why('triangulates', 'triangleset:' + type(e).__name__, 'triangleset() raised %r for vcounts %r' % (e, vc))
        return out
    out['tri_index'] = as_triangles(tidx, k)
    got = [tuple(tuple(int(x) for x in c) for c in tr) for tr in tidx.tolist()]
    bad = False
    if len(ts) != want or len(got) != want:
        bad = why('count', 'triangleset', '%d triangles for vcounts %r, expected %d' % (len(got), vc, want))
    else:
        pos = 0
        for pi, g in enumerate(exp_groups):
            part = got[pos:pos + len(g)]
            pos += len(g)
            if Counter(map(canon, part)) != Counter(map(canon, g)):
                bad = why('fan', 'triangleset', 'polygon %d (vcounts %r): triangles %r, expected the fan %r'
                          % (pi, vc, part, g))
                break
        if not bad:
            bad = bool(check_attached(case, ts, why))
    # per-polygon triangulation through Polygon.triangles(); a polylist without any index row has
    # no per-input index arrays to slice (iteration of empty primitives is C10's subject)
    if len(rows) > 0:
        try:
            pp = []
            for pi in range(len(prim)):
                poly = prim[pi]
                tris = []
                for tr in poly.triangles():
                    cols = [tr.indices]
                    if nn:
                        cols.append(tr.normal_indices)
                    cols.extend(tr.texcoord_indices)
                    corners = [[int(col[c]) for col in cols] for c in range(3)]
                    tris.append(corners)
                    # the data of the corner is the data of that row
                    for c in range(3):
                        if [float(x) for x in tr.vertices[c]] != pos_of(corners[c][0]):
                            why('attached', 'Polygon.triangles:vertex', 'polygon %d: vertex data does not follow its index' % pi)
                        if nn and [float(x) for x in tr.normals[c]] != nrm_of(corners[c][1]):
                            why('attached', 'Polygon.triangles:normal', 'polygon %d: normal data does not follow its index' % pi)
                        for si in range(len(t)):
                            if [float(x) for x in tr.texcoords[si][c]] != tex_of(si, corners[c][len(v) + len(nn) + si]):
                                why('attached', 'Polygon.triangles:texcoord', 'polygon %d: texcoord data does not follow its index' % pi)
                pp.append(tris)
            out['pp'] = pp
        except Exception as e:  # noqa
            out['pp_code'] = exc_code(e)
            why('per-polygon', 'Polygon.triangles:' + type(e).__name__, 'per-polygon triangulation raised %r' % (e,))
            return out

        def project(tr):
            return tuple(tuple(c[o] for o in proj) for c in tr)
        for pi, g in enumerate(exp_groups):
            if Counter(canon(x) for x in pp[pi]) != Counter(canon(project(x)) for x in g):
                why('per-polygon', 'Polygon.triangles', 'polygon %d: triangles() gives %r, expected the fan %r'
                    % (pi, pp[pi], [project(x) for x in g]))
                break
        else:
            if not bad and Counter(canon(x) for g in pp for x in g) != Counter(canon(project(x)) for x in got):
                why('per-polygon', 'agrees', 'per-polygon triangles differ from the whole-primitive triangulation')
    if not fails:
        check_bound(doc, case, out['tri_index'], out['pp'], why)
    return out


def run_slice(case):
    a, b, s, n = case['a'], case['b'], case['s'], case['n']
    return {'slice': list(range(n))[slice(a, b, s)], 'fails': []}


def main():
    payload = json.load(sys.stdin)
    out = []
    for case in payload['cases']:
        if case['kind'] == 'slice':
            out.append(run_slice(case))
        else:
            out.append(run_case_guarded(case))
    json.dump(out, sys.stdout)


if __name__ == '__main__':
    main()
