"""Implementation worker for C07: loads reference-graph documents under several ignore masks and
records what every loaded object is bound to (object identity -> index of the bound object's XML
element); evaluates the identity / broken-reference / save clauses directly."""
import io
import json
import sys

from harness.impl.c08 import exc_code, elem_index, classes, LIBS

LIBTAG = {'images': ('library_images', 'image'), 'effects': ('library_effects', 'effect'),
          'materials': ('library_materials', 'material'), 'geometries': ('library_geometries', 'geometry'),
          'controllers': ('library_controllers', 'controller'), 'lights': ('library_lights', 'light'),
          'cameras': ('library_cameras', 'camera'), 'nodes': ('library_nodes', 'node'),
          'scenes': ('library_visual_scenes', 'visual_scene')}


def bare(t):
    return t.split('}')[-1]


class Observer(object):
    def __init__(self, col):
        import collada
        self.col = col
        self.idx = elem_index(col)
        self.c = collada
        self.bindings = []          # (owner description, literal reference, target object, target library attr)
        self.structure = []         # structural problems of loaded nodes

    def uid(self, o):
        return self.idx.get(id(getattr(o, 'xmlnode', None)), 10 ** 6)

    def bind(self, owner, literal, target, lib):
        self.bindings.append((owner, literal, target, lib))

    def lnode(self, n, scene=None):
        sc = self.c.scene
        out = []

        def walk(node):
            kids = [id(e) for e in node.xmlnode]
            seen_kids = set()
            for c in list(node.children) + list(getattr(node, 'transforms', [])):
                k = id(getattr(c, 'xmlnode', None))
                if k in seen_kids:
                    self.structure.append(('duplicate-child', 'node %r holds the same %s object (element <%s url=%r>) twice: an '
                                           'instance that failed to load was replaced by its sibling'
                                           % (node.id, type(c).__name__, bare(c.xmlnode.tag), c.xmlnode.get('url'))))
                elif k not in kids:
                    self.structure.append(('foreign-child', 'node %r holds a %s whose element is not a child of the node\'s element'
                                           % (node.id, type(c).__name__)))
                seen_kids.add(k)
            for c in node.children:
                if isinstance(c, sc.NodeNode):
                    out.append(['n', self.uid(c.node)])
                    self.bind(c, c.xmlnode.get('url'), c.node, ('scene-or-nodes', scene))
                elif isinstance(c, sc.Node):
                    walk(c)
                elif isinstance(c, sc.GeometryNode):
                    out.append(['i', self.uid(c.geometry), [self.uid(m.target) for m in c.materials]])
                    self.bind(c, c.xmlnode.get('url'), c.geometry, 'geometries')
                    for m in c.materials:
                        self.bind(m, m.xmlnode.get('target'), m.target, 'materials')
                elif isinstance(c, sc.ControllerNode):
                    out.append(['i', self.uid(c.controller), [self.uid(m.target) for m in c.materials]])
                    self.bind(c, c.xmlnode.get('url'), c.controller, 'controllers')
                    for m in c.materials:
                        self.bind(m, m.xmlnode.get('target'), m.target, 'materials')
                elif isinstance(c, sc.LightNode):
                    out.append(['i', self.uid(c.light), []])
                    self.bind(c, c.xmlnode.get('url'), c.light, 'lights')
                elif isinstance(c, sc.CameraNode):
                    out.append(['i', self.uid(c.camera), []])
                    self.bind(c, c.xmlnode.get('url'), c.camera, 'cameras')
        walk(n)
        return [self.uid(n), n.id, out]

    def observe(self):
        col = self.col
        M = self.c.material
        C = self.c.controller
        items = []
        for o in col.images:
            items.append(['LImages', self.uid(o), o.id, []])
        for o in col.effects:
            b = []
            for p in o.params:
                if isinstance(p, M.Surface):
                    b.append(self.uid(p.image))
                    self.bind(p, '#' + (p.xmlnode.find('.//' + col.tag('init_from')).text or ''), p.image, 'images')
                elif isinstance(p, M.Sampler2D):
                    b.append(self.uid(p.surface))
                    if not any(p.surface is q_ for q_ in o.params):
                        self.structure.append(('foreign-surface', 'sampler %r of effect %r is bound to a surface that is not a '
                                               'parameter of this effect' % (p.id, o.id)))
            # textures of the shading properties (0 = the property had a <texture> but is not a Map), then the bump map
            shader = None
            prof = o.xmlnode.find(col.tag('profile_COMMON'))
            tec = prof.find(col.tag('technique')) if prof is not None else None
            if tec is not None:
                for sh in o.shaders:
                    shader = tec.find(col.tag(sh))
                    if shader is not None:
                        break
            for prop in o.supported:
                pn = shader.find(col.tag(prop)) if shader is not None else None
                if pn is not None and pn.find(col.tag('texture')) is not None:
                    v = getattr(o, prop, None)
                    b.append(self.uid(v.sampler) if isinstance(v, M.Map) else 0)
                    if isinstance(v, M.Map) and not any(v.sampler is q_ for q_ in o.params):
                        self.structure.append(('foreign-sampler', 'texture of %s in effect %r is bound to a sampler that is not a '
                                               'parameter of this effect' % (prop, o.id)))
            if getattr(o, 'bumpmap', None) is not None:
                b.append(self.uid(o.bumpmap.sampler))
                if not any(o.bumpmap.sampler is q_ for q_ in o.params):
                    self.structure.append(('foreign-sampler', 'bump map of effect %r is bound to a sampler that is not a parameter '
                                           'of this effect' % (o.id,)))
            items.append(['LEffects', self.uid(o), o.id, b])
        for o in col.materials:
            items.append(['LMaterials', self.uid(o), o.id, [self.uid(o.effect)]])
            self.bind(o, o.xmlnode.find(col.tag('instance_effect')).get('url'), o.effect, 'effects')
        for o in col.geometries:
            items.append(['LGeometry', self.uid(o), o.id, []])
        for o in col.controllers:
            if isinstance(o, C.Skin):
                items.append(['LControllers', self.uid(o), o.id, [self.uid(o.geometry)]])
                self.bind(o, o.xmlnode.find(col.tag('skin')).get('source'), o.geometry, 'geometries')
            else:
                items.append(['LControllers', self.uid(o), o.id,
                              [self.uid(o.source_geometry)] + [self.uid(g) for g, w in o.target_list]])
                self.bind(o, o.xmlnode.find(col.tag('morph')).get('source'), o.source_geometry, 'geometries')
                for g, w in o.target_list:
                    self.bind(o, '#' + g.id, g, 'geometries')
        for o in col.lights:
            items.append(['LLights', self.uid(o), o.id, []])
        for o in col.cameras:
            items.append(['LCameras', self.uid(o), o.id, []])
        nodes = [self.lnode(n) for n in col.nodes]
        scenes = [[self.uid(s), s.id, [self.lnode(n, s) for n in s.nodes]] for s in col.scenes]
        default = self.uid(col.scene) if col.scene is not None else None
        if col.scene is not None:
            dn = col.xmlnode.find('%s/%s' % (col.tag('scene'), col.tag('instance_visual_scene')))
            self.bind(col, dn.get('url') if dn is not None else None, col.scene, 'scenes')
        return {'items': items, 'nodes': nodes, 'scenes': scenes, 'default': default}

    def identity_failures(self):
        """every bound target is THE library object carrying the referenced id"""
        col = self.col
        out = []
        for owner, literal, target, lib in self.bindings:
            if literal is None or not literal.startswith('#'):
                out.append(('bound-malformed', 'a reference %r without "#" was bound to %r' % (literal, target)))
                continue
            rid = literal[1:]
            if getattr(target, 'id', None) != rid:
                out.append(('wrong-id', 'reference %s is bound to an object whose id is %r' % (literal, getattr(target, 'id', None))))
                continue
            if isinstance(lib, tuple):
                scene = lib[1]
                cands = []
                if scene is not None:
                    cands += [n for n in scene.nodes if n.id == rid]
                cands += [n for n in col.nodes if n.id == rid]
                if not any(target is c for c in cands):
                    out.append(('not-library-object', 'instance_node %s is bound to an object that is neither a top-level '
                                                      'scene node nor a library node' % literal))
            else:
                L = getattr(col, lib)
                if not any(target is o for o in L):
                    out.append(('not-library-object', 'reference %s (%s) is bound to an object that is not in collada.%s'
                                % (literal, type(owner).__name__, lib)))
                elif L.get(rid) is not target and sum(1 for o in L if o.id == rid) == 1:
                    out.append(('not-the-object', 'reference %s is bound to another object than collada.%s[%r]' % (literal, lib, rid)))
        return out


def load(data, ignore):
    import collada
    held = []

    class Held(collada.Collada):
        def __init__(self, *a, **k):
            held.append(self)
            super(Held, self).__init__(*a, **k)
    esc = None
    try:
        if ignore is None:
            Held(io.BytesIO(data))          # default arguments: the keyword is really omitted
        else:
            Held(io.BytesIO(data), ignore=ignore)
    except BaseException as e:  # noqa
        if isinstance(e, (KeyboardInterrupt, SystemExit, MemoryError)):
            raise
        esc = e
    return (held[0] if held else None), esc


def effect_links(col):
    """structural resolution of the effect-internal links in the (written) tree: every <texture texture=X>
    names a sampler2D newparam of its effect, every sampler2D/source a surface newparam of its effect,
    every surface/init_from an <image> of the document"""
    root = col.xmlnode.getroot()
    t = col.tag
    out = []
    image_ids = {e.get('id') for e in root.iter(t('image'))}
    for fx in root.iter(t('effect')):
        samplers, surfaces = set(), set()
        for np_ in fx.iter(t('newparam')):
            if np_.find(t('sampler2D')) is not None:
                samplers.add(np_.get('sid'))
            if np_.find(t('surface')) is not None:
                surfaces.add(np_.get('sid'))
        for tx in fx.iter(t('texture')):
            if tx.get('texture') not in samplers:
                out.append(('texture-sampler', 'effect %r: <texture texture=%r> names no sampler2D newparam of the written effect (%s)'
                            % (fx.get('id'), tx.get('texture'), sorted(samplers))))
        for np_ in fx.iter(t('newparam')):
            sm = np_.find(t('sampler2D'))
            if sm is not None:
                src = sm.find(t('source'))
                if src is None or src.text not in surfaces:
                    out.append(('sampler-surface', 'effect %r: sampler2D %r has source %r, no surface newparam of the written effect (%s)'
                                % (fx.get('id'), np_.get('sid'), None if src is None else src.text, sorted(surfaces))))
            sf = np_.find(t('surface'))
            if sf is not None:
                ini = sf.find(t('init_from'))
                if ini is None or ini.text not in image_ids:
                    out.append(('surface-image', 'effect %r: surface %r is initialised from %r, no <image> of the written document'
                                % (fx.get('id'), np_.get('sid'), None if ini is None else ini.text)))
    return out


def effect_kinds(col):
    """per effect: what kind of value every shading property holds (a texture must stay a texture)"""
    M = __import__('collada').material
    out = {}
    for fx in col.effects:
        d = {}
        for prop in list(fx.supported) + ['bumpmap']:
            v = getattr(fx, prop, None)
            d[prop] = 'map:%s/%s/%s' % (v.sampler.id, v.sampler.surface.id, v.sampler.surface.image.id) if isinstance(v, M.Map) \
                else type(v).__name__
        out[fx.id] = d
    return out


def construct_textured(col, k):
    """a textured effect and its material made through the API"""
    M = __import__('collada').material
    img = M.CImage('cimg%d' % k, 'c%d.png' % k, col)
    col.images.append(img)
    sf = M.Surface('csurf%d' % k, img, 'A8R8G8B8')
    sp = M.Sampler2D('csamp%d' % k, sf, None, None)
    fx = M.Effect('cfx%d' % k, [sf, sp], 'lambert', bumpmap=M.Map(sp, 'UV0'), diffuse=M.Map(sp, 'UV0'),
                  ambient=(0.5, 0.5, 0.5, 1.0))
    col.effects.append(fx)
    col.materials.append(M.Material('cmat%d' % k, 'cmat%d' % k, fx))


def save_clause(col, ob, renames):
    """rename objects, save, and check every reference is '#'+current id of its target and that
    this id names exactly that target's element in the right library of the written tree"""
    fails = []
    M = __import__('collada').material
    presave = 0

    def check_bindings(when):
        root = col.xmlnode.getroot()
        for owner, literal0, target, lib in ob.bindings:
            if isinstance(lib, tuple):
                where, attr = 'nodes', 'url'
            else:
                where = lib
                attr = 'target' if type(owner).__name__ == 'MaterialNode' else 'url'
            cls = type(owner).__name__
            if cls in ('Skin', 'Morph'):
                kind = 'controller-source'
                written = owner.xmlnode.find(col.tag('skin' if cls == 'Skin' else 'morph')).get('source')
                if cls == 'Morph' and not literal0 == written and literal0 is not None:
                    # morph targets are names inside an IDREF array
                    arr = owner.xmlnode.find('.//' + col.tag('IDREF_array'))
                    written = '#' + target.id if (arr is not None and target.id in (arr.text or '').split()) else '#<stale>'
            elif cls == 'Surface':
                kind = 'surface-image'
                written = '#' + (owner.xmlnode.find('.//' + col.tag('init_from')).text or '')
            elif cls == 'Material':
                kind = 'material-effect'
                written = owner.xmlnode.find(col.tag('instance_effect')).get('url')
            elif owner is col:
                kind = 'default-scene'
                dn = root.find('%s/%s' % (col.tag('scene'), col.tag('instance_visual_scene')))
                written = dn.get('url') if dn is not None else None
            else:
                kind = bare(owner.xmlnode.tag)
                written = owner.xmlnode.get(attr)
            want = '#%s' % target.id
            if written != want:
                fails.append(('saved-ref:%s' % kind, when + 'after save the %s reference reads %r; its target\'s current id is %r, so it must read %r' % (kind, written, target.id, want)))
                continue
            # resolves inside the written document
            if isinstance(lib, tuple):
                scene = lib[1]
                els = [e for e in root.iter(col.tag('node')) if e.get('id') == target.id]
            else:
                ltag, itag = LIBTAG[where]
                els = [e for l in root.findall(col.tag(ltag)) for e in l.findall(col.tag(itag)) if e.get('id') == target.id]
            if not any(e is target.xmlnode for e in els):
                fails.append(('saved-ref-unresolved:%s' % kind, when + 'the written %s reference %s names no element of the written document '
                                                                 'that is its target' % (kind, written)))

    sc = __import__('collada').scene
    for r in renames:
        if r[0] == 'construct':
            construct_textured(col, r[1])
        elif r[0] == 'save-first':
            presave += 1
        elif r[0] in ('replace-bump', 'replace-map'):
            # a NEW Map object put into the bump slot / a shader slot of a loaded textured effect
            if r[1] < len(col.effects):
                fx = col.effects[r[1]]
                sps = [p for p in fx.params if isinstance(p, M.Sampler2D)]
                if sps:
                    if r[0] == 'replace-bump':
                        fx.bumpmap = M.Map(sps[0], 'UV1')
                    else:
                        fx.diffuse = M.Map(sps[0], 'UV1')
        elif r[0] == 'replace-effect':
            if r[1] < len(col.materials) and len(col.effects) > 1:
                m = col.materials[r[1]]
                others = [e for e in col.effects if e is not m.effect]
                m.effect = others[r[1] % len(others)]
        elif r[0] == 'replace-target':
            # the first geometry / light / camera instance of every library node and scene node gets another target
            def walk(node):
                for c in node.children:
                    if isinstance(c, sc.NodeNode):
                        continue
                    if isinstance(c, sc.Node):
                        walk(c)
                    elif isinstance(c, sc.GeometryNode) and len(col.geometries) > 1:
                        c.geometry = [g for g in col.geometries if g is not c.geometry][0]
                        return
                    elif isinstance(c, sc.LightNode) and len(col.lights) > 1:
                        c.light = [g for g in col.lights if g is not c.light][0]
                        return
                    elif isinstance(c, sc.CameraNode) and len(col.cameras) > 1:
                        c.camera = [g for g in col.cameras if g is not c.camera][0]
                        return
            for n in list(col.nodes) + [n for s_ in col.scenes for n in s_.nodes]:
                walk(n)
    if any(r[0] in ('construct', 'replace-bump', 'replace-map', 'replace-effect', 'replace-target') for r in renames):
        # the bindings changed: read them again from the objects
        ob.bindings = []
        ob.structure = []
        ob.observe()
    for _ in range(presave):
        # a first save without renames: the links must survive later renames too
        try:
            col.save()
        except Exception as e:  # noqa
            return [('save-raises:' + type(e).__name__, 'save() raised %r' % (e,))], None
    rounds = [r for r in renames if r[0] == 'second-round']
    for r in renames:
        if r[0] in ('construct', 'save-first', 'replace-bump', 'replace-map', 'replace-effect', 'replace-target', 'second-round'):
            continue
        lib, i, new = r
        if lib == 'fxparams':
            if i < len(col.effects):
                for p in col.effects[i].params:
                    if isinstance(p, (M.Surface, M.Sampler2D)) and (new[0] == 'both' or
                                                                    (new[0] == 'sampler') == isinstance(p, M.Sampler2D)):
                        p.id = p.id + new[1]
            continue
        L = getattr(col, lib)
        if i < len(L):
            L[i].id = new
    try:
        col.save()
    except Exception as e:  # noqa
        return [('save-raises:' + type(e).__name__, 'save() after renaming raised %r' % (e,))], None
    for kind, what in effect_links(col):
        fails.append(('saved-ref-unresolved:' + kind, 'after renames and save: ' + what))
    check_bindings('')
    if rounds and not fails:
        # save -> rename everything once more -> save again: the links must follow the second rename too
        for a in LIBS:
            for o in getattr(col, a):
                if getattr(o, 'id', None) is not None and not (a == 'geometries' and o.id in rounds[0][1]):
                    if a != 'controllers':
                        o.id = o.id + '-2'
        for fx in col.effects:
            for p in fx.params:
                if isinstance(p, (M.Surface, M.Sampler2D)):
                    p.id = p.id + '-2'
        try:
            col.save()
        except Exception as e:  # noqa
            return fails + [('save-raises:' + type(e).__name__, 'the second save() after renaming again raised %r' % (e,))], None
        for kind, what in effect_links(col):
            fails.append(('saved-ref-unresolved:' + kind, 'save, rename, save again: ' + what))
        check_bindings('save, rename, save again: ')
    buf = io.BytesIO()
    try:
        col.write(buf)
    except Exception as e:  # noqa
        return fails + [('write-raises:' + type(e).__name__, 'write() raised %r' % (e,))], None
    return fails, buf.getvalue()


def run_case(case):
    K = classes()
    if 'scope' in case:
        from harness.impl.c08 import scope_leak_problems
        from harness.gen import faults as F
        f = case['scope']['fault']
        ext = f['kind'] == 'extref'
        probs = scope_leak_problems(case['scope']['base'], f, K, how='which is not of the form #id' if ext else
                                    'defined, but as something else than what is referenced,' if f.get('wrongkind') else
                                    'defined only in another scope')
        cl = 'foreign-reference' if ext else 'scope-leak'
        return {'obs': [], 'fails': [{'signature': 'C07:%s:%s' % (cl, F.site_label(f)), 'clause': cl, 'what': w}
                                     for w in probs[:1]]}
    data = case['xml'].encode('utf-8')
    obs = []
    fails = []
    from harness.impl.c08 import other_documents_prelude
    other_documents_prelude()          # other documents of this process on which ignoreErrors() is used

    def fail(clause, what):
        sig = 'C07:%s' % clause
        if len(fails) < 4 and not any(f['signature'] == sig for f in fails):
            fails.append({'signature': sig, 'clause': clause.split(':')[0], 'what': what})
    keep = None
    for names in case['masks']:
        col, esc = load(data, None if names is None else [K[n] for n in names])
        o = {'mask': names or [], 'esc': exc_code(esc) if esc is not None else 0,
             'esc_name': type(esc).__name__ if esc is not None else None,
             'errs': [exc_code(e) for e in getattr(col, 'errors', [])] if col is not None else [],
             'items': [], 'nodes': [], 'scenes': [], 'default': None}
        if col is not None and getattr(col, 'xmlnode', None) is not None:
            ob = Observer(col)
            try:
                o.update(ob.observe())
            except Exception as e:  # noqa
                fail('observe:' + type(e).__name__, 'walking the loaded model raised %r' % (e,))
            for kind, what in ob.identity_failures():
                fail('identity:' + kind, what + ' (ignore=%s)' % (names,))
            for kind, what in ob.structure:
                fail('identity:' + kind, what + ' (ignore=%s)' % (names,))
            if esc is None and keep is None:
                keep = (col, ob, names)
        if esc is not None and exc_code(esc) > 6:
            fail('raw-exception:' + type(esc).__name__, 'a raw %s escapes the load (ignore=%s): %s' % (type(esc).__name__, names, esc))
        obs.append(o)
    out = {'obs': obs}
    if keep is not None and case.get('renames') is not None:
        col, ob, names = keep
        sf, written = save_clause(col, ob, case['renames'])
        for kind, what in sf:
            fail(kind, what)
        if written is not None and not sf and not col.errors:
            # (a document loaded with ignored errors loses the failed objects on save; only a clean
            # load is required to come back unchanged)
            col2, esc2 = load(written, None if names is None else [K[n] for n in names])
            if esc2 is not None:
                fail('saved-reload:' + type(esc2).__name__, 'the written document does not load again: %r' % (esc2,))
            elif col2 is not None:
                ob2 = Observer(col2)
                o2 = ob2.observe()
                for kind, what in ob2.identity_failures():
                    fail('saved-identity:' + kind, 'after save and reload: ' + what)

                def shape(o):
                    return [len(o['items']), [[len(n[2])] for n in o['nodes']], [[len(n[2]) for n in s[2]] for s in o['scenes']],
                            o['default'] is None]
                k1, k2 = effect_kinds(col), effect_kinds(col2)
                bad = [(e, p, k1[e][p], k2.get(e, {}).get(p)) for e in k1 for p in k1[e]
                       if k1[e][p].startswith('map:') and k2.get(e, {}).get(p) != k1[e][p]]
                if bad:
                    fail('saved-reload-effect', 'after save and reload a shading property is no longer what it was '
                                                '(effect, property, saved, reloaded): %s' % (bad[:3],))
                o1 = {k: obs[[x['mask'] for x in obs].index(names or [])][k] for k in ('items', 'nodes', 'scenes', 'default')}
                nconstructed = 3 * sum(1 for r in case['renames'] if r[0] == 'construct')
                s1 = shape(o1)
                s1[0] += nconstructed
                if s1 != shape(o2) or len(col2.errors) != len(col.errors):
                    fail('saved-reload-differs', 'the written document reloads with different bindings: %s vs %s, errors %s'
                         % (shape(o1), shape(o2), [type(e).__name__ for e in col2.errors]))
    out['fails'] = fails
    return out


def main():
    payload = json.load(sys.stdin)
    out = []
    for c in payload['cases']:
        try:
            out.append(run_case(c))
        except Exception as e:  # noqa
            import traceback
            out.append({'obs': [], 'fails': [{'signature': 'C07:worker-exception:' + type(e).__name__, 'clause': 'worker',
                                              'what': 'observing this load raised %r' % (e,),
                                              'detail': traceback.format_exc()[-1500:]}]})
    json.dump(out, sys.stdout)


if __name__ == '__main__':
    main()
