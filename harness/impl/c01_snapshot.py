"""Canonical public view of a collada.Collada object (used by the C01 and C16 workers; runs in
the worker process only).  Library lists in order, ids, names, per-primitive kind / material /
input table / index array (shape + contents), source arrays, node trees with transform kinds and
parameters, reference targets as (library, id, position of the object in that library by
identity), light / camera / effect / image / asset parameters, default scene, error classes.
Never addresses, timestamps of "now", or dict orders.  Floats are kept as Python floats (exact
images of the float32 / float64 values); comparison policy is the caller's."""
import datetime

import numpy


def arr(a):
    if a is None:
        return None
    a = numpy.asarray(a)
    if a.dtype.kind in 'iu':
        return {'shape': list(a.shape), 'dtype': 'int', 'v': [int(x) for x in a.reshape(-1).tolist()]}
    if a.dtype.kind == 'f':
        return {'shape': list(a.shape), 'dtype': 'float%d' % (a.dtype.itemsize * 8),
                'v': [float(x) for x in a.reshape(-1).tolist()]}
    return {'shape': list(a.shape), 'dtype': 'str', 'v': [str(x) for x in a.reshape(-1).tolist()]}


def num(x):
    if x is None:
        return None
    if isinstance(x, (numpy.floating, float)):
        return float(x)
    if isinstance(x, (numpy.integer, int)) and not isinstance(x, bool):
        return int(x)
    return x


def val(x):
    if x is None or isinstance(x, (str, bool)):
        return x
    if isinstance(x, (int, float, numpy.floating, numpy.integer)):
        return num(x)
    if isinstance(x, numpy.ndarray):
        return arr(x)
    if isinstance(x, (tuple, list)):
        return [val(y) for y in x]
    if isinstance(x, datetime.datetime):
        return x.isoformat()
    return repr(type(x))


class Snap(object):
    def __init__(self, col):
        self.col = col

    def ref(self, libname, obj):
        """a reference target: its id and where the *same object* sits in the library"""
        if obj is None:
            return None
        lib = getattr(self.col, libname)
        pos = [i for i, o in enumerate(lib) if o is obj]
        return {'lib': libname, 'id': getattr(obj, 'id', None), 'pos': pos[0] if pos else -1}

    # ---- asset
    def asset(self, a):
        if a is None:
            return None
        return {'created': val(a.created), 'modified': val(a.modified), 'title': a.title, 'subject': a.subject,
                'revision': a.revision, 'keywords': a.keywords, 'unitname': a.unitname,
                'unitmeter': num(a.unitmeter), 'upaxis': a.upaxis,
                'contributors': [{'author': c.author, 'authoring_tool': c.authoring_tool, 'comments': c.comments,
                                  'copyright': c.copyright, 'source_data': c.source_data}
                                 for c in a.contributors]}

    # ---- geometry
    def source(self, s):
        return {'class': type(s).__name__, 'id': s.id, 'components': list(s.components), 'data': arr(s.data)}

    def inputs(self, p):
        rows = []
        for sem, lst in p.sources.items():
            for t in lst:
                rows.append([int(t[0]), t[1], t[2], None if t[3] is None else str(t[3]), getattr(t[4], 'id', None)])
        return sorted(rows, key=lambda r: (r[0], r[1], r[2], str(r[3])))

    def primitive(self, p):
        d = {'class': type(p).__name__, 'material': p.material, 'inputs': self.inputs(p),
             'index': arr(p.index), 'len': len(p)}
        if hasattr(p, 'vcounts'):
            d['vcounts'] = arr(p.vcounts)
        for nm in ('vertex_index', 'normal_index'):
            d[nm] = arr(getattr(p, nm, None))
        for nm in ('texcoord_indexset', 'textangent_indexset', 'texbinormal_indexset'):
            v = getattr(p, nm, None)
            d[nm] = None if v is None else [arr(x) for x in v]
        return d

    def geometry(self, g):
        srcs = {}
        for s in g.sourceById.values():
            if hasattr(s, 'data') and hasattr(s, 'components'):
                srcs[id(s)] = s
        return {'id': g.id, 'name': g.name, 'double_sided': bool(g.double_sided),
                'sources': sorted((self.source(s) for s in srcs.values()), key=lambda d: str(d['id'])),
                'primitives': [self.primitive(p) for p in g.primitives]}

    def controller(self, c):
        d = {'class': type(c).__name__, 'id': getattr(c, 'id', None)}
        g = getattr(c, 'geometry', None)
        if g is not None:
            d['geometry'] = self.ref('geometries', g)
        return d

    # ---- lights, cameras
    def light(self, l):
        d = {'class': type(l).__name__, 'id': l.id, 'color': [num(x) for x in l.color]}
        for nm in ('constant_att', 'linear_att', 'quad_att', 'zfar', 'falloff_ang', 'falloff_exp'):
            if hasattr(l, nm):
                d[nm] = num(getattr(l, nm))
        return d

    def camera(self, c):
        d = {'class': type(c).__name__, 'id': c.id}
        for nm in ('xfov', 'yfov', 'xmag', 'ymag', 'aspect_ratio', 'znear', 'zfar'):
            if hasattr(c, nm):
                d[nm] = num(getattr(c, nm))
        return d

    # ---- images, effects, materials
    def image(self, i):
        return {'id': i.id, 'path': i.path}

    def param(self, p):
        from collada import material
        if isinstance(p, material.Surface):
            return {'class': 'Surface', 'id': p.id, 'image': self.ref('images', p.image), 'format': p.format}
        if isinstance(p, material.Sampler2D):
            return {'class': 'Sampler2D', 'id': p.id, 'surface': p.surface.id if p.surface is not None else None,
                    'minfilter': p.minfilter, 'magfilter': p.magfilter}
        return {'class': type(p).__name__}

    def effect_value(self, e, v):
        from collada import material
        if isinstance(v, material.Map):
            pos = [i for i, p in enumerate(e.params) if p is v.sampler]
            return {'map': {'sampler': v.sampler.id, 'sampler_pos': pos[0] if pos else -1, 'texcoord': v.texcoord}}
        return val(v)

    def effect(self, e):
        d = {'id': e.id, 'shadingtype': e.shadingtype, 'double_sided': bool(e.double_sided),
             'opaque_mode': e.opaque_mode, 'params': [self.param(p) for p in e.params],
             'bumpmap': self.effect_value(e, e.bumpmap)}
        for prop in e.supported:
            d[prop] = self.effect_value(e, getattr(e, prop))
        return d

    def material(self, m):
        return {'id': m.id, 'name': m.name, 'effect': self.ref('effects', m.effect)}

    # ---- scene graph
    def transform(self, t):
        from collada import scene
        k = type(t).__name__
        d = {'class': k}
        if isinstance(t, (scene.TranslateTransform, scene.ScaleTransform)):
            d['params'] = [num(t.x), num(t.y), num(t.z)]
        elif isinstance(t, scene.RotateTransform):
            d['params'] = [num(t.x), num(t.y), num(t.z), num(t.angle)]
        elif isinstance(t, scene.LookAtTransform):
            d['params'] = [float(x) for x in list(t.eye) + list(t.interest) + list(t.upvector)]
        elif isinstance(t, scene.MatrixTransform):
            d['params'] = [float(x) for x in numpy.asarray(t.matrix).reshape(-1).tolist()]
        return d

    def matnode(self, m):
        return {'symbol': m.symbol, 'target': self.ref('materials', m.target),
                'inputs': [[str(x) for x in i] for i in m.inputs]}

    def node(self, n, depth=0):
        from collada import scene
        if depth > 40:
            return {'class': 'TOO-DEEP'}
        if isinstance(n, scene.NodeNode):
            return {'class': 'NodeNode', 'node': self.ref('nodes', n.node),
                    'node_id': getattr(n.node, 'id', None)}
        if isinstance(n, scene.Node):
            return {'class': 'Node', 'id': n.id, 'name': getattr(n, 'name', None),
                    'transforms': [self.transform(t) for t in n.transforms],
                    'children': [self.node(c, depth + 1) for c in n.children]}
        if isinstance(n, scene.GeometryNode):
            return {'class': 'GeometryNode', 'geometry': self.ref('geometries', n.geometry),
                    'materials': [self.matnode(m) for m in n.materials]}
        if isinstance(n, scene.ControllerNode):
            return {'class': 'ControllerNode', 'controller': self.ref('controllers', n.controller),
                    'materials': [self.matnode(m) for m in n.materials]}
        if isinstance(n, scene.CameraNode):
            return {'class': 'CameraNode', 'camera': self.ref('cameras', n.camera)}
        if isinstance(n, scene.LightNode):
            return {'class': 'LightNode', 'light': self.ref('lights', n.light)}
        if isinstance(n, scene.ExtraNode):
            return {'class': 'ExtraNode'}
        return {'class': type(n).__name__}

    def scene(self, s):
        return {'id': s.id, 'nodes': [self.node(n) for n in s.nodes]}

    def all(self):
        c = self.col
        return {
            'asset': self.asset(c.assetInfo),
            'geometries': [self.geometry(g) for g in c.geometries],
            'controllers': [self.controller(x) for x in c.controllers],
            'lights': [self.light(x) for x in c.lights],
            'cameras': [self.camera(x) for x in c.cameras],
            'images': [self.image(x) for x in c.images],
            'effects': [self.effect(x) for x in c.effects],
            'materials': [self.material(x) for x in c.materials],
            'nodes': [self.node(x) for x in c.nodes],
            'scenes': [self.scene(x) for x in c.scenes],
            'scene': self.ref('scenes', c.scene),
            'errors': [type(e).__name__ for e in c.errors],
        }


def snapshot(col):
    return Snap(col).all()
