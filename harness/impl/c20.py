"""Implementation worker for C20 (documents are isolated from one another).

A document program = how the document comes to be (XML bytes with an ignore mask, a shipped
file, or constructors) and a list of steps (load, edits, saves, snapshots).  Modes:
  solo    - one program alone (the harness starts a fresh process per program);
  sched   - several programs in one process, steps in a given global order; around every step
            the module-level state is deep-hashed; at the end the object graphs reachable from
            the documents are intersected by identity;
  threads - one thread per program, a barrier before every step so that the steps of all
            documents overlap, tiny switch interval; the module-level state is hashed at every
            barrier (all threads parked).
Observations are digests of values only (no addresses), so processes agree on them.
"""
import hashlib
import io
import itertools
import json
import os
import sys
import threading
import types

import numpy

from harness.impl import c17_walk as W


def _sha(b):
    return hashlib.sha1(b).hexdigest()[:16]


# ------------------------------------------------------------------ module-level state

def _defaults_digest(f):
    f = getattr(f, '__func__', f)
    parts = []
    for name in ('__defaults__', '__kwdefaults__'):
        v = getattr(f, name, None)
        if v:
            parts.append(W.value_hash(v, skip_hidden=False))
    ci = getattr(f, 'cache_info', None)
    if callable(ci):
        try:
            parts.append(repr(ci()))
        except Exception:  # noqa
            pass
    w = getattr(f, '__wrapped__', None)
    if w is not None and w is not f:
        parts.append(_defaults_digest(w))
    d = getattr(f, '__dict__', None)
    if d:
        parts.append(W.value_hash({k: v for k, v in d.items() if k != '__wrapped__'}, skip_hidden=False))
    return parts


def _class_digest(cls, out, prefix):
    for k, v in sorted(vars(cls).items()):
        if k in ('__dict__', '__weakref__', '__doc__', '__module__', '__qualname__', '__firstlineno__',
                 '__static_attributes__'):
            continue
        p = '%s.%s' % (prefix, k)
        if isinstance(v, (staticmethod, classmethod)):
            v = v.__func__
        if isinstance(v, (types.FunctionType, types.BuiltinFunctionType)):
            dd = _defaults_digest(v)
            if dd:
                out[p + '()'] = W._h(*dd)
        elif isinstance(v, property):
            for a in ('fget', 'fset', 'fdel'):
                f = getattr(v, a)
                if f is not None:
                    dd = _defaults_digest(f)
                    if dd:
                        out['%s.%s()' % (p, a)] = W._h(*dd)
        elif isinstance(v, type):
            if v.__module__ == cls.__module__:
                _class_digest(v, out, p)
        elif isinstance(v, (types.MemberDescriptorType, types.GetSetDescriptorType, types.WrapperDescriptorType,
                            types.MethodDescriptorType)):
            continue
        else:
            out[p] = W.value_hash(v, skip_hidden=False)


def global_state():
    """{location: digest} of everything module-level a document operation could leave a trace in"""
    out = {}
    for mname in sorted(sys.modules):
        if not (mname == 'collada' or mname.startswith('collada.')) or mname.startswith('collada.tests'):
            continue
        m = sys.modules[mname]
        if m is None:
            continue
        for k, v in sorted(vars(m).items()):
            if k.startswith('__') and k.endswith('__'):
                continue
            p = '%s:%s' % (mname, k)
            if isinstance(v, types.ModuleType):
                out[p] = 'module ' + v.__name__
            elif isinstance(v, type):
                if getattr(v, '__module__', '') == mname:
                    _class_digest(v, out, p)
                else:
                    out[p] = 'class %s.%s' % (v.__module__, v.__qualname__)
            elif isinstance(v, (types.FunctionType, types.BuiltinFunctionType)):
                out[p] = W.func_digest(v)
                dd = _defaults_digest(v)
                if dd:
                    out[p + '()'] = W._h(*dd)
            else:
                out[p] = W.value_hash(v, skip_hidden=False)
    import xml.etree.ElementTree as ET
    out['etree:_namespace_map'] = W._h(sorted(ET._namespace_map.items()))
    out['etree:register_namespace'] = W.func_digest(ET.register_namespace) if isinstance(ET.register_namespace, types.FunctionType) else 'builtin'
    out['numpy:printoptions'] = W._h(sorted((k, repr(v)) for k, v in numpy.get_printoptions().items()))
    out['numpy:geterr'] = W._h(sorted(numpy.geterr().items()))
    import decimal
    import locale
    import warnings
    out['warnings:filters'] = W._h([W.scrub(repr(f)) for f in warnings.filters])
    out['locale'] = W._h(locale.setlocale(locale.LC_ALL))
    dc = decimal.getcontext()
    out['decimal:context'] = W._h(dc.prec, dc.rounding, dc.Emin, dc.Emax, sorted(str(k) for k, v in dc.traps.items() if v))
    out['os:environ'] = W._h(sorted(os.environ.items()))
    out['sys:switchinterval-untouched'] = 'n/a'
    out['os:cwd'] = os.getcwd()
    out['sys:recursionlimit'] = str(sys.getrecursionlimit())
    return out


def preload():
    """import every module of the package up front, so that a lazy import inside an operation is
    not mistaken for a change of module-level state"""
    import importlib
    import pkgutil
    import collada
    for m in pkgutil.walk_packages(collada.__path__, 'collada.'):
        if m.name.startswith('collada.tests') or m.name == 'collada.__main__':
            continue
        try:
            importlib.import_module(m.name)
        except Exception:  # noqa  (collada.schema needs lxml)
            pass


def global_digest():
    g = global_state()
    return W._h(*['%s=%s' % (k, g[k]) for k in sorted(g)])


def global_diff(a, b):
    return sorted(k for k in set(a) | set(b) if a.get(k) != b.get(k))


# ------------------------------------------------------------------ documents and steps

class Gate(object):
    """parks the thread that owns it at its next I/O point (sink.write, source.read, auxiliary
    file loader) until released, so that whole operations of other documents run while this
    document is in the middle of one - deterministically, no timing involved"""

    def __init__(self):
        self.entered = threading.Event()
        self.release = threading.Event()
        self.armed = False
        self.where = None
        self.only = None      # park only at this kind of point (None: the first one reached)

    def hit(self, where):
        if self.armed and not self.entered.is_set() and self.only in (None, where):
            self.where = where
            self.entered.set()
            self.release.wait(120)


class Sink(object):
    """the file-like object documents are written to (a socket or pipe rather than a BytesIO)"""

    def __init__(self, gate=None):
        self.buf = io.BytesIO()
        self.gate = gate

    def write(self, data):
        if self.gate is not None:
            self.gate.hit('sink.write')
        return self.buf.write(data)

    def getvalue(self):
        return self.buf.getvalue()


class Reader(object):
    """the file-like object documents are loaded from"""

    def __init__(self, data, gate=None):
        self.data = data
        self.gate = gate

    def read(self, *a):
        if self.gate is not None:
            self.gate.hit('source.read')
        d, self.data = self.data, b''
        return d


def aux_loader_for(name, st=None):
    def aux_loader(fname):
        if st is not None and st.gate is not None:
            st.gate.hit('aux_file_loader')
        return ('bytes-of-%s-for-%s' % (fname, name)).encode()
    return aux_loader


TEMP_DIRS = []


def _cleanup():
    import shutil
    for d in TEMP_DIRS:
        shutil.rmtree(d, ignore_errors=True)


def gated_error_class(st, basename):
    """an entry for the ignore list that behaves as collada.common.<basename> but whose isinstance
    check is an I/O-like point: Collada.handleError consults it wherever an error is handled, i.e.
    deep inside the loaders (inside the recursion over nested nodes)"""
    import collada
    base = getattr(collada.common, basename)

    class Meta(type):
        def __instancecheck__(cls, obj):
            if st.gate is not None:
                st.gate.hit('ignore.isinstance')
            return isinstance(obj, base)
    return Meta('Gated' + basename, (), {})


# the caller's ignore lists: one list object per mask, handed to every document of the process
# that is loaded with that mask (a user's IGNORE constant); it must come back unchanged
CALLER_MASKS = {}
HELPERS = {}


def caller_mask(names):
    import collada
    if not names:
        return None
    key = tuple(names)
    if key not in CALLER_MASKS:
        CALLER_MASKS[key] = [getattr(collada.common, n) for n in names]
    return CALLER_MASKS[key]


OUTDIR = [None]
_UIDS = itertools.count()


def outdir():
    """the one directory every document of this process is written into by file name"""
    if OUTDIR[0] is None:
        import tempfile
        OUTDIR[0] = tempfile.mkdtemp(prefix='verif-c20-out-')
        TEMP_DIRS.append(OUTDIR[0])
    return OUTDIR[0]


class DocState(object):
    def __init__(self, prog):
        self.uid = next(_UIDS)
        self.prog = prog
        self.doc = None
        self.at = 0
        self.gate = None


def exc_obs(e):
    msg = W.scrub(str(e))
    if isinstance(e, RecursionError):
        msg = ''        # where exactly the limit is hit words the message differently
    for d in TEMP_DIRS:
        msg = msg.replace(d, '<dir>')
    return ['raised', type(e).__name__, msg[:300]]


def doc_obs(doc):
    import collada
    errs = [[type(e).__name__, W.scrub(str(e))[:200]] for e in doc.errors]
    mask = [getattr(m, '__name__', repr(m)) for m in doc.maskedErrors]
    mask.append('caller-lists:' + ';'.join('%s=%s' % (','.join(k), ','.join(c.__name__ for c in v))
                                            for k, v in sorted(CALLER_MASKS.items()) if list(k) != [c.__name__ for c in v]))
    ids = [[o.id for o in lib] for lib in (doc.geometries, doc.effects, doc.materials, doc.nodes, doc.scenes,
                                           doc.cameras, doc.lights, doc.images, doc.controllers)]
    fn = doc.filename
    try:
        # the scratch directory a document was loaded from is not part of the observation
        if isinstance(fn, str) and os.path.dirname(fn) in TEMP_DIRS:
            doc.filename = os.path.basename(fn)
        vh = W.value_hash(doc)
    finally:
        doc.filename = fn
    return [vh, errs, mask, doc.tag('probe'), ids]


def do_load(st):
    import collada
    from harness.impl import c17
    prog = st.prog
    src = prog['source']
    names = prog.get('ignore') or []
    if any(n.startswith('Gated') for n in names):
        mask = [gated_error_class(st, n[5:]) if n.startswith('Gated') else getattr(collada.common, n) for n in names]
    else:
        mask = caller_mask(names)
    aux_loader = aux_loader_for(prog['name'], st)
    try:
        if src['kind'] == 'xml':
            st.doc = collada.Collada(Reader(src['xml'].encode('utf-8'), st.gate), ignore=mask, aux_file_loader=aux_loader)
        elif src['kind'] == 'zip':
            # an archive with the document and its auxiliary files; member names are the same in
            # every archive, the bytes are not
            import zipfile
            zb = io.BytesIO()
            with zipfile.ZipFile(zb, 'w') as z:
                z.writestr(src['member'], src['xml'])
                for n, d in sorted(src['aux'].items()):
                    z.writestr(n, d)
            st.doc = collada.Collada(Reader(zb.getvalue(), st.gate), ignore=mask)
        elif src['kind'] == 'dir':
            # a document on disk next to its auxiliary files (same file names in every directory)
            import tempfile
            st.tmp = tempfile.mkdtemp(prefix='verif-c20-')
            with open(os.path.join(st.tmp, src['member']), 'w') as f:
                f.write(src['xml'])
            for n, d in sorted(src['aux'].items()):
                os.makedirs(os.path.dirname(os.path.join(st.tmp, n)) or st.tmp, exist_ok=True)
                with open(os.path.join(st.tmp, n), 'w') as f:
                    f.write(d)
            TEMP_DIRS.append(st.tmp)
            st.doc = collada.Collada(os.path.join(st.tmp, src['member']), ignore=mask)
        elif src['kind'] == 'file':
            st.doc = collada.Collada(os.path.join(c17.data_dir(), src['file']), ignore=mask)
        else:
            st.doc = c17.build_ctor(src['spec'])
            if mask:
                st.doc.ignoreErrors(*mask)
    except Exception as e:  # noqa
        st.doc = None
        return exc_obs(e)
    return ['ok'] + doc_obs(st.doc)


def do_edit(doc, k, a):
    import collada
    from collada import scene, geometry, source, material
    if k == 'rename_geometry':
        if doc.geometries:
            g = doc.geometries[a % len(doc.geometries)]
            g.id = 'renamed-%d' % a
            doc.geometries = list(doc.geometries)
    elif k == 'add_node':
        # constructors called with their defaults, then the lists they made are filled
        n = scene.Node('added-%d' % a)
        n.transforms.append(scene.TranslateTransform(float(a), 1.0, 2.0))
        if doc.geometries:
            gn = scene.GeometryNode(doc.geometries[a % len(doc.geometries)])
            if doc.materials:
                gn.materials.append(scene.MaterialNode('sym%d' % (a % 2), doc.materials[a % len(doc.materials)], inputs=[]))
            n.children.append(gn)
        if doc.scene is None:
            sc = scene.Scene('scene-added', [])
            doc.scenes.append(sc)
            doc.scene = sc
        doc.scene.nodes.append(n)
    elif k == 'add_geometry':
        vs = source.FloatSource('geom%d-pos' % (a % 2), numpy.array([0, 0, 0, a, 0, 0, 0, a + 1, 0], dtype=numpy.float32), ('X', 'Y', 'Z'))
        g = geometry.Geometry(doc, 'geom%d' % (a % 2), 'added', [vs])
        il = source.InputList()
        il.addInput(0, 'VERTEX', '#geom%d-pos' % (a % 2))
        g.primitives.append(g.createTriangleSet(numpy.array([0, 1, 2], dtype=numpy.int32), il, 'sym0'))
        doc.geometries.append(g)
    elif k == 'add_primitive':
        # a primitive added to a LOADED geometry through its <vertices> id, with helper objects the
        # user keeps around and reuses for every document of the process (one InputList per layout)
        for g in doc.geometries:
            vid = next((i for i, v in g.sourceById.items() if isinstance(v, dict)), None)
            if vid is None:
                continue
            il = HELPERS.get(('inputlist', vid))
            if il is None:
                il = source.InputList()
                il.addInput(0, 'VERTEX', '#' + vid)
                HELPERS[('inputlist', vid)] = il
            n = len(g.sourceById[vid]['POSITION'].data)
            idx = numpy.array([0, a % n, (a + 1) % n], dtype=numpy.int32)
            g.primitives.append(g.createTriangleSet(idx, il, 'sym%d' % (a % 2)))
            break
    elif k == 'add_primitive_semantic':
        # a primitive added through a FRESH InputList naming a semantic from a small alphabet that also
        # occurs as foreign semantic in loaded documents; what addInput does (accept or raise) is observed
        sem = ['WEIRD', 'COLOR', 'WEIGHT', 'JOINT'][a % 4]
        res = []
        for g in doc.geometries:
            srcs = [i for i, v in g.sourceById.items() if not isinstance(v, dict)]
            if not srcs:
                continue
            il = source.InputList()
            il.addInput(0, 'VERTEX', '#' + srcs[0])
            try:
                il.addInput(0, sem, '#' + srcs[0])
                res.append('accepted')
            except Exception as e:  # noqa
                res.append(['raised', type(e).__name__])
            res.append(sorted(il.inputs))
            try:
                g.primitives.append(g.createLineSet(numpy.array([0, 1], dtype=numpy.int32), il, None))
            except Exception as e:  # noqa
                res.append(['raised', type(e).__name__])
            break
        return res
    elif k == 'effect_color':
        if doc.effects:
            e = doc.effects[a % len(doc.effects)]
            e.diffuse = (0.125 * (a % 8), 0.5, 0.25, 1.0)
            e.shininess = float(a)
    elif k == 'add_effect':
        e = material.Effect('effect%d' % (a % 2) if a % 3 else 'effect-x%d' % a, [], 'phong', diffuse=(0.5, 0.25, 0.125 * (a % 8), 1.0))
        doc.effects.append(e)
        doc.materials.append(material.Material('material%d' % (a % 2) if a % 3 else 'material-x%d' % a, 'added', e))
    elif k == 'ignore':
        doc.ignoreErrors(collada.common.DaeMalformedError if a % 2 else collada.common.DaeUnsupportedError)
    elif k == 'remove_geometry':
        if doc.geometries:
            doc.geometries.pop()
    elif k == 'scale_vertices':
        # the usual way to edit geometry: in place on the source arrays
        for g in doc.geometries:
            for src in g.sourceById.values():
                d = getattr(src, 'data', None)
                if isinstance(d, numpy.ndarray) and d.dtype.kind == 'f' and d.size:
                    d *= 2.0
                    d[0] += a
                    break
    elif k == 'asset':
        doc.assetInfo.title = 'title-%d' % a
        doc.assetInfo.unitname = 'unit%d' % a
        doc.assetInfo.unitmeter = 0.5 * (a + 1)
    elif k == 'query':
        # read-only use; what it returns is part of the observation (a cache shared between
        # documents shows in the answers, not in the document)
        from harness.impl.c17 import canon
        res = []
        for g in doc.geometries:
            for p in g.primitives:
                try:
                    res.append([list(t) for t in p.getInputList().getList()])
                except Exception as e:  # noqa
                    res.append(['raised', type(e).__name__])
                if hasattr(p, 'triangleset'):
                    ts = p.triangleset()
                    res.append([canon(ts.index), canon(ts.vertex), len(ts)])
        if doc.scene is not None:
            for bg in doc.scene.objects('geometry'):
                for bp in bg.primitives():
                    res.append([canon(bp.vertex), [canon(x) for x in itertools.islice(bp.shapes(), 4)]])
                    if hasattr(bp, 'triangleset'):
                        res.append(canon(bp.triangleset().vertex))
        for im in doc.images:
            try:
                res.append(canon(im.data))
            except Exception as e:  # noqa
                res.append(['raised', type(e).__name__])
        res.append([W.scrub(str(o)) for lib in (doc.geometries, doc.effects, doc.materials, doc.nodes, doc.scenes) for o in lib])
        return res
    else:
        raise ValueError('unknown edit %r' % (k,))


def run_step(st):
    """executes the document's next step and returns its observation (JSON-able)"""
    step = st.prog['steps'][st.at]
    st.at += 1
    k = step[0]
    if k == 'load':
        return do_load(st)
    if st.doc is None:
        return ['no-document']
    doc = st.doc
    try:
        if k == 'edit':
            r = do_edit(doc, step[1], step[2])
            return ['ok'] + doc_obs(doc) + [W._h(json.dumps(r, default=str))]
        if k == 'save':
            buf = Sink(st.gate)
            doc.write(buf)
            return ['bytes', _sha(buf.getvalue()), len(buf.getvalue())] + doc_obs(doc)
        if k == 'save_path':
            # written by FILE NAME into the directory all documents of the process share; what the
            # file holds afterwards is the observation
            path = os.path.join(outdir(), 'document-%d.dae' % st.uid)
            if os.path.exists(path):
                os.remove(path)
            doc.write(path)
            with open(path, 'rb') as f:
                data = f.read()
            return ['bytes', _sha(data), len(data)] + doc_obs(doc)
        if k == 'snap':
            return ['ok'] + doc_obs(doc)
    except Exception as e:  # noqa
        return exc_obs(e) + doc_obs(doc)
    raise ValueError('unknown step %r' % (k,))


def obs_digest(o):
    return W._h(json.dumps(o, sort_keys=True, default=str))


def sharing(states):
    """mutable objects reachable from two different documents"""
    maps = [(i, W.mutable_ids(st.doc)) for i, st in enumerate(states) if st.doc is not None]
    shared = []
    for x in range(len(maps)):
        for y in range(x + 1, len(maps)):
            i, a = maps[x]
            j, b = maps[y]
            for k in set(a) & set(b):
                shared.append([i, a[k][0], j, b[k][0], type(a[k][1]).__name__])
    return shared


# ------------------------------------------------------------------ modes

def mode_solo(payload):
    st = DocState(payload['prog'])
    out = []
    for _ in st.prog['steps']:
        o = run_step(st)
        out.append({'digest': obs_digest(o), 'obs': o})
    return {'steps': out}


def mode_sched(payload):
    states = [DocState(p) for p in payload['progs']]
    g0 = global_state()
    gprev = g0
    out = []
    gdiff = []
    for i in payload['schedule']:
        st = states[i]
        gb = W._h(*['%s=%s' % (k, gprev[k]) for k in sorted(gprev)])
        o = run_step(st)
        gnow = global_state()
        ga = W._h(*['%s=%s' % (k, gnow[k]) for k in sorted(gnow)])
        if ga != gb and len(gdiff) < 5:
            gdiff.append({'doc': i, 'step': st.prog['steps'][st.at - 1], 'changed': global_diff(gprev, gnow)[:8]})
        gprev = gnow
        out.append({'doc': i, 'digest': obs_digest(o), 'obs': o, 'g_before': gb, 'g_after': ga})
    return {'steps': out, 'shared': sharing(states)[:10], 'global_changes': gdiff}


def mode_threads(payload):
    progs = payload['progs']
    n = len(progs)
    nsteps = max(len(p['steps']) for p in progs)
    rounds = []
    old = sys.getswitchinterval()
    sys.setswitchinterval(1e-6)
    try:
        for _ in range(payload.get('rounds', 1)):
            states = [DocState(p) for p in progs]
            results = [[] for _ in progs]
            gl = []
            crashes = []

            def at_barrier():
                gl.append(global_digest())
            bar = threading.Barrier(n, action=at_barrier)

            def work(i):
                st = states[i]
                try:
                    for s in range(nsteps):
                        bar.wait(timeout=120)
                        if s < len(st.prog['steps']):
                            o = run_step(st)
                            results[i].append({'digest': obs_digest(o), 'obs': o})
                    bar.wait(timeout=120)
                except Exception as e:  # noqa
                    crashes.append([i, type(e).__name__, W.scrub(str(e))[:200]])
                    try:
                        bar.abort()
                    except Exception:  # noqa
                        pass
            ts = [threading.Thread(target=work, args=(i,)) for i in range(n)]
            for t in ts:
                t.start()
            for t in ts:
                t.join(300)
            rounds.append({'results': results, 'globals': gl, 'shared': sharing(states)[:10], 'crashes': crashes})
    finally:
        sys.setswitchinterval(old)
    return {'rounds': rounds}


def mode_batch(payload):
    """a long sequential batch: the programs are handled one after the other, each from load to
    end, and every document is DROPPED (del + gc.collect()) before the next is loaded - later
    documents are allocated where earlier ones lived.  order = indices into progs."""
    import gc
    progs = payload['progs']
    g0 = global_digest()
    out = []
    for j in payload['order']:
        st = DocState(progs[j])
        rs = []
        for _ in st.prog['steps']:
            o = run_step(st)
            rs.append({'digest': obs_digest(o), 'obs': o})
        out.append({'prog': j, 'steps': rs})
        st.doc = None
        del st
        gc.collect()
    return {'instances': out, 'globals': [[g0, global_digest()]]}


def mode_gated(payload):
    """progs[0] (and, with parked=2, then progs[1]) are parked at an I/O point of their step
    gate_step[i]; while they are parked INSIDE those operations every other program runs from load
    to end in this thread; then the parked ones are released one after the other in `release` order
    (each runs to its end before the next is released).  Module-level and interpreter-wide state is
    sampled while the operations are in flight.  Deterministic: no timing involved."""
    progs = payload['progs']
    states = [DocState(p) for p in progs]
    npark = min(payload.get('parked', 1), len(progs))
    steps_ = payload['gate_step'] if isinstance(payload['gate_step'], list) else [payload['gate_step']]
    wheres = payload.get('gate_where')
    wheres = wheres if isinstance(wheres, list) else [wheres]
    g0 = global_state()
    digest = lambda g: W._h(*['%s=%s' % (k, g[k]) for k in sorted(g)])
    results = [[] for _ in progs]
    crashes = []
    gl, gdiff = [], []
    threads, gates = [], []

    def sample(when):
        g = global_state()
        gl.append([digest(g0), digest(g)])
        if g != g0 and len(gdiff) < 4:
            gdiff.append({'when': when, 'changed': global_diff(g0, g)[:8]})

    def runner(i, gate, k_gate):
        st = states[i]
        try:
            for k in range(len(st.prog['steps'])):
                gate.armed = (k == k_gate)
                o = run_step(st)
                results[i].append({'digest': obs_digest(o), 'obs': o})
            gate.armed = False
        except Exception as e:  # noqa
            crashes.append([i, type(e).__name__, W.scrub(str(e))[:200]])
    for i in range(npark):
        gate = Gate()
        gate.only = wheres[i % len(wheres)]
        states[i].gate = gate
        t = threading.Thread(target=runner, args=(i, gate, steps_[i % len(steps_)]))
        t.start()
        while not gate.entered.is_set() and t.is_alive():
            gate.entered.wait(0.02)
        threads.append(t)
        gates.append(gate)
        sample('document %d parked in %s' % (i, gate.where))
    for i in range(npark, len(progs)):
        st = states[i]
        for _ in st.prog['steps']:
            o = run_step(st)
            results[i].append({'digest': obs_digest(o), 'obs': o})
        sample('document %d handled while %d parked' % (i, npark))
    order = list(range(npark))
    if payload.get('release') == 'lifo':
        order.reverse()
    for i in order:
        gates[i].release.set()
        threads[i].join(300)
        sample('document %d released and finished' % i)
    return {'results': results, 'parked': any(g.entered.is_set() for g in gates), 'where': gates[0].where,
            'wheres': [g.where for g in gates], 'globals': gl, 'global_changes': gdiff,
            'shared': sharing(states)[:10], 'crashes': crashes}


def main():
    payload = json.load(sys.stdin)
    W.freeze_clock()
    threading.stack_size(64 * 1024 * 1024)
    preload()
    outdir()
    mode = payload['mode']
    try:
        res = _dispatch(mode, payload)
    finally:
        _cleanup()
    json.dump(res, sys.stdout)


def _dispatch(mode, payload):
    if mode == 'solo':
        res = mode_solo(payload)
    elif mode == 'sched':
        res = mode_sched(payload)
    elif mode == 'threads':
        res = mode_threads(payload)
    elif mode == 'gated':
        res = mode_gated(payload)
    elif mode == 'batch':
        res = mode_batch(payload)
    else:
        raise ValueError(mode)
    return res


if __name__ == '__main__':
    main()
