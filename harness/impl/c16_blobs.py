"""Pure data module shared by the C16 worker and harness (no pycollada): what the auxiliary files
and the user loader's answers contain, and the data id of a content (equal id <=> equal bytes)."""
import zlib

DOC_BASE, DECOY_BASE, ZIP_BASE, CONTENT_BASE = 1000, 3000, 4000, 10000
AUX_FORMS = ['normal', 'normal', 'normal', 'normal', 'empty', 'empty', 'one', 'nul', 'large']
USER_FORMS = ['normal', 'normal', 'normal', 'empty', 'empty', 'nul', 'one', 'large']
RETURN_FORMS = ['bytes', 'bytes', 'bytearray', 'memoryview', 'str']


def content(prefix, j, form):
    if form == 'empty':
        return b''
    if form == 'one':
        return bytes([33 + j % 90])
    if form == 'nul':
        return b'\x00'
    if form == 'large':
        return prefix + b'-%d-' % j + bytes(range(256)) * 700
    return prefix + b'-%d-\x00\xff' % j if prefix == b'AUX' else prefix + b'-%d' % j


def aux_content(kind):
    return content(b'AUX', kind[1], kind[2] if len(kind) > 2 else 'normal')


def user_content(ans):
    return content(b'USR', ans[0], ans[1])


def content_id(b):
    if isinstance(b, str):
        b = b.encode('latin-1', 'replace')
    return CONTENT_BASE + zlib.crc32(bytes(b)) % 1000000


def kind_id(kind):
    t = kind[0]
    if t == 'aux':
        return content_id(aux_content(kind))
    return {'doc': DOC_BASE, 'decoy': DECOY_BASE, 'dir': 0, 'zip': ZIP_BASE}[t] + (kind[1] if len(kind) > 1 else 0)
