"""Implementation worker for C05/C15: loads documents with pycollada and produces the canonical
snapshot of the loaded Collada object (library lists in order, ids, names, per-primitive kind /
material / input table / every index array / source arrays, node trees, instance targets by
object identity, light / camera / effect / image / asset parameters, animations, controllers,
default scene, errors as class names).

Identity: every loaded object keeps the ElementTree element it came from (`xmlnode`); an element
is named by its 1-based pre-order ordinal among the elements of the parsed document (the `uid`
harness/enc/xml2coq.py gives it).  For every reference the snapshot records the uid and id of the
target and `same` = the target *is* (object identity) the object the library walk reached.

Numbers are recorded as float32 keys: repr(float(numpy.float32(v))), 'nan', with -0.0 -> '0.0'.
stdin: {"docs": [{"xml": text, "ignore": bool}], ...}  stdout: [{"snap": ... | "raised": cls}]"""
import io
import json
import sys

import numpy


def fkey(v):
    v = numpy.float32(v)
    if numpy.isnan(v):
        return 'nan'
    r = repr(float(v))
    return '0.0' if r == '-0.0' else r


def fkeys(a):
    return [fkey(x) for x in numpy.asarray(a, dtype=numpy.float64).reshape(-1).tolist()] if a is not None else None


TRANSFORM_KIND = {'TranslateTransform': 'translate', 'RotateTransform': 'rotate', 'ScaleTransform': 'scale',
                  'MatrixTransform': 'matrix', 'LookAtTransform': 'lookat'}


class Snap(object):
    def __init__(self, col):
        self.col = col
        self.uid = {}
        n = 0
        for e in col.xmlnode.getroot().iter():
            if isinstance(e.tag, str):
                n += 1
                self.uid[id(e)] = n
        self.reg = {}     # uid -> object reached by the library walk

    def u(self, obj):
        x = getattr(obj, 'xmlnode', None)
        return self.uid.get(id(x), 0) if x is not None else 0

    def register(self, obj):
        k = self.u(obj)
        if k and k not in self.reg:
            self.reg[k] = obj
        return k

    def ref(self, obj):
        if obj is None:
            return None
        k = self.u(obj)
        return {'uid': k, 'id': getattr(obj, 'id', None), 'same': self.reg.get(k) is obj}

    # ---- sources
    def source(self, s):
        d = {'uid': self.u(s), 'id': s.id, 'kind': type(s).__name__,
             'components': list(s.components) if s.components is not None else None,
             'shape': list(s.data.shape)}
        if type(s).__name__ == 'FloatSource':
            d['data'] = fkeys(s.data)
        else:
            d['data'] = [str(x) for x in s.data.reshape(-1).tolist()]
        return d

    def arr(self, a):
        if a is None:
            return None
        a = numpy.asarray(a)
        return {'shape': list(a.shape), 'data': [int(x) for x in a.reshape(-1).tolist()]}

    def dataref(self, a, geom):
        """a source array exposed by a primitive: which source's data it is (identity) and its values"""
        if a is None:
            return None
        who = None
        for s in geom.sourceById.values():
            if hasattr(s, 'data') and s.data is a:
                who = {'uid': self.u(s), 'id': s.id}
                break
        if who is None:
            # not the very array object of a source (aliasing is not what this snapshot is about): the source
            # holding the same values
            for s in geom.sourceById.values():
                try:
                    if hasattr(s, 'data') and s.data.shape == a.shape and numpy.array_equal(s.data, a, equal_nan=True):
                        who = {'uid': self.u(s), 'id': s.id, 'by': 'value'}
                        break
                except Exception:  # noqa
                    pass
        return {'src': who, 'shape': list(a.shape), 'data': fkeys(a)}

    def prim(self, p, geom):
        cls = type(p).__name__
        x = p.xmlnode
        d = {'kind': cls, 'uid': self.u(p), 'tag': x.tag.split('}')[-1] if x is not None else None,
             'material': p.material, 'nindices': int(p.nindices)}
        table = []
        for sem, lst in p.sources.items():
            table.append([sem, [[int(t[0]), t[1], t[2], t[3], {'uid': self.u(t[4]), 'id': t[4].id}] for t in lst]])
        d['sources'] = table
        d['vertex'] = self.dataref(p.vertex, geom)
        d['vertex_index'] = self.arr(p.vertex_index)
        d['normal'] = self.dataref(p.normal, geom)
        d['normal_index'] = self.arr(p.normal_index)
        d['texcoordset'] = [self.dataref(a, geom) for a in p.texcoordset]
        d['texcoord_indexset'] = [self.arr(a) for a in p.texcoord_indexset]
        if cls == 'TriangleSet':
            d['textangentset'] = [self.dataref(a, geom) for a in p.textangentset]
            d['textangent_indexset'] = [self.arr(a) for a in p.textangent_indexset]
            d['texbinormalset'] = [self.dataref(a, geom) for a in p.texbinormalset]
            d['texbinormal_indexset'] = [self.arr(a) for a in p.texbinormal_indexset]
            d['ntriangles'] = int(p.ntriangles)
            d['len'] = len(p)
        elif cls == 'LineSet':
            d['nlines'] = int(p.nlines)
            d['len'] = len(p)
        else:
            d['vcounts'] = [int(v) for v in p.vcounts]
            d['polystarts'] = [int(v) for v in p.polystarts]
            d['polyends'] = [int(v) for v in p.polyends]
            d['polyindex'] = self.arr(p.polyindex)
            d['npolygons'] = int(p.npolygons)
            d['nvertices'] = int(p.nvertices)
            d['len'] = len(p)
        d['index'] = self.arr(p.index)
        return d

    def geometry(self, g):
        d = {'uid': self.register(g), 'id': g.id, 'name': g.name, 'double_sided': bool(g.double_sided)}
        srcs = []
        for key, s in g.sourceById.items():
            if isinstance(s, dict):
                srcs.append([key, {'vertices': [[sem, None if v is None else {'uid': self.u(v), 'id': v.id}]
                                                for sem, v in s.items()]}])
            else:
                srcs.append([key, self.source(s)])
        d['sources'] = srcs
        d['prims'] = [self.prim(p, g) for p in g.primitives]
        return d

    # ---- flat classes
    def light(self, L):
        d = {'uid': self.register(L), 'id': L.id, 'kind': type(L).__name__, 'color': fkeys(list(L.color))}
        for a in ('constant_att', 'linear_att', 'quad_att', 'zfar', 'falloff_ang', 'falloff_exp'):
            if hasattr(L, a):
                v = getattr(L, a)
                d[a] = None if v is None else fkey(v)
        return d

    def camera(self, C):
        d = {'uid': self.register(C), 'id': C.id, 'kind': type(C).__name__}
        for a in ('xfov', 'yfov', 'xmag', 'ymag', 'aspect_ratio', 'znear', 'zfar'):
            if hasattr(C, a):
                v = getattr(C, a)
                d[a] = None if v is None else fkey(v)
        return d

    def image(self, I):
        return {'uid': self.register(I), 'id': I.id, 'path': I.path}

    def value(self, v):
        import collada.material as M
        if v is None:
            return None
        if isinstance(v, M.Map):
            return {'map': {'sampler_id': v.sampler.id, 'sampler': self.u(v.sampler), 'texcoord': v.texcoord}}
        if isinstance(v, (tuple, list, numpy.ndarray)):
            try:
                return {'num': fkeys(list(v))}
            except Exception:
                return {'other': repr(v)}
        if isinstance(v, (float, int, numpy.floating)):
            return {'num': [fkey(v)]}
        return {'other': type(v).__name__}

    def effect(self, E):
        import collada.material as M
        d = {'uid': self.register(E), 'id': E.id, 'shadingtype': E.shadingtype, 'double_sided': bool(E.double_sided),
             'opaque_mode': E.opaque_mode, 'props': {}, 'params': []}
        for p in E.params:
            if isinstance(p, M.Surface):
                d['params'].append({'kind': 'Surface', 'uid': self.u(p), 'id': p.id, 'format': p.format,
                                    'image': self.ref(p.image)})
            elif isinstance(p, M.Sampler2D):
                d['params'].append({'kind': 'Sampler2D', 'uid': self.u(p), 'id': p.id, 'minfilter': p.minfilter,
                                    'magfilter': p.magfilter, 'surface_id': p.surface.id, 'surface': self.u(p.surface)})
            else:
                d['params'].append({'kind': type(p).__name__})
        for k in E.supported:
            d['props'][k] = self.value(getattr(E, k))
        d['bumpmap'] = self.value(E.bumpmap)
        return d

    def material(self, m):
        return {'uid': self.register(m), 'id': m.id, 'name': m.name, 'effect': self.ref(m.effect)}

    def asset(self, A):
        if A is None:
            return None

        def dt(x):
            return None if x is None else [x.year, x.month, x.day, x.hour, x.minute, x.second]

        def written(name):
            # an absent (or unreadable) date is replaced by datetime.now() by the loader: not a value of the file
            x = A.xmlnode if self.u(A) else None
            return x is not None and any(isinstance(ch.tag, str) and ch.tag.split('}')[-1] == name for ch in x)
        return {'uid': self.u(A), 'title': A.title, 'subject': A.subject, 'revision': A.revision, 'keywords': A.keywords,
                'unitname': A.unitname, 'unitmeter': None if A.unitmeter is None else fkey(A.unitmeter),
                'upaxis': A.upaxis, 'created': dt(A.created) if written('created') else None,
                'modified': dt(A.modified) if written('modified') else None,
                'contributors': [{'author': c.author, 'authoring_tool': c.authoring_tool, 'comments': c.comments,
                                  'copyright': c.copyright, 'source_data': c.source_data} for c in A.contributors]}

    def animation(self, A):
        return {'uid': self.u(A), 'id': A.id, 'name': A.name,
                'sources': [[k, self.source(s)] for k, s in A.sourceById.items()],
                'children': [self.animation(c) for c in A.children]}

    def controller(self, C):
        cls = type(C).__name__
        d = {'uid': self.register(C), 'id': C.id, 'kind': cls}
        if cls == 'Skin':
            d['geometry'] = self.ref(C.geometry)
            d['bind_shape_matrix'] = fkeys(C.bind_shape_matrix)
            d['sources'] = [[k, self.source(s)] for k, s in C.sourcebyid.items()]
            d['joint_source'] = C.joint_source
            d['joint_matrix_source'] = C.joint_matrix_source
            d['weight_source'] = C.weight_source
            d['weight_joint_source'] = C.weight_joint_source
            d['joint_matrices'] = [[str(k), fkeys(v)] for k, v in C.joint_matrices.items()]
            d['weights'] = fkeys(C.weights.data)
            d['weight_joints'] = [str(x) for x in C.weight_joints.data.reshape(-1).tolist()]
            d['vcounts'] = [int(v) for v in C.vcounts]
            d['offsets'] = [int(v) for v in C.offsets]
            d['nindices'] = int(C.nindices)
            d['joint_index'] = [[int(x) for x in a.tolist()] for a in C.joint_index]
            d['weight_index'] = [[int(x) for x in a.tolist()] for a in C.weight_index]
            d['len'] = len(C)
        else:
            d['source_geometry'] = self.ref(C.source_geometry)
            d['targets'] = [[self.ref(g), fkey(w)] for g, w in C.target_list]
        return d

    # ---- scene graph
    def matnode(self, m):
        return {'uid': self.u(m), 'symbol': m.symbol, 'target': self.ref(m.target),
                'inputs': [[a, b, c] for a, b, c in m.inputs]}

    def node(self, n, top=False):
        cls = type(n).__name__
        if cls == 'Node':
            k = self.register(n) if top else self.u(n)
            if not top and k and k not in self.reg:
                self.reg[k] = n
            ts = []
            for t in n.transforms:
                tk = TRANSFORM_KIND.get(type(t).__name__, type(t).__name__)
                if tk == 'translate' or tk == 'scale':
                    ps = [fkey(t.x), fkey(t.y), fkey(t.z)]
                elif tk == 'rotate':
                    ps = [fkey(t.x), fkey(t.y), fkey(t.z), fkey(t.angle)]
                elif tk == 'matrix':
                    ps = fkeys(t.matrix)
                elif tk == 'lookat':
                    ps = fkeys(t.eye) + fkeys(t.interest) + fkeys(t.upvector)
                else:
                    ps = []
                ts.append({'kind': tk, 'uid': self.u(t), 'params': ps})
            return {'type': 'Node', 'uid': k, 'id': n.id, 'name': n.name, 'transforms': ts,
                    'children': [self.node(c) for c in n.children]}
        if cls == 'NodeNode':
            return {'type': 'NodeNode', 'uid': self.u(n), 'target': self.ref(n.node)}
        if cls == 'GeometryNode':
            return {'type': 'GeometryNode', 'uid': self.u(n), 'target': self.ref(n.geometry),
                    'materials': [self.matnode(m) for m in n.materials]}
        if cls == 'ControllerNode':
            return {'type': 'ControllerNode', 'uid': self.u(n), 'target': self.ref(n.controller),
                    'materials': [self.matnode(m) for m in n.materials]}
        if cls == 'CameraNode':
            return {'type': 'CameraNode', 'uid': self.u(n), 'target': self.ref(n.camera)}
        if cls == 'LightNode':
            return {'type': 'LightNode', 'uid': self.u(n), 'target': self.ref(n.light)}
        if cls == 'ExtraNode':
            return {'type': 'ExtraNode', 'uid': self.u(n)}
        return {'type': cls}

    def bound(self, scene):
        """what the traversal of a scene exposes for its geometry instances: per bound geometry (in traversal
        order) the geometry and, per primitive, the material it is bound to and the vertex-input map"""
        out = []
        try:
            for bg in scene.objects('geometry'):
                prims = []
                for bp in bg.primitives():
                    m = getattr(bp, 'material', None)
                    im = getattr(bp, 'inputmap', None)
                    prims.append({'material': None if m is None else getattr(m, 'id', repr(m)),
                                  'inputmap': None if im is None else
                                  sorted([[k, v[0], v[1]] for k, v in im.items()], key=repr)})
                out.append({'geometry': bg.original.id, 'prims': prims})
        except Exception as e:  # noqa
            return {'error': type(e).__name__, 'msg': str(e)[:160], 'before': out}
        return out

    def prescan_nodes(self, nodes):
        """register every Node object reachable from the library / scene lists before references are walked"""
        for n in nodes:
            if type(n).__name__ == 'Node':
                k = self.u(n)
                if k and k not in self.reg:
                    self.reg[k] = n
                self.prescan_nodes(n.children)

    def snapshot(self):
        c = self.col
        d = {'errors': [type(e).__name__ for e in c.errors]}
        # the messages, with the document's own namespace URI written as '{NS}' (a qualified tag in a message
        # is the same tag under every URI)
        root = c.xmlnode.getroot().tag
        ns = root[1:].split('}')[0] if root.startswith('{') else None
        msgs = []
        for e in c.errors:
            m = str(getattr(e, 'msg', e))
            if ns:
                m = m.replace('{' + ns + '}', '{NS}')
            msgs.append(m)
        d['error_messages'] = msgs
        d['asset'] = self.asset(c.assetInfo)
        d['images'] = [self.image(x) for x in c.images]
        d['effects'] = [self.effect(x) for x in c.effects]
        d['materials'] = [self.material(x) for x in c.materials]
        d['animations'] = [self.animation(x) for x in c.animations]
        d['geometries'] = [self.geometry(x) for x in c.geometries]
        d['controllers'] = [self.controller(x) for x in c.controllers]
        d['lights'] = [self.light(x) for x in c.lights]
        d['cameras'] = [self.camera(x) for x in c.cameras]
        self.prescan_nodes(list(c.nodes))
        for s in c.scenes:
            self.prescan_nodes(list(s.nodes))
        d['nodes'] = [self.node(x, True) for x in c.nodes]
        d['scenes'] = [{'uid': self.register(s), 'id': s.id, 'nodes': [self.node(x, True) for x in s.nodes],
                        'bound_geometries': self.bound(s)} for s in c.scenes]
        d['scene'] = self.ref(c.scene)
        return d


def scribble(col):
    """overwrite, in place, every array the loaded model exposes (nothing is saved): what a later load shows must
    not depend on it"""
    def ruin(a):
        try:
            if isinstance(a, numpy.ndarray) and a.size and a.flags.writeable:
                if a.dtype.kind in 'fiu':
                    a[...] = 77
        except Exception:  # noqa
            pass

    def walk(n, depth=0):
        if depth > 80:
            return
        for t in getattr(n, 'transforms', None) or []:
            for k in ('matrix', 'eye', 'interest', 'upvector'):
                ruin(getattr(t, k, None))
        ruin(getattr(n, 'matrix', None)) if type(n).__name__ == 'Node' else None
        if type(n).__name__ == 'Node':
            for c in n.children:
                walk(c, depth + 1)
    try:
        for g in col.geometries:
            for s in g.sourceById.values():
                ruin(getattr(s, 'data', None))
            for p in g.primitives:
                for k in ('index', 'vertex_index', 'normal_index'):
                    ruin(getattr(p, k, None))
                for a in list(getattr(p, 'texcoord_indexset', ()) or ()):
                    ruin(a)
        for c in col.controllers:
            for k in ('bind_shape_matrix', 'vertex_weight_index', 'vcounts'):
                ruin(getattr(c, k, None))
            for s in getattr(c, 'sourcebyid', {}).values():
                ruin(getattr(s, 'data', None))
        for a in col.animations:
            for s in a.sourceById.values():
                ruin(getattr(s, 'data', None))
        for e in col.effects:
            for k in e.supported:
                v = getattr(e, k, None)
                if isinstance(v, list):
                    for i in range(len(v)):
                        v[i] = 77.0
                ruin(v)
        for n in col.nodes:
            walk(n)
        for sc in col.scenes:
            for n in sc.nodes:
                walk(n)
    except Exception:  # noqa
        pass


def load_snapshot(data, ignore=False, path=None):
    """load, take the snapshot, scribble over the loaded model in place, load the same bytes again: the snapshot
    that is judged is the one of the SECOND load (the file must be read the same whatever happened to earlier
    models in this process); 'reload_differs' tells whether the two snapshots differ"""
    first = load_snapshot_once(data, ignore, path, ruin=True)
    if 'snap' not in first or path:
        return first
    second = load_snapshot_once(data, ignore, path)
    if 'snap' in second and second['snap'] != first['snap']:
        second['reload_differs'] = True
    return second


def load_snapshot_once(data, ignore=False, path=None, ruin=False):
    import collada
    from collada.common import DaeError
    try:
        kw = {'ignore': [DaeError]} if ignore else {}
        col = collada.Collada(path if path else io.BytesIO(data), **kw)
    except Exception as e:  # noqa
        return {'raised': type(e).__name__, 'msg': str(e)[:200]}
    try:
        r = {'snap': Snap(col).snapshot()}
        if ruin:
            scribble(col)
        return r
    except Exception as e:  # noqa
        import traceback
        return {'snapshot_error': type(e).__name__, 'msg': traceback.format_exc()[-800:]}


class _Timeout(Exception):
    pass


def _alarm(signum, frame):
    raise _Timeout()


def guarded(fn, seconds=6):
    """run fn() under a wall-clock alarm so that one document that makes the loader spin cannot stall the batch"""
    import signal
    try:
        signal.signal(signal.SIGALRM, _alarm)
        signal.setitimer(signal.ITIMER_REAL, seconds)
    except Exception:  # noqa
        return fn()
    try:
        return fn()
    except _Timeout:
        return {'raised': 'Timeout', 'msg': 'no result after %ds' % seconds}
    finally:
        signal.setitimer(signal.ITIMER_REAL, 0)


def main():
    payload = json.load(sys.stdin)
    out = []
    timeouts = 0
    for doc in payload['docs']:
        if timeouts >= 3:
            out.append({'raised': 'Timeout', 'msg': 'skipped: three documents of this batch already timed out'})
            continue
        try:
            if doc.get('path'):
                r = guarded(lambda: load_snapshot(None, doc.get('ignore', False), path=doc['path']), 60)
            elif doc.get('zip'):
                # an archive holding several documents: [[entry name, text], ...] - pycollada picks the document
                import zipfile
                buf = io.BytesIO()
                with zipfile.ZipFile(buf, 'w') as z:
                    for name, text in doc['zip']:
                        z.writestr(name, text.encode('utf-8'))
                data = buf.getvalue()
                r = guarded(lambda: load_snapshot(data, doc.get('ignore', False)), 20)
            else:
                r = guarded(lambda: load_snapshot(doc['xml'].encode('utf-8'), doc.get('ignore', False)),
                            6 if len(doc['xml']) < 200000 else 60)
        except Exception as e:  # noqa
            r = {'snapshot_error': type(e).__name__, 'msg': str(e)[:200]}
        if r.get('raised') == 'Timeout':
            timeouts += 1
        out.append(r)
    json.dump(out, sys.stdout)


if __name__ == '__main__':
    main()
