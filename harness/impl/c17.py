"""Implementation worker for C17 (queries are pure and repeatable).

For every case {doc: spec, ops: [...]} two identical documents are made: A receives the whole
history (queries and saves), its twin B only the saves.  Around every query on A every
reachable location is deep-hashed (c17_walk.locations) and the set of changed location
classes is recorded (the correspondence compares it with the model's declared write set
inside Coq); the query is run a second time at once and both results are compared.  The
property's clauses are evaluated directly: no observable location changes, repeated queries
agree, every save writes the same bytes as on the never-queried twin, at the end every query
gives on A what it gives on the twin, and writing into a bound primitive's vertex/normal
arrays changes nothing in the document.
"""
import datetime
import io
import json
import os
import sys

import numpy

from harness.impl import c17_walk as W

DATA = None
FIXED = datetime.datetime(2020, 1, 2, 3, 4, 5)
HIDDEN = ('tricache', 'imgcache', 'newprivate')
ACROSS_SAVES = ('scene_objects', 'node_objects', 'shapes', 'polygon_triangles', 'bound_triangleset', 'bound_item',
                'partial_iter', 'triangleset', 'unbound_item', 'prim_props')


def data_dir():
    import collada
    return os.path.join(os.path.dirname(collada.__file__), 'tests', 'data')


# ------------------------------------------------------------------ documents

def aux_loader(fname):
    return ('bytes-of-' + fname).encode()


def build_ctor(spec):
    import collada
    from collada import source, geometry, material, scene, camera, light, asset
    doc = collada.Collada(aux_file_loader=aux_loader)
    doc.assetInfo = asset.Asset(created=FIXED, modified=FIXED)
    effects = []
    if spec.get('image'):
        img = material.CImage('img0', './tex.tga', doc)
        doc.images.append(img)
        surf = material.Surface('surf0', img)
        samp = material.Sampler2D('samp0', surf)
        mp = material.Map(samp, 'TEX0')
        eff = material.Effect('effect0', [surf, samp], 'phong', diffuse=mp, specular=(0.5, 0.25, 0.125, 1.0))
    else:
        eff = material.Effect('effect0', [], 'phong', diffuse=(1.0, 0.5, 0.25, 1.0), specular=(0, 1, 0, 1.0))
    doc.effects.append(eff)
    effects.append(eff)
    eff2 = material.Effect('effect1', [], 'lambert', diffuse=(0.25, 0.25, 0.75, 1.0), double_sided=True)
    doc.effects.append(eff2)
    mats = [material.Material('material0', 'mat0', eff), material.Material('material1', 'mat1', eff2)]
    doc.materials.extend(mats)
    geoms = []
    for gi, g in enumerate(spec['geoms']):
        srcs = []
        vs = source.FloatSource('g%d-pos' % gi, numpy.array(g['verts'], dtype=numpy.float32), ('X', 'Y', 'Z'))
        srcs.append(vs)
        if g.get('normals'):
            srcs.append(source.FloatSource('g%d-nrm' % gi, numpy.array(g['normals'], dtype=numpy.float32),
                                           tuple(g.get('normal_names', ['X', 'Y', 'Z']))))
        if g.get('tan'):
            names = tuple(g.get('tan_names', ['X', 'Y', 'Z']))
            srcs.append(source.FloatSource('g%d-tan' % gi, numpy.array(g['tan'], dtype=numpy.float32), names))
            srcs.append(source.FloatSource('g%d-bin' % gi, numpy.array(g['bin'], dtype=numpy.float32), names))
        for ti, t in enumerate(g.get('tex', [])):
            srcs.append(source.FloatSource('g%d-uv%d' % (gi, ti), numpy.array(t, dtype=numpy.float32), ('S', 'T')))
        geom = geometry.Geometry(doc, 'geom%d' % gi, 'geometry %d' % gi, srcs, double_sided=bool(g.get('double_sided')))
        for p in g['prims']:
            il = source.InputList()
            for (off, sem, src, st) in p['inputs']:
                il.addInput(off, sem, '#g%d-%s' % (gi, src), st)
            idx = numpy.array(p['index'], dtype=numpy.int32)
            t = p['type']
            if t == 'triangles':
                prim = geom.createTriangleSet(idx, il, p.get('material'))
            elif t == 'lines':
                prim = geom.createLineSet(idx, il, p.get('material'))
            elif t == 'polylist':
                prim = geom.createPolylist(idx, numpy.array(p['vcounts'], dtype=numpy.int32), il, p.get('material'))
            else:
                stride = p['stride']
                polys = []
                at = 0
                for vc in p['vcounts']:
                    polys.append(numpy.array(p['index'][at:at + vc * stride], dtype=numpy.int32))
                    at += vc * stride
                prim = geom.createPolygons(polys, il, p.get('material'))
            geom.primitives.append(prim)
        doc.geometries.append(geom)
        geoms.append(geom)
    cams = []
    for ci, c in enumerate(spec.get('cameras', [])):
        if c == 'persp':
            cam = camera.PerspectiveCamera('cam%d' % ci, 0.5, 100.0, xfov=45.0)
        else:
            cam = camera.OrthographicCamera('cam%d' % ci, 0.5, 100.0, xmag=2.0)
        doc.cameras.append(cam)
        cams.append(cam)
    lights = []
    for li, l in enumerate(spec.get('lights', [])):
        if l == 'dir':
            lg = light.DirectionalLight('light%d' % li, (1, 0.5, 0.25))
        elif l == 'amb':
            lg = light.AmbientLight('light%d' % li, (0.5, 0.5, 0.5))
        elif l == 'point':
            lg = light.PointLight('light%d' % li, (1, 1, 1), 1.0, 0.5, 0.25)
        elif isinstance(l, list):
            # ['point'|'spot', optional parameters with None for "left unspecified"]
            cls = light.PointLight if l[0] == 'point' else light.SpotLight
            lg = cls('light%d' % li, (1, 0.5, 1), *l[1:])
        else:
            lg = light.SpotLight('light%d' % li, (1, 1, 1), 1.0, 0.5, 0.25, 30.0, 2.0)
        doc.lights.append(lg)
        lights.append(lg)

    def mk_tr(t):
        k = t[0]
        if k == 'translate':
            return scene.TranslateTransform(*t[1:4])
        if k == 'scale':
            return scene.ScaleTransform(*t[1:4])
        if k == 'rotate':
            return scene.RotateTransform(*t[1:5])
        if k == 'matrix':
            return scene.MatrixTransform(numpy.array(t[1], dtype=numpy.float32))
        return scene.LookAtTransform(numpy.array(t[1], dtype=numpy.float32), numpy.array(t[2], dtype=numpy.float32),
                                     numpy.array(t[3], dtype=numpy.float32))

    libnodes = []

    def mk_node(n):
        ch = []
        for c in n.get('children', []):
            k = c[0]
            if k == 'geom' and geoms:
                g = geoms[c[1] % len(geoms)]
                mn = []
                for sym in sorted({p.material for p in g.primitives if p.material}):
                    m = mats[int(sym[-1]) % len(mats)]
                    mn.append(scene.MaterialNode(sym, m, inputs=[('TEX0', 'TEXCOORD', '0')] if spec.get('image') else []))
                ch.append(scene.GeometryNode(g, mn))
            elif k == 'cam' and cams:
                ch.append(scene.CameraNode(cams[c[1] % len(cams)]))
            elif k == 'light' and lights:
                ch.append(scene.LightNode(lights[c[1] % len(lights)]))
            elif k == 'node':
                ch.append(mk_node(c[1]))
            elif k == 'inst' and libnodes:
                ch.append(scene.NodeNode(libnodes[c[1] % len(libnodes)]))
        return scene.Node(n['id'], children=ch, transforms=[mk_tr(t) for t in n.get('transforms', [])])

    for n in spec.get('libnodes', []):
        ln = mk_node(n)
        libnodes.append(ln)
        doc.nodes.append(ln)
    nodes = [mk_node(n) for n in spec.get('nodes', [])]
    sc = scene.Scene('scene0', nodes)
    doc.scenes.append(sc)
    doc.scene = sc
    return doc


def build(spec):
    import collada
    k = spec['kind']
    if k == 'file':
        path = os.path.join(data_dir(), spec['file'])
        kw = {}
        if spec.get('ignore'):
            kw['ignore'] = [collada.DaeError]
        return collada.Collada(path, **kw)
    if k == 'xml':
        return collada.Collada(io.BytesIO(spec['xml'].encode('utf-8')), aux_file_loader=aux_loader,
                               ignore=[collada.DaeError] if spec.get('ignore') else None)
    doc = build_ctor(spec)
    if k == 'reload':
        buf = io.BytesIO()
        doc.write(buf)
        doc = collada.Collada(io.BytesIO(buf.getvalue()), aux_file_loader=aux_loader)
    return doc


# ------------------------------------------------------------------ canonical results

SKIP_ATTR = ('original', 'skin', 'collada', 'boundskin', 'materialnodebysymbol', 'xmlnode', 'geometry', 'primitive',
             '_triangleset', 'sources', '_primitives')


def canon(x, depth=0):
    if isinstance(x, W.ATOMIC):
        return x if not isinstance(x, bytes) else ['bytes', W._h(x)]
    if isinstance(x, numpy.generic):
        return ['np', x.dtype.str, repr(x.item())]
    if isinstance(x, numpy.ndarray):
        return ['arr', list(x.shape), x.dtype.str, W._h(x.tobytes() if x.dtype != object else repr(x.tolist()))]
    if isinstance(x, BaseException):
        return ['exc', type(x).__name__]
    if isinstance(x, (list, tuple)):
        return [canon(v, depth + 1) for v in x]
    if isinstance(x, dict):
        return [[W.scrub(repr(k)), canon(v, depth + 1)] for k, v in sorted(x.items(), key=lambda kv: repr(kv[0]))]
    if W.is_element(x):
        return ['xml', x.tag, sorted(x.attrib.items()), x.text]
    d = getattr(x, '__dict__', None)
    if d is None or depth > 3 or (depth > 0 and is_model_object(x)):
        # objects that belong to the document are named, not copied into the result
        return ['obj', type(x).__name__, W.scrub(safe_repr(x))]
    out = ['obj', type(x).__name__, W.scrub(safe_repr(x))]
    for a in sorted(d):
        if a in SKIP_ATTR:
            out.append([a, type(d[a]).__name__])
        else:
            out.append([a, canon(d[a], depth + 1)])
    return out


def is_model_object(x):
    from collada.common import DaeObject
    from collada import Collada
    from collada.util import IndexedList
    return isinstance(x, (DaeObject, Collada, IndexedList))


def safe_repr(x):
    try:
        return W.scrub(repr(x))
    except Exception as e:  # noqa
        return '<repr raised %s>' % type(e).__name__


# ------------------------------------------------------------------ queries

def all_geoms(doc):
    return list(doc.geometries)


def pick(seq, i):
    return seq[i % len(seq)] if len(seq) else None


def bound_geoms(doc):
    out = []
    for s in doc.scenes:
        out.extend(s.objects('geometry'))
    for s in doc.scenes:
        for bc in s.objects('controller'):
            g = getattr(bc, 'geometry', None)
            if g is not None:
                out.append(g)
    return out


def every_object(doc):
    """every model object a user can reach (for printing)"""
    objs = [doc, doc.assetInfo]
    objs.extend(getattr(doc.assetInfo, 'contributors', []) or [])
    for lib in (doc.geometries, doc.controllers, doc.animations, doc.lights, doc.cameras, doc.images, doc.effects,
                doc.materials, doc.nodes, doc.scenes):
        objs.append(lib)
        objs.extend(lib)
    for g in doc.geometries:
        objs.extend(g.sourceById.values())
        objs.extend(g.primitives)
    for e in doc.effects:
        objs.extend(e.params)
        for p in e.supported:
            objs.append(getattr(e, p, None))

    def nodes(n):
        objs.append(n)
        for t in getattr(n, 'transforms', []) or []:
            objs.append(t)
        for c in getattr(n, 'children', []) or []:
            if hasattr(c, 'children'):
                nodes(c)
            else:
                objs.append(c)
                objs.extend(getattr(c, 'materials', []) or [])
    for s in doc.scenes:
        for n in s.nodes:
            nodes(n)
    for n in doc.nodes:
        nodes(n)
    return objs


INNER_DIFFS = []


def same_object(label, fn):
    """a sub-query asked twice of the SAME object (the same BoundGeometry, bound primitive, polygon):
    both answers must be equal; the first is the result"""
    a = fn()
    b = fn()
    if a != b:
        INNER_DIFFS.append(label)
    return a


def same_object_iter(label, obj, method):
    """iterations of obj.method() on the same object: whole, counted first, two interleaved, one
    abandoned part-way - each complete pass must list the same things"""
    whole = same_object(label, lambda: [canon(x) for x in getattr(obj, method)()])
    try:
        n = len(obj)
    except Exception:  # noqa
        n = None
    it1 = getattr(obj, method)()
    first = next(it1, None)
    inner = [canon(x) for x in getattr(obj, method)()]      # a second iteration while the first is open
    rest = [canon(x) for x in it1]
    if inner != whole or (([canon(first)] if first is not None else []) + rest) != whole:
        INNER_DIFFS.append(label + ':interleaved')
    it2 = getattr(obj, method)()
    next(it2, None)
    del it2                                                  # abandoned part-way
    if [canon(x) for x in getattr(obj, method)()] != whole:
        INNER_DIFFS.append(label + ':after-abandoned')
    if n is not None and method == 'primitives' and type(obj).__name__ == 'BoundGeometry' and n != len(whole):
        INNER_DIFFS.append(label + ':len')
    return whole


def run_query(doc, op):
    """returns a canonical result; exceptions are results too"""
    try:
        return _run_query(doc, op)
    except Exception as e:  # noqa
        return ['raised', type(e).__name__]


def _run_query(doc, op):
    k = op[0]
    if k == 'scene_objects':
        sc = pick(doc.scenes, op[2]) if op[2] >= 0 else doc.scene
        if sc is None:
            return None
        res = []
        for o in sc.objects(op[1]):
            res.append(canon(o))
            if hasattr(o, 'primitives') and callable(o.primitives):
                res.append(same_object_iter(type(o).__name__ + '.primitives', o, 'primitives'))
            g = getattr(o, 'geometry', None)
            if g is not None and hasattr(g, 'primitives') and callable(g.primitives):
                res.append(same_object_iter(type(g).__name__ + '.primitives', g, 'primitives'))
                for bsp in o.primitives():
                    res.append([len(bsp), same_object(type(bsp).__name__ + '.shapes',
                                                      lambda: [canon(x) for x in list(bsp.shapes())[:3]])])
        return res
    if k == 'node_objects':
        sc = pick(doc.scenes, 0)
        if sc is None or not sc.nodes:
            return None
        n = pick(sc.nodes, op[2])
        m = numpy.array(op[3], dtype=numpy.float32).reshape(4, 4) if op[3] else None
        return [canon(o) for o in n.objects(op[1], m)]
    if k == 'partial_iter':
        # traversals that are started and abandoned
        sc = doc.scene
        res = []
        if sc is not None:
            it = sc.objects(op[1])
            first = next(it, None)
            res.append(canon(first))
            del it
            for n in sc.nodes[:2]:
                it2 = n.objects(op[1])
                res.append(canon(next(it2, None)))
        bg = pick(bound_geoms(doc), op[2])
        if bg is not None:
            pit = bg.primitives()
            bp = next(pit, None)
            if bp is not None:
                sit = bp.shapes()
                res.append(canon(next(sit, None)))
        return res
    if k in ('shapes', 'polygon_triangles', 'bound_triangleset', 'bound_item'):
        bg = pick(bound_geoms(doc), op[1])
        if bg is None:
            return None
        bp = pick(list(bg.primitives()), op[2])
        if bp is None:
            return None
        if k == 'shapes':
            same_object_iter(type(bp).__name__ + '.shapes', bp, 'shapes') if len(bp) <= 40 else None
            same_object_iter(type(bg).__name__ + '.primitives', bg, 'primitives')
            sh = list(bp.shapes())
            return [len(bp), canon(bp), [canon(s) for s in sh[:op[3]]], [safe_repr(s) for s in sh[:op[3]]]]
        if k == 'bound_item':
            n = len(bp)
            return [n, canon(bp[op[3] % n]) if n else None, canon(bp.vertex), canon(bp.normal),
                    canon(bp.vertex_index), canon(bp.normal_index), canon(bp.texcoordset), canon(bp.texcoord_indexset)]
        if k == 'bound_triangleset':
            if not hasattr(bp, 'triangleset'):
                return None
            ts = bp.triangleset()
            return [canon(ts), len(ts), same_object(type(ts).__name__ + '.shapes', lambda: [canon(t) for t in list(ts.shapes())[:op[3]]])]
        if not hasattr(bp, 'polygons'):
            return None
        polys = list(bp.polygons())
        if not polys:
            return []
        po = polys[op[3] % len(polys)]
        return [canon(po), same_object('Polygon.triangles', lambda: [canon(t) for t in po.triangles()])]
    if k in ('triangleset', 'unbound_item', 'input_list', 'prim_props'):
        g = pick(all_geoms(doc), op[1])
        if g is None:
            return None
        p = pick(g.primitives, op[2])
        if p is None:
            return None
        if k == 'triangleset':
            if not hasattr(p, 'triangleset'):
                return None
            ts = p.triangleset()
            return [canon(ts), len(ts), canon(ts.index), [canon(ts[i]) for i in range(min(len(ts), op[3]))]]
        if k == 'unbound_item':
            import itertools
            n = len(p)
            it = p[op[3] % n] if n else None
            res = [n, canon(it)]
            if it is not None and hasattr(it, 'triangles'):
                res.append([canon(t) for t in it.triangles()])
            res.append([canon(x) for x in itertools.islice(iter(p), 4)])
            return res
        if k == 'prim_props':
            return [canon(getattr(p, a)) for a in ('vertex', 'normal', 'texcoordset', 'textangentset', 'texbinormalset',
                                                   'vertex_index', 'normal_index', 'texcoord_indexset',
                                                   'textangent_indexset', 'texbinormal_indexset')] + [len(p), str(p)]
        il = p.getInputList()
        return [safe_repr(il), [list(t) for t in il.getList()]]
    if k == 'index_lib':
        lib = getattr(doc, op[1])
        n = len(lib)
        res = [n, safe_repr(lib)]
        if n:
            o = lib[op[2] % n]
            res.append(safe_repr(o))
            oid = getattr(o, 'id', None)
            if isinstance(oid, str):
                res += [lib[oid] is o or safe_repr(lib[oid]), oid in lib, lib.get(oid) is not None, o in lib]
            res.append([safe_repr(x) for x in lib[0:2]])
            res.append(safe_repr(lib[-1]))
        res += [lib.get('no-such-id'), 'no-such-id' in lib]
        # look-ups by old ids, new ids and absent ids, in the order and multiplicity given
        for key in (op[3] if len(op) > 3 else []):
            kind, key = key
            try:
                if kind == 'get':
                    res.append(safe_repr(lib.get(key)))
                elif kind == 'in':
                    res.append(key in lib)
                else:
                    res.append(safe_repr(lib[key]))
            except Exception as e:  # noqa
                res.append(['raised', type(e).__name__])
        return res
    if k == 'print':
        return [[W.scrub(str(o)), W.scrub(repr(o))] for o in every_object(doc)] + \
               [[W.scrub(str(o)), W.scrub(repr(o))] for bg in bound_geoms(doc) for o in [bg] + list(bg.primitives())]
    if k == 'image_data':
        im = pick(doc.images, op[1])
        if im is None:
            return None
        return [canon(im.data), canon(im.pilimage), canon(im.uintarray), canon(im.floatarray)]
    if k == 'source_item':
        g = pick(all_geoms(doc), op[1])
        if g is None:
            return None
        srcs = [s for s in g.sourceById.values() if hasattr(s, 'data')]
        s = pick(srcs, op[2])
        if s is None:
            return None
        n = len(s)
        return [n, str(s), canon(s[op[3] % n]) if n else None, list(s.components)]
    if k == 'effect_eq':
        e = pick(doc.effects, op[1])
        f = pick(doc.effects, op[2])
        if e is None:
            return None
        return [e.almostEqual(f), [canon(getattr(e, p, None)) for p in e.supported]]
    raise ValueError('unknown query %r' % (k,))


def apply_edit(doc, op):
    """['edit', 'rename', library, position, new id]: the id of a library object is changed in place
    (the library's index is left stale, as the library leaves it)"""
    try:
        if op[1] == 'rename':
            lib = getattr(doc, op[2])
            if len(lib):
                lib[op[3] % len(lib)].id = op[4]
    except Exception:  # noqa
        pass


def concrete_obs(doc, op):
    """raw data for the concrete Gallina models of Model/PurityQueries.v: the inputs the model needs
    and what the implementation answered (twice for the cached triangulation)"""
    try:
        k = op[0]
        if k in ('triangleset', 'input_list'):
            g = pick(all_geoms(doc), op[1])
            p = pick(g.primitives, op[2]) if g is not None else None
            if p is None:
                return None
            if k == 'input_list':
                src = [[sem, [[t[0], t[1], t[2], t[3]] for t in tupes]] for sem, tupes in p.sources.items()]
                seen = [list(t) for t in p.getInputList().getList()]
                if sum(len(x[1]) for x in src) > 12:
                    return None
                return {'kind': 'inputs', 'sources': src, 'seen': seen}
            if not hasattr(p, 'triangleset') or len(p.index) > 60:
                return None
            n = p.nindices
            out = []
            for _ in range(2):
                try:
                    ts = p.triangleset()
                    out.append(numpy.asarray(ts.index).reshape(-1, 3, n).tolist())
                except Exception:  # noqa
                    out.append(None)
            return {'kind': 'tri', 'vcounts': [int(v) for v in p.vcounts], 'rows': numpy.asarray(p.index).reshape(-1, n).tolist(),
                    'r1': out[0], 'r2': out[1]}
        if k == 'index_lib' and len(op) > 3 and op[3]:
            lib = getattr(doc, op[1])
            if len(lib) > 12 or not all(isinstance(getattr(o, 'id', None), str) for o in lib):
                return None
            uid = {id(o): i + 1 for i, o in enumerate(lib)}
            if not all(id(o) in uid for o in lib._index.values()) or not all(isinstance(q, str) for q in lib._index):
                return None
            seen = []
            for kind, key in op[3]:
                try:
                    if kind == 'get':
                        r = lib.get(key)
                        seen.append([kind, key, 'ok', uid.get(id(r), 0) if r is not None else None])
                    elif kind == 'in':
                        seen.append([kind, key, 'ok', 1 if key in lib else None])
                    else:
                        seen.append([kind, key, 'ok', uid.get(id(lib[key]), 0)])
                except KeyError:
                    seen.append([kind, key, 'KeyError', None])
                except Exception:  # noqa
                    return None
            return {'kind': 'lookups', 'items': [[uid[id(o)], o.id] for o in lib],
                    'index': [[q, uid[id(o)]] for q, o in lib._index.items()], 'seen': seen}
    except Exception:  # noqa
        return None
    return None


def do_save(doc):
    buf = io.BytesIO()
    try:
        doc.write(buf)
        return ['bytes', W._h(buf.getvalue()), len(buf.getvalue())]
    except Exception as e:  # noqa
        return ['raised', type(e).__name__]


def own_check(doc, op):
    """bound primitives own their vertex and normal arrays"""
    bg = pick(bound_geoms(doc), op[1])
    if bg is None:
        return None, None
    bps = list(bg.primitives())
    bp = pick(bps, op[2])
    if bp is None:
        return None, None
    unbound_before = W.locations(doc)
    again_before = canon(pick(list(pick(bound_geoms(doc), op[1]).primitives()), op[2]))
    touched = 0
    targets = [bp]
    if hasattr(bp, 'triangleset'):
        try:
            targets.append(bp.triangleset())
        except Exception:  # noqa
            pass
        unbound_before = W.locations(doc)     # the triangulation cache is filled now
    for tgt in targets:
        for a in ('_vertex', '_normal'):
            arr = getattr(tgt, a, None)
            if isinstance(arr, numpy.ndarray) and arr.size:
                arr += 1.5
                arr *= -3.0
                arr[0] = 77.0
                touched += 1
    ch = W.diff(unbound_before, W.locations(doc))
    again_after = canon(pick(list(pick(bound_geoms(doc), op[1]).primitives()), op[2]))
    why = None
    if ch:
        why = 'writing into the bound %s vertex/normal arrays changed %s' % (type(bp).__name__, sorted(ch)[:4])
    elif again_before != again_after:
        why = 'binding again after writing into a bound primitive gives different arrays'
    return touched, why


# ------------------------------------------------------------------ a case

def run_case(case):
    spec, ops = case['doc'], case['ops']
    try:
        A = build(spec)
        B = build(spec)
    except Exception as e:  # noqa
        return {'built': False, 'why': '%s: %s' % (type(e).__name__, W.scrub(str(e))[:200]), 'steps': [], 'fails': []}
    steps, fails = [], []
    seg = {}
    distinct = []

    def fail(clause, site, what, step, detail=None):
        if len(fails) < 4:
            fails.append({'clause': clause, 'site': site, 'what': what, 'step': step, 'detail': detail})

    for i, op in enumerate(ops):
        k = op[0]
        if k == 'save':
            a = do_save(A)
            b = do_save(B)
            steps.append({'op': k, 'changed': [], 'changed2': [], 'repeat_equal': True, 'same_as_twin': a == b})
            if a != b:
                fail('saved-bytes', 'save', 'a save after queries wrote %r, the never-queried twin wrote %r' % (a, b), i)
            # a save is not an edit: what the scene yields (bound geometry, lights, cameras, shapes)
            # must be the same before and after it; look-ups and listings that legitimately follow
            # what a save normalises are compared within segments only
            seg = {q: r for q, r in seg.items() if json.loads(q)[0] in ACROSS_SAVES}
            continue
        if k == 'edit':
            # an edit (not a query): applied to the document and to its twin alike
            for d in (A, B):
                apply_edit(d, op)
            steps.append({'op': k, 'changed': [], 'changed2': [], 'repeat_equal': True, 'same_as_twin': True})
            seg = {}
            continue
        if k == 'own':
            touched, why = own_check(A, op)
            steps.append({'op': k, 'changed': [], 'changed2': [], 'repeat_equal': why is None, 'same_as_twin': True,
                          'touched': touched})
            if why:
                fail('bound-arrays-owned', 'own', why, i)
            continue
        before = W.locations(A)
        del INNER_DIFFS[:]
        r1 = run_query(A, op)
        mid = W.locations(A)
        r2 = run_query(A, op)
        after = W.locations(A)
        ch1 = W.diff(before, mid)
        ch2 = W.diff(mid, after)
        key = json.dumps(op)
        if key not in distinct:
            distinct.append(key)
        rep = (r1 == r2)
        if key in seg and seg[key] != r1:
            rep = False
        seg.setdefault(key, r1)
        steps.append({'op': k, 'changed': sorted(set(ch1.values())), 'changed2': sorted(set(ch2.values())),
                      'repeat_equal': rep, 'same_as_twin': True,
                      'raised': r1[1] if isinstance(r1, list) and r1[:1] == ['raised'] else None,
                      'conc': concrete_obs(A, op)})
        obs1 = {p: c for p, c in list(ch1.items()) + list(ch2.items()) if c not in HIDDEN}
        if obs1:
            cls = sorted(set(obs1.values()))
            fail('observable-changed', k,
                 'query %s changed observable locations %s' % (k, sorted(obs1)[:4]), i, sorted(obs1)[:12])
        if INNER_DIFFS:
            rep = False
            steps[-1]['repeat_equal'] = False
            fail('not-repeatable', k + ':same-object',
                 'asked twice of the same object, %s answered differently' % sorted(set(INNER_DIFFS))[:3], i)
        elif not rep:
            fail('not-repeatable', k, 'query %s returned a different result when repeated' % k, i)
    # at the end: every query asked on A answers on A what it answers on the never-queried twin
    a_snap = W.observable(W.locations(A))
    b_snap = W.observable(W.locations(B))
    twin_equal = True
    d = W.observable_diff(a_snap, b_snap)
    if d:
        twin_equal = False
        fail('observable-changed', 'history',
             'after the history the queried document differs from its never-queried twin at %s' % sorted(d)[:4], len(ops),
             sorted(d)[:12])
    for key in distinct:
        op = json.loads(key)
        ra = run_query(A, op)
        rb = run_query(B, op)
        if ra != rb:
            twin_equal = False
            fail('not-repeatable', op[0] + ':vs-twin',
                 'query %s answers differently on the queried document and on its never-queried twin' % op[0], len(ops))
    fa, fb = do_save(A), do_save(B)
    if fa != fb:
        twin_equal = False
        fail('saved-bytes', 'final-save', 'final save wrote %r, the twin wrote %r' % (fa, fb), len(ops))
    return {'built': True, 'steps': steps, 'fails': fails, 'twin_equal': twin_equal, 'final': fa,
            'nloc': len(a_snap)}


def shrink(case, clause, site, step=None):
    """a short history on which the same clause still fails: the failing step alone, the failing
    step after one earlier step, the prefix up to it, then greedy removal on short prefixes"""
    ops = list(case['ops'])

    def bad(o):
        try:
            r = run_case(dict(case, ops=o))
        except Exception:  # noqa
            return False
        return any(f['clause'] == clause and f['site'] == site for f in r['fails'])
    if step is not None and step < len(ops):
        if bad([ops[step]]):
            return dict(case, ops=[ops[step]])
        for j in range(step - 1, -1, -1):
            if bad([ops[j], ops[step]]):
                return dict(case, ops=[ops[j], ops[step]])
        if bad(ops[:step + 1]):
            ops = ops[:step + 1]
    elif not bad(ops):
        return case
    changed = len(ops) <= 14
    while changed and len(ops) > 1:
        changed = False
        for i in range(len(ops)):
            cand = ops[:i] + ops[i + 1:]
            if bad(cand):
                ops, changed = cand, True
                break
    return dict(case, ops=ops)


def main():
    payload = json.load(sys.stdin)
    W.freeze_clock()
    if 'shrink' in payload:
        json.dump(shrink(payload['shrink'], payload['clause'], payload['site'], payload.get('step')), sys.stdout)
        return
    out = []
    for c in payload['cases']:
        try:
            out.append(run_case(c))
        except Exception as e:  # noqa
            out.append({'built': True, 'steps': [], 'twin_equal': False, 'crashed': True,
                        'fails': [{'clause': 'crash-or-hang', 'site': 'exception:' + type(e).__name__, 'step': 0,
                                   'what': 'unexpected %s while running the history: %s' % (type(e).__name__, W.scrub(str(e))[:200])}]})
    json.dump(out, sys.stdout)


if __name__ == '__main__':
    main()
