"""Implementation worker for C18: builds / loads a triangle set (unbound or bound through a scene),
observes the implicit per-triangle normals, generateNormals() and
generateTexTangentsAndBinormals(), and evaluates the property's clauses directly (float64
reference computed here with plain numpy, never with pycollada's helpers)."""
import io
import json
import math
import sys
from fractions import Fraction

import numpy

TOL = 1e-3          # absolute, on components of unit vectors (float32 data), scaled by conditioning
DIR_TOL = 1e-4      # direction of an implicit face normal
UNIT_TOL = 1e-5     # | |n| - 1 | of every normal / tangent the property calls a unit vector
MIN_SUM = 0.1       # a vertex whose summed unit normals nearly cancel is ill-conditioned: no demand


def exact_rows(arr):
    """rows of floats -> ([[int numerators]], common power-of-two denominator); None if not finite"""
    a = numpy.asarray(arr, dtype=numpy.float64)
    if not numpy.all(numpy.isfinite(a)):
        return None
    fr = [[Fraction(float(x)) for x in row] for row in a.reshape(-1, a.shape[-1])]
    den = 1
    for row in fr:
        for f in row:
            if f.denominator > den:
                den = f.denominator
    if den > 2 ** 200:
        return None
    return [[int(f * den) for f in row] for row in fr], den


def build_api(case):
    import collada
    from collada import source, geometry
    mesh = collada.Collada()
    srcs = []
    v = numpy.array(case['fverts'], dtype=numpy.float64 if case.get('dtype64') else numpy.float32).reshape(-1)
    srcs.append(source.FloatSource('vsrc', v, ('X', 'Y', 'Z')))
    il = source.InputList()
    inputs = case['inputs']
    il.addInput(inputs['VERTEX'], 'VERTEX', '#vsrc')
    if inputs.get('NORMAL') is not None:
        n = numpy.array(case['fnormals'], dtype=numpy.float32).reshape(-1)
        srcs.append(source.FloatSource('nsrc', n, ('X', 'Y', 'Z')))
        il.addInput(inputs['NORMAL'], 'NORMAL', '#nsrc')
    if inputs.get('TEXCOORD') is not None:
        t = numpy.array(case['fuvs'], dtype=getattr(numpy, case.get('uv_dtype') or 'float32')).reshape(-1)
        srcs.append(source.FloatSource('tsrc', t, ('S', 'T')))
        il.addInput(inputs['TEXCOORD'], 'TEXCOORD', '#tsrc', '0')
    if inputs.get('TEXTANGENT') is not None:
        st = numpy.array(case['fstale'], dtype=numpy.float32).reshape(-1)
        srcs.append(source.FloatSource('tansrc', st, ('X', 'Y', 'Z')))
        srcs.append(source.FloatSource('binsrc', numpy.array(st), ('X', 'Y', 'Z')))
        il.addInput(inputs['TEXTANGENT'], 'TEXTANGENT', '#tansrc', '0')
        il.addInput(inputs['TEXBINORMAL'], 'TEXBINORMAL', '#binsrc', '0')
    g = geometry.Geometry(mesh, 'g', 'g', srcs)
    idx = numpy.array(case['index'], dtype=numpy.int32)
    ts = g.createTriangleSet(idx, il, 'mat')
    g.primitives.append(ts)
    mesh.geometries.append(g)
    return mesh, g, ts


def get_prim(case):
    """-> (unbound triangle set, primitive under test, site)"""
    import collada
    mode = case['mode']
    seq = case.get('seq') or ''
    if mode in ('api', 'bound-api'):
        mesh, g, ts = build_api(case)
    else:
        mesh = collada.Collada(io.BytesIO(case['xml'].encode('utf-8')))
        g = mesh.geometries[0]
        ts = g.primitives[0]
    if mode == 'api' or mode == 'xml':
        return ts, ts, 'TriangleSet'
    if seq == 'unbound-first':
        # normals are regenerated on the unbound set BEFORE it is bound
        ts.generateNormals()
    if mode == 'bound-api':
        m = case['mat']
        M = numpy.array([m[0:4], m[4:8], m[8:12], [0, 0, 0, 1]], dtype=numpy.float64 if case.get('mat64') else numpy.float32)
        bg = g.bind(M, {})
        return ts, list(bg.primitives())[0], 'BoundTriangleSet'
    bgs = list(mesh.scene.objects('geometry'))
    return ts, list(bgs[0].primitives())[0], 'BoundTriangleSet'


def unit(v):
    n = math.sqrt(float(numpy.dot(v, v)))
    return v / n if n > 0 else None


def ref_face_normals(P, tris):
    out = []
    for (a, b, c) in tris:
        out.append(unit(numpy.cross(P[b] - P[a], P[c] - P[a])))
    return out


def run_poly_case(case):
    """every Triangle a polygon primitive without normals hands out - Polygon.triangles(), triangleset()[i],
    and the same through the bound primitive - carries the unit right-hand normal of its own vertices"""
    import collada
    from collada import source, geometry
    fails = []

    def fail(clause, site, what):
        if len(fails) < 4:
            fails.append({'clause': clause, 'site': site, 'what': what})

    def check_triangle(T, site, where):
        V = numpy.asarray(T.vertices, dtype=numpy.float64)
        e1, e2 = V[1] - V[0], V[2] - V[0]
        cr = numpy.cross(e1, e2)
        l1, l2, lc = (math.sqrt(float(numpy.dot(x, x))) for x in (e1, e2, cr))
        if l1 == 0 or l2 == 0 or lc < 0.05 * l1 * l2:
            return True                               # (nearly) degenerate fan triangle: no demand
        ref = cr / lc
        rows = numpy.asarray(T.normals, dtype=numpy.float64)
        if rows.shape != (3, 3):
            fail('face-normal', site, '%s: Triangle.normals has shape %r' % (where, rows.shape))
            return False
        if not numpy.all(numpy.abs(rows - ref) <= DIR_TOL / max(0.05, lc / (l1 * l2))):
            fail('face-normal', site, '%s (vertices %s): implicit normals %s, unit right-hand normal of these vertices is %s'
                 % (where, V.tolist(), rows.tolist(), ref.tolist()))
            return False
        if not numpy.all(numpy.abs(numpy.sqrt((rows * rows).sum(axis=1)) - 1.0) <= UNIT_TOL):
            fail('face-normal-unit', site, '%s: implicit normals %s are not unit vectors' % (where, rows.tolist()))
            return False
        return True

    try:
        mode = case['mode']
        if mode in ('api', 'bound-api'):
            mesh = collada.Collada()
            v = numpy.array(case['fverts'], dtype=numpy.float64 if case.get('dtype64') else numpy.float32).reshape(-1)
            g = geometry.Geometry(mesh, 'g', 'g', [source.FloatSource('vsrc', v, ('X', 'Y', 'Z'))])
            il = source.InputList()
            il.addInput(0, 'VERTEX', '#vsrc')
            idx = numpy.array([i for p in case['polys'] for i in p], dtype=numpy.int32)
            vc = numpy.array([len(p) for p in case['polys']], dtype=numpy.int32)
            pl = g.createPolylist(idx, vc, il, 'mat')
            g.primitives.append(pl)
            mesh.geometries.append(g)
        else:
            mesh = collada.Collada(io.BytesIO(case['xml'].encode('utf-8')))
            g = mesh.geometries[0]
            pl = g.primitives[0]
        prims = [(pl, type(pl).__name__)]
        if mode == 'bound-api':
            m = case['mat']
            M = numpy.array([m[0:4], m[4:8], m[8:12], [0, 0, 0, 1]], dtype=numpy.float64 if case.get('mat64') else numpy.float32)
            prims.append((list(g.bind(M, {}).primitives())[0], 'Bound' + type(pl).__name__))
        elif mode == 'bound-xml':
            prims.append((list(list(mesh.scene.objects('geometry'))[0].primitives())[0], 'Bound' + type(pl).__name__))
    except Exception as e:  # noqa
        return {'obs': None, 'fails': [{'clause': 'construct', 'site': case['mode'],
                                        'what': 'could not build the polygon primitive: %r' % (e,)}]}
    for prim, site in prims:
        try:
            ok = True
            for pi, poly in enumerate(prim):
                if not ok:
                    break
                for ti, T in enumerate(poly.triangles()):
                    ok = check_triangle(T, site + '.Polygon.triangles', 'polygon %d, fan triangle %d' % (pi, ti))
                    if not ok:
                        break
            if hasattr(prim, 'triangleset'):
                ts = prim.triangleset()
                for i in range(len(ts)):
                    if not check_triangle(ts[i], site + '.triangleset', 'triangle %d' % i):
                        break
        except Exception as e:  # noqa
            fail('face-normal', site, 'iterating the triangles of the polygons raised %r' % (e,))
    return {'obs': None, 'fails': fails}


def run_case(case):
    if case['kind'] == 'poly':
        return run_poly_case(case)
    fails = []
    obs = {}

    def fail(clause, site, what, detail=None):
        if len(fails) < 4:
            fails.append({'clause': clause, 'site': site, 'what': what, 'detail': detail})

    try:
        ts0, prim, site = get_prim(case)
    except Exception as e:  # noqa
        return {'obs': None, 'fails': [{'clause': 'construct', 'site': case['mode'],
                                        'what': 'could not build the triangle set: %r' % (e,)}],
                'error': repr(e)}
    tris = [tuple(int(x) for x in row) for row in numpy.asarray(prim.vertex_index).reshape(-1, 3)]
    obs['tris'] = [list(t) for t in tris]
    P = numpy.asarray(prim.vertex, dtype=numpy.float64)
    obs['verts'] = exact_rows(P)
    fn = ref_face_normals(P, tris)
    seq = case.get('seq') or ''

    def check_generated(pr, where, PP, ffn):
        """clause 2 on a primitive whose generateNormals() has just run -> (N, NI) or None"""
        N = numpy.asarray(pr.normal, dtype=numpy.float64)
        NI = numpy.asarray(pr.normal_index)
        if N.shape != PP.shape:
            fail('indexed-like-vertices', where, 'normal array has shape %r, vertex array %r' % (N.shape, PP.shape))
            return N, NI
        if NI.shape != (len(tris), 3) or [tuple(int(x) for x in r) for r in NI] != tris:
            fail('indexed-like-vertices', where, 'normal_index differs from vertex_index')
            return N, NI
        sums = numpy.zeros(PP.shape)
        used = numpy.zeros(len(PP), dtype=bool)
        cnt = numpy.zeros(len(PP), dtype=int)
        if all(f is not None for f in ffn):
            for t, f in zip(tris, ffn):
                for c in range(3):
                    sums[t[c]] = sums[t[c]] + f
                    used[t[c]] = True
                    cnt[t[c]] += 1
            for v in range(len(PP)):
                if not used[v]:
                    continue
                L = math.sqrt(float(numpy.dot(sums[v], sums[v])))
                if L < MIN_SUM:
                    continue
                exp = sums[v] / L
                nl = math.sqrt(float(numpy.dot(N[v], N[v]))) if numpy.all(numpy.isfinite(N[v])) else float('nan')
                if not (abs(nl - 1.0) <= UNIT_TOL):
                    fail('vertex-unit', where,
                         'vertex %d (in %d triangle corners, sequence %r, scale 2^%s): generated normal %s has length %r'
                         % (v, cnt[v], seq, case.get('scale_exp', 0), N[v].tolist(), nl), {'vertex': v})
                    break
                if not numpy.all(numpy.abs(N[v] - exp) <= TOL * max(1.0, cnt[v] / (4 * L))):
                    fail('vertex-sum', where,
                         'vertex %d (in %d triangle corners, sequence %r, scale 2^%s): generated normal %s, normalised '
                         'sum of the incident unit face normals is %s'
                         % (v, cnt[v], seq, case.get('scale_exp', 0), N[v].tolist(), exp.tolist()), {'vertex': v})
                    break
        # the triangles handed out afterwards use the generated normals, indexed like the vertices
        try:
            for i in range(len(pr)):
                rows = numpy.asarray(pr[i].normals, dtype=numpy.float64)
                if rows.shape != (3, 3) or not numpy.array_equal(rows, N[list(tris[i])]):
                    fail('indexed-like-vertices', where,
                         'triangle %d after generateNormals does not carry the normals of its vertices' % i)
                    break
        except Exception as e:  # noqa
            fail('indexed-like-vertices', where, 'iterating triangles after generateNormals raised %r' % (e,))
        return N, NI

    if case['kind'] == 'normals':
        if seq == 'unbound-first' and ts0 is not prim:
            # the unbound set was regenerated before binding: it must be right as well
            try:
                P0 = numpy.asarray(ts0.vertex, dtype=numpy.float64)
                check_generated(ts0, 'TriangleSet', P0, ref_face_normals(P0, tris))
            except Exception as e:  # noqa
                fail('vertex-sum', 'TriangleSet', 'checking the unbound set raised %r' % (e,))
        # ---- clause 1: a triangle without normals carries the unit right-hand normal, three times
        face = []
        obs['face'] = ([], 1)
        if prim.normal is None:
            try:
                for i in range(len(prim)):
                    T = prim[i]
                    rows = numpy.asarray(T.normals, dtype=numpy.float64)
                    face.append(rows)
                    if rows.shape != (3, 3):
                        fail('face-normal', site, 'Triangle.normals has shape %r' % (rows.shape,))
                    elif fn[i] is not None and not numpy.all(numpy.abs(rows - fn[i]) <= DIR_TOL):
                        fail('face-normal', site, 'triangle %d (scale 2^%s): implicit normals %s, unit right-hand normal is %s'
                             % (i, case.get('scale_exp', 0), rows.tolist(), fn[i].tolist()))
                    elif fn[i] is not None and not numpy.all(numpy.abs(numpy.sqrt((rows * rows).sum(axis=1)) - 1.0) <= UNIT_TOL):
                        fail('face-normal-unit', site, 'triangle %d (scale 2^%s): implicit normals %s have lengths %s'
                             % (i, case.get('scale_exp', 0), rows.tolist(), numpy.sqrt((rows * rows).sum(axis=1)).tolist()))
                obs['face'] = exact_rows(numpy.array(face).reshape(-1, 3)) if face else ([], 1)
            except Exception as e:  # noqa
                fail('face-normal', site, 'iterating triangles raised %r' % (e,))
                obs['face'] = None
        # ---- clause 2: generateNormals (possibly for the second time)
        try:
            prim.generateNormals()
            if seq.endswith('twice'):
                prim.generateNormals()
            if 'edit' in seq:
                # the caller keeps the arrays it was given, rewrites the vertex positions IN PLACE (the very
                # reason to regenerate normals) and regenerates
                held = (prim.normal, prim.vertex)
                em = case['edit_mat']
                E3 = numpy.array([em[0:3], em[4:7], em[8:11]], dtype=numpy.float64)
                Et = numpy.array([em[3], em[7], em[11]], dtype=numpy.float64)
                V = prim.vertex
                V[:] = numpy.asarray(V, dtype=numpy.float64).dot(E3.T) + Et
                P = numpy.asarray(prim.vertex, dtype=numpy.float64)
                obs['verts'] = exact_rows(P)
                obs['face'] = ([], 1)          # the implicit normals above belong to the former positions
                fn = ref_face_normals(P, tris)
                prim.generateNormals()
                del held
            N, NI = check_generated(prim, site, P, fn)
        except Exception as e:  # noqa
            fail('vertex-sum', site, 'generateNormals raised %r' % (e,))
            return {'obs': None, 'fails': fails}
        obs['normal'] = exact_rows(N) if N.ndim == 2 and N.shape[1] == 3 else None
        obs['normal_index'] = [[int(x) for x in row] for row in NI.reshape(-1, 3)] if NI.size % 3 == 0 else None
    else:
        # ---- clause 3: generated texture tangents are unit and orthogonal to the corner's normal
        try:
            ops = case.get('tan_seq') or ((['gen'] if case.get('gen_normals_first') else []) + ['tan'])
            for op in ops:
                if op == 'gen':
                    prim.generateNormals()
                else:
                    prim.generateTexTangentsAndBinormals()
            Tn = numpy.asarray(prim.textangentset[0], dtype=numpy.float64)
            TI = numpy.asarray(prim.textangent_indexset[0])
            NA = numpy.asarray(prim.normal, dtype=numpy.float64)
            NI = numpy.asarray(prim.normal_index).reshape(-1)
        except Exception as e:  # noqa
            fail('tangent', site, 'generateTexTangentsAndBinormals raised %r' % (e,))
            return {'obs': None, 'fails': fails}
        obs['tangent'] = exact_rows(Tn) if Tn.ndim == 2 and Tn.shape[1] == 3 else None
        obs['tangent_index'] = [[int(x) for x in row] for row in TI.reshape(-1, 3)] if TI.size % 3 == 0 else None
        UV = numpy.asarray(prim.texcoordset[0], dtype=numpy.float64)
        UI = numpy.asarray(prim.texcoord_indexset[0]).reshape(-1, 3)
        ncorner = 3 * len(tris)
        if Tn.shape != (ncorner, 3) or TI.shape != (len(tris), 3):
            fail('tangent-per-corner', site, 'tangent array %r / index %r for %d triangles' % (Tn.shape, TI.shape, len(tris)))
        else:
            # reference accumulated tangent (Lengyel), only used to recognise degenerate corners
            tan = numpy.zeros(P.shape)
            for t, u in zip(tris, UI):
                e1, e2 = P[t[1]] - P[t[0]], P[t[2]] - P[t[0]]
                s1, t1 = UV[u[1]] - UV[u[0]]
                s2, t2 = UV[u[2]] - UV[u[0]]
                det = s1 * t2 - s2 * t1
                sd = (t2 * e1 - t1 * e2) / det
                for c in range(3):
                    tan[t[c]] = tan[t[c]] + sd
            flat = [v for t in tris for v in t]
            extent = max(1e-300, float(numpy.max(numpy.abs(P - P[tris[0][0]]))))
            for k in range(ncorner):
                row = Tn[int(TI.reshape(-1)[k])]
                n = NA[NI[k]]
                nl = math.sqrt(float(numpy.dot(n, n)))
                if abs(nl - 1.0) > 1e-3:
                    continue                       # the corner's normal is not a unit vector: no demand
                ref = tan[flat[k]] - n * float(numpy.dot(n, tan[flat[k]]))
                scale = max(1e-9, math.sqrt(float(numpy.dot(tan[flat[k]], tan[flat[k]]))))
                degenerate = math.sqrt(float(numpy.dot(ref, ref))) < 1e-2 * scale or scale < 1e-6 * extent
                L = math.sqrt(float(numpy.dot(row, row))) if numpy.all(numpy.isfinite(row)) else float('nan')
                if not (abs(L - 1.0) <= UNIT_TOL):
                    if degenerate:
                        continue
                    fail('tangent-unit', site, 'corner %d after %s: tangent %s has length %r' % (k, '+'.join(ops), row.tolist(), L))
                    break
                if abs(float(numpy.dot(row, n))) > TOL:
                    if degenerate:
                        continue
                    fail('tangent-orthogonal', site, 'corner %d after %s: tangent %s . normal %s = %r'
                         % (k, '+'.join(ops), row.tolist(), n.tolist(), float(numpy.dot(row, n))))
                    break
    return {'obs': obs, 'fails': fails}


def main():
    payload = json.load(sys.stdin)
    out = []
    for case in payload['cases']:
        try:
            out.append(run_case(case))
        except Exception as e:  # noqa
            out.append({'obs': None, 'fails': [{'clause': 'worker', 'site': case.get('mode'),
                                                'what': 'worker raised %r' % (e,)}], 'error': repr(e)})
    json.dump(out, sys.stdout)


if __name__ == '__main__':
    main()
