"""Deep walk of a pycollada object graph, shared by the C17 and C20 workers.

`locations(root)` maps every reachable *location* (a path from the root) to (kind, digest):
attributes, list/dict slots, array buffers (bytes) and array metadata (shape, dtype), XML
nodes (tag, attributes, text, tail, child count; children in order).  Digests are values
only (no id(), no addresses), so two processes agree on them.  Hidden attributes (caches)
are walked after everything else, so an object that is reachable from an observable
attribute is always attributed to the observable path.

`mutable_ids(root)` is the set of identities of the mutable objects reachable from root
(instances, lists, dicts, sets, arrays, XML elements), for the C20 no-sharing check.
"""
import hashlib
import re
import types

import numpy

HIDDEN_ATTRS = ('_triangleset', '_data', '_pilimage', '_uintarray', '_floatarray')
ATOMIC = (str, bytes, int, float, bool, complex, type(None), type(Ellipsis), type(NotImplemented))
_ADDR = re.compile(r'0x[0-9a-fA-F]+')


def _h(*parts):
    m = hashlib.sha1()
    for p in parts:
        if isinstance(p, (bytes, bytearray, memoryview)):
            m.update(bytes(p))
        else:
            m.update(str(p).encode('utf-8', 'backslashreplace'))
        m.update(b'\x00')
    return m.hexdigest()[:16]


def scrub(s):
    return _ADDR.sub('0x', s)


def is_element(x):
    return type(x).__name__ == 'Element' and hasattr(x, 'tag') and hasattr(x, 'attrib')


def is_tree(x):
    return type(x).__name__ == 'ElementTree' and hasattr(x, 'getroot')


class FixedDatetime(__import__('datetime').datetime):
    """the clock the workers give collada.asset: documents without <created>/<modified> and
    constructor-made documents otherwise differ from run to run"""
    @classmethod
    def now(cls, tz=None):
        return cls(2020, 1, 2, 3, 4, 5)


def freeze_clock():
    import datetime
    import collada.asset
    shim = types.ModuleType('datetime')
    shim.__dict__.update({k: v for k, v in datetime.__dict__.items() if not k.startswith('__')})
    shim.datetime = FixedDatetime
    collada.asset.datetime = shim


def func_digest(f):
    """a function value: its qualified name and what its closure cells hold (the per-document
    tagger closes over the namespace string)"""
    cells = []
    try:
        for c in (f.__closure__ or ()):
            v = c.cell_contents
            cells.append(repr(v) if isinstance(v, ATOMIC) else type(v).__name__)
    except ValueError:
        cells.append('<empty>')
    return _h('func', getattr(f, '__module__', ''), getattr(f, '__qualname__', repr(type(f))), *cells)


def _compact(path):
    """compact paths for value_hash: a long path is replaced by a short digest of itself (and child
    paths are built from that), so deeply nested documents do not cost quadratic string work"""
    return path if len(path) <= 40 else '~' + hashlib.sha1(path.encode('utf-8', 'backslashreplace')).hexdigest()[:20]


def locations(root, skip_hidden=False, compact=False):
    out = {}
    seen = {}
    deferred = []

    def emit(path, kind, digest):
        out[path] = (kind, digest)

    def expand(x, path, kids):
        """emits the location(s) of x and appends its children to kids (no recursion: documents may
        be nested deeper than the interpreter's recursion limit allows)"""
        if compact:
            path = _compact(path)
        if isinstance(x, ATOMIC):
            emit(path, 'field', _h(type(x).__name__, repr(x)))
            return
        if isinstance(x, numpy.generic):
            emit(path, 'field', _h('npscalar', x.dtype.str, repr(x.item())))
            return
        if isinstance(x, (types.FunctionType, types.BuiltinFunctionType)):
            emit(path, 'field', func_digest(x))
            return
        if isinstance(x, types.MethodType):
            emit(path, 'field', _h('method', x.__func__.__qualname__))
            return
        if isinstance(x, (type, types.ModuleType)):
            emit(path, 'field', _h('class', getattr(x, '__module__', ''), getattr(x, '__qualname__', getattr(x, '__name__', ''))))
            return
        if isinstance(x, types.GeneratorType):
            # a generator kept somewhere (an id counter): where it stands and its atomic locals
            fr = x.gi_frame
            loc = sorted((k, repr(v)) for k, v in fr.f_locals.items() if isinstance(v, ATOMIC)) if fr is not None else 'done'
            emit(path, 'field', _h('generator', x.__qualname__, fr.f_lasti if fr is not None else -1, loc))
            return
        if not isinstance(x, (tuple, frozenset)):
            # tuples are values: which tuple object holds them is not observable state
            k = id(x)
            if k in seen:
                emit(path, 'alias', _h('ref', seen[k]))
                return
            seen[k] = path
        if isinstance(x, numpy.ndarray):
            emit(path + '@meta', 'array_meta', _h(x.shape, x.dtype.str))
            if x.dtype == object:
                emit(path + '@data', 'array_data', _h(repr(x.tolist())))
            else:
                emit(path + '@data', 'array_data', _h(x.tobytes()))
            return
        if is_tree(x):
            emit(path, 'field', _h('ElementTree'))
            r = x.getroot()
            if r is not None:
                kids.append((r, path + '/'))
            return
        if is_element(x):
            emit(path, 'xml', _h(x.tag, sorted(x.attrib.items()), repr(x.text), repr(x.tail), len(x)))
            for i, c in enumerate(x):
                kids.append((c, '%s/%d' % (path, i)))
            return
        if isinstance(x, (list, tuple)):
            emit(path + '#', 'structure', _h(type(x).__name__, len(x)))
            for i, c in enumerate(x):
                kids.append((c, '%s[%d]' % (path, i)))
            d = getattr(x, '__dict__', None)
            if d:
                for a, v in d.items():
                    kids.append((v, '%s.%s' % (path, a)))
            return
        if isinstance(x, dict):
            keys = sorted(x.keys(), key=repr)
            emit(path + '#', 'structure', _h('dict', [scrub(repr(q)) for q in keys]))
            for q in keys:
                kids.append((x[q], '%s{%s}' % (path, scrub(repr(q)))))
            return
        if isinstance(x, (set, frozenset)):
            emit(path + '#', 'structure', _h('set', sorted(scrub(repr(q)) for q in x)))
            return
        d = getattr(x, '__dict__', None)
        if type(x).__module__.startswith(('zipfile', 'io', '_io', 'threading', '_thread')):
            emit(path, 'field', _h('opaque', type(x).__module__, type(x).__qualname__))
            return
        if d is None:
            emit(path, 'field', _h('value', type(x).__module__, type(x).__qualname__, scrub(repr(x))))
            return
        emit(path, 'field', _h('instance', type(x).__module__, type(x).__qualname__))
        for a, v in list(d.items()):
            if a in HIDDEN_ATTRS:
                deferred.append((v, '%s.%s' % (path, a)))
            else:
                kids.append((v, '%s.%s' % (path, a)))

    def walk(x, path):
        stack = [(x, path)]
        while stack:
            y, q = stack.pop()
            kids = []
            expand(y, q, kids)
            stack.extend(reversed(kids))       # preorder, children in their own order

    walk(root, '')
    if not skip_hidden:
        while deferred:
            v, p = deferred.pop(0)
            walk(v, p)
    return out


def klass(path, kind):
    """the class of a location, as the Coq model names them"""
    if '._triangleset' in path:
        return 'tricache'
    if re.search(r'\._(data|pilimage|uintarray|floatarray)($|[^A-Za-z_])', path):
        return 'imgcache'
    if kind == 'xml':
        return 'xml'
    if kind in ('array_data', 'array_meta', 'alias', 'structure'):
        if kind == 'structure' and path.startswith('.errors'):
            return 'errors'
        return kind
    if path.startswith('.errors'):
        return 'errors'
    if path.endswith('.components') or '.components[' in path or '.components#' in path:
        return 'components'
    return 'field'


_PRIV = re.compile(r'\.(_[A-Za-z0-9_]*)')


def new_private(p, a):
    """p lies under a private attribute (._name) that did not exist in the earlier map a: a cache
    the operation created, not part of the model's public state"""
    for m in _PRIV.finditer(p):
        prefix = p[:m.end()]
        if m.group(1) in HIDDEN_ATTRS:
            return False
        if not any(k == prefix or (k.startswith(prefix) and k[len(prefix)] in '.[{#@/') for k in a):
            return True
    return False


def diff(a, b):
    """changed locations between two location maps: {path: class}"""
    ch = _diff(a, b)
    for p in ch:
        if p not in a and ch[p] not in ('tricache', 'imgcache') and new_private(p, a):
            ch[p] = 'newprivate'
    return ch


def _diff(a, b):
    ch = {}
    for p, (k, d) in a.items():
        q = b.get(p)
        if q is None:
            ch[p] = klass(p, k)
        elif q[1] != d:
            ch[p] = klass(p, k)
    for p, (k, d) in b.items():
        if p not in a:
            ch[p] = klass(p, k)
    return ch


def observable(locs):
    return {p: v for p, v in locs.items() if klass(p, v[0]) not in ('tricache', 'imgcache')}


def observable_diff(a, b):
    """differences between two documents that should be equal, private attributes that exist in
    only one of them (caches) left out"""
    d = _diff(a, b)
    return {p: c for p, c in d.items() if not ((p not in a and new_private(p, a)) or (p not in b and new_private(p, b)))}


def value_hash(root, skip_hidden=True):
    """one digest of everything observable from root (process independent)"""
    locs = locations(root, skip_hidden=skip_hidden, compact=True)
    return _h(*['%s=%s' % (p, locs[p][1]) for p in sorted(locs)])


def mutable_ids(root):
    """identities (with a path) of the mutable objects reachable from root: lists, dicts, sets,
    bytearrays, arrays (and the arrays they are views of), XML elements and trees, and instances
    that have a __dict__.  Immutable values, classes, functions and modules are not objects a
    document can be contaminated through and are skipped."""
    seen = {}
    visited = set()
    stack = [(root, '')]
    while stack:
        x, path = stack.pop()
        if isinstance(x, ATOMIC) or isinstance(x, (numpy.generic, type, types.ModuleType, types.FunctionType,
                                                   types.BuiltinFunctionType, frozenset)):
            continue
        if isinstance(x, types.MethodType):
            x = x.__self__
            path += '.__self__'
            if isinstance(x, (type, types.ModuleType)):
                continue
        k = id(x)
        if k in visited:
            continue
        visited.add(k)
        if isinstance(x, tuple):
            for i, c in enumerate(x):
                stack.append((c, '%s[%d]' % (path, i)))
            continue
        if type(x).__module__.split('.')[0] in ('zipfile', 'io', '_io', 'threading', '_thread', 'datetime', 'dateutil'):
            continue
        if isinstance(x, numpy.ndarray):
            seen[k] = (path, x)
            if x.base is not None:
                stack.append((x.base, path + '@base'))
            continue
        if is_tree(x):
            seen[k] = (path, x)
            stack.append((x.getroot(), path + '/'))
            continue
        if is_element(x):
            seen[k] = (path, x)
            for i, c in enumerate(x):
                stack.append((c, '%s/%d' % (path, i)))
            continue
        if isinstance(x, (list, bytearray)):
            seen[k] = (path, x)
            if isinstance(x, list):
                for i, c in enumerate(x):
                    stack.append((c, '%s[%d]' % (path, i)))
        elif isinstance(x, dict):
            seen[k] = (path, x)
            for q, v in x.items():
                stack.append((q, '%s{key}' % path))
                stack.append((v, '%s{%s}' % (path, scrub(repr(q)))))
            continue
        elif isinstance(x, set):
            seen[k] = (path, x)
            for q in x:
                stack.append((q, path + '{elem}'))
            continue
        d = getattr(x, '__dict__', None)
        if isinstance(d, dict):
            seen[k] = (path, x)
            for a, v in d.items():
                stack.append((v, '%s.%s' % (path, a)))
    return seen
