"""Implementation worker for C08 (also used by C07 for snapshots): loads faulted documents with
pycollada under several ignore configurations and records what happens; evaluates the clauses of
the property directly (`fails`).  Run in a fresh interpreter; JSON in, JSON out."""
import hashlib
import io
import json
import sys

LIBS = ['images', 'effects', 'materials', 'animations', 'geometries', 'controllers', 'lights', 'cameras',
        'nodes', 'scenes']
LIBCODE = {'images': 1, 'effects': 2, 'materials': 3, 'animations': 4, 'geometries': 5, 'controllers': 6,
           'lights': 7, 'cameras': 8, 'nodes': 9, 'scenes': 10, 'scene': 11}
DAE = ['DaeError', 'DaeIncompleteError', 'DaeBrokenRefError', 'DaeMalformedError', 'DaeUnsupportedError',
       'DaeSaveValidationError']


def exc_code(e):
    import collada.common as cc
    table = [(cc.DaeIncompleteError, 1), (cc.DaeBrokenRefError, 2), (cc.DaeMalformedError, 3),
             (cc.DaeUnsupportedError, 4), (cc.DaeSaveValidationError, 5), (cc.DaeError, 6),
             (IndexError, 7), (KeyError, 8), (TypeError, 9), (ValueError, 10), (AttributeError, 11)]
    for cls, code in table:
        if isinstance(e, cls):
            return code
    return 12


def is_dae(e):
    import collada.common as cc
    return isinstance(e, cc.DaeError)


# ------------------------------------------------------------------ snapshots

def make_snapshotter(col):
    """value digest of a library object: its public data, recursively; other library objects
    are named by (class, id); xml nodes and the document are skipped"""
    import numpy
    import collada
    from collada.common import DaeObject
    try:
        from xml.etree.ElementTree import Element
    except ImportError:  # pragma: no cover
        Element = ()
    libobjs = {}
    for a in LIBS:
        for o in getattr(col, a):
            libobjs[id(o)] = (a, getattr(o, 'id', None))

    def snap(o, root, seen, depth):
        if o is None or isinstance(o, (bool, int, str)):
            return o
        if isinstance(o, float):
            return repr(o)
        if isinstance(o, bytes):
            return ['bytes', len(o)]
        if isinstance(o, numpy.ndarray):
            return ['nd', list(o.shape), str(o.dtype), [repr(x) for x in o.ravel().tolist()]]
        if isinstance(o, numpy.generic):
            return repr(o.item())
        if isinstance(o, Element) or hasattr(o, 'tag') and hasattr(o, 'attrib'):
            return 'xml'
        if isinstance(o, collada.Collada):
            return 'collada'
        if isinstance(o, (list, tuple)):
            return [snap(x, root, seen, depth + 1) for x in o]
        if isinstance(o, dict):
            return ['dict'] + [[snap(k, root, seen, depth + 1), snap(v, root, seen, depth + 1)]
                               for k, v in sorted(o.items(), key=lambda kv: str(kv[0]))]
        if o is not root and id(o) in libobjs:
            return ['ref', type(o).__name__, libobjs[id(o)][0], libobjs[id(o)][1]]
        if id(o) in seen:
            return ['seen', seen[id(o)]]
        if depth > 40:
            return 'deep'
        seen[id(o)] = len(seen)
        d = getattr(o, '__dict__', None)
        if d is None:
            return ['obj', type(o).__name__]
        out = ['obj', type(o).__name__]
        for k in sorted(d):
            if k in ('xmlnode', 'collada', 'controller_node', 'skin_node'):
                continue
            out.append([k, snap(d[k], root, seen, depth + 1)])
        if isinstance(o, collada.scene.NodeNode):
            n = o.node
            out.append(['node->', type(n).__name__, getattr(n, 'id', None)])
        return out

    def digest(o):
        s = json.dumps(snap(o, o, {}, 0), sort_keys=True, default=str)
        return int(hashlib.sha1(s.encode()).hexdigest()[:12], 16)
    return digest


def elem_index(col):
    return {id(e): i for i, e in enumerate(col.xmlnode.getroot().iter())}


def loaded_of(col):
    """[(libcode, uid)] per library in list order; uid = index of the object's xml element"""
    idx = elem_index(col)
    out = []
    fresh = 10 ** 6
    for a in LIBS:
        for o in getattr(col, a):
            u = idx.get(id(getattr(o, 'xmlnode', None)))
            if u is None:
                fresh += 1
                u = fresh
            out.append([LIBCODE[a], u])
    sc = getattr(col, 'scene', None)
    if sc is not None:
        u = idx.get(id(getattr(sc, 'xmlnode', None)))
        out.append([11, u if u is not None else fresh + 500])
    return out


def snapshot_of(col):
    dig = make_snapshotter(col)
    out = []
    for a in LIBS:
        for o in getattr(col, a):
            out.append([LIBCODE[a], getattr(o, 'id', None), dig(o)])
    sc = getattr(col, 'scene', None)
    if sc is not None:
        # the default scene is a binding: which scene object it is
        out.append([11, getattr(sc, 'id', None), 1 if col.scenes.get(getattr(sc, 'id', None)) is sc else 2])
    return out


# ------------------------------------------------------------------ loading

def classes():
    import collada.common as cc
    d = {n: getattr(cc, n) for n in DAE}
    d['ValueError'] = ValueError
    d['KeyError'] = KeyError
    d['Exception'] = Exception
    d['BaseException'] = BaseException
    d['object'] = object
    d['Tuple:DaeBrokenRefError+DaeMalformedError'] = (cc.DaeBrokenRefError, cc.DaeMalformedError)
    d['Tuple:ValueError+DaeError'] = (ValueError, cc.DaeError)
    d['Tuple:ValueError+KeyError'] = (ValueError, KeyError)
    for n in DAE:
        d['UserSub:' + n] = type('User' + n, (getattr(cc, n),), {})
    return d


TINY = ('<?xml version="1.0" encoding="utf-8"?><COLLADA xmlns="http://www.collada.org/2005/11/COLLADASchema" version="1.4.1">'
        '<asset><created>2020-01-01T00:00:00Z</created><modified>2020-01-01T00:00:00Z</modified></asset>'
        '<library_images><image id="i0"><init_from>missing.png</init_from></image></library_images></COLLADA>')
_OTHER_DOCUMENTS = []


def other_documents_prelude():
    """process state: OTHER documents of the same process - created empty and loaded from a file object with
    default arguments, and loaded with the caller's own ignore list - on which the public ignoreErrors() is used.
    Nothing done to them may change how a later document loads."""
    import collada
    import collada.common as cc
    a = collada.Collada()
    a.ignoreErrors(cc.DaeError)
    b = collada.Collada(io.BytesIO(TINY.encode()))
    b.ignoreErrors(cc.DaeBrokenRefError, cc.DaeMalformedError, cc.DaeIncompleteError)
    mine = [cc.DaeUnsupportedError]
    c = collada.Collada(io.BytesIO(TINY.encode()), ignore=mine)
    c.ignoreErrors(cc.DaeError)
    _OTHER_DOCUMENTS[:] = [a, b, c]          # they stay alive while the case runs
    return mine


def load(data, ignore, traced=False):
    """-> dict(esc, esc_name, errs, loaded, snapshot, trace, col)"""
    import collada
    held = []
    trace = []

    class Held(collada.Collada):
        def __init__(self, *a, **k):
            held.append(self)
            super(Held, self).__init__(*a, **k)

    class Traced(Held):
        def handleError(self, error):
            # what is in the libraries when the error is handed over (element indices)
            if not hasattr(self, '_verif_idx'):
                self._verif_idx = elem_index(self)
            trace.append([exc_code(error),
                          [[self._verif_idx.get(id(getattr(o, 'xmlnode', None)), 10 ** 6) for o in getattr(self, a)]
                           for a in LIBS]])
            return super(Traced, self).handleError(error)

    cls = Traced if traced else Held
    esc = None
    try:
        if ignore is None:
            cls(io.BytesIO(data))          # default arguments: the keyword is really omitted
        else:
            cls(io.BytesIO(data), ignore=ignore)
    except BaseException as e:  # noqa
        if isinstance(e, (KeyboardInterrupt, SystemExit, MemoryError)):
            raise
        esc = e
    col = held[0] if held else None
    res = {'esc': exc_code(esc) if esc is not None else 0,
           'esc_name': type(esc).__name__ if esc is not None else None,
           'esc_msg': str(esc)[:200] if esc is not None else None,
           'esc_dae': is_dae(esc) if esc is not None else None,
           'errs': [], 'err_names': [], 'loaded': [], 'snapshot': None, 'trace': trace, 'col': col,
           'errs_all_dae': True}
    if col is not None:
        errs = list(getattr(col, 'errors', []))
        res['errs'] = [exc_code(e) for e in errs]
        res['err_names'] = [type(e).__name__ for e in errs]
        res['errs_all_dae'] = all(is_dae(e) for e in errs)
        try:
            res['loaded'] = loaded_of(col) if getattr(col, 'xmlnode', None) is not None else []
        except Exception:  # noqa
            res['loaded'] = []
        if esc is None:
            res['snapshot'] = snapshot_of(col)
    return res


def events_of(tr):
    """event trace of the full-mask run: the objects that appeared in the libraries between
    consecutive handleError calls, then the error; finally whatever was loaded after the last one"""
    seen = {a: set() for a in LIBS}
    ev = []
    for code, snap in tr['trace']:
        for i, a in enumerate(LIBS):
            for u in snap[i]:
                if u not in seen[a]:
                    seen[a].add(u)
                    ev.append(['ok', LIBCODE[a], u])
        ev.append(['err', code])
    for lc, u in tr['loaded']:
        if lc <= 10:
            a = LIBS[lc - 1]
            if u not in seen[a]:
                seen[a].add(u)
                ev.append(['ok', lc, u])
    for lc, u in tr['loaded']:
        if lc == 11:
            ev.append(['ok', 11, u])
    return ev


DANGLING_IS_BROKENREF = {'dangling:instance_geometry@url', 'dangling:instance_controller@url', 'dangling:instance_light@url',
                         'dangling:instance_camera@url', 'dangling:instance_node@url', 'dangling:instance_material@target',
                         'dangling:instance_effect@url', 'dangling:init_from/text', 'dangling:source/text',
                         'dangling:instance_visual_scene@url', 'dangling:skin@source', 'dangling:morph@source'}
LEAVES = ['DaeIncompleteError', 'DaeBrokenRefError', 'DaeMalformedError', 'DaeUnsupportedError']


def configs_for(strict):
    """ignore configurations as lists of class names (None = no ignore argument)"""
    cfgs = [('strict', None), ('clear_only', ['None']), ('base', ['DaeError'])]
    n = strict['esc_name']
    if n in DAE and n != 'DaeError':
        cfgs.append(('exact', [n]))
        others = [x for x in LEAVES if x != n]
        cfgs.append(('unrelated', [others[(LEAVES.index(n) if n in LEAVES else 0) % len(others)],
                                   'DaeSaveValidationError', 'ValueError', 'UserSub:' + n]))
    else:
        cfgs.append(('unrelated', ['DaeSaveValidationError', 'ValueError', 'UserSub:DaeError']))
    return cfgs


def probe_handle(col, err):
    """hand err to col.handleError the way the library does; -> 'raised' / 'swallowed' / 'raw:<Class>'"""
    import collada.common as cc
    try:
        try:
            raise err
        except cc.DaeError as ex:
            col.handleError(ex)
    except cc.DaeError as ex2:
        return 'raised' if ex2 is err else 'raw:other'
    except BaseException as ex3:  # noqa
        return 'raw:' + type(ex3).__name__
    return 'swallowed'


def probe_lazy(col):
    """read the data of every image again (the files do not exist): 'raised' / 'swallowed' / None"""
    import collada.common as cc
    out = None
    for img in col.images:
        try:
            img.data = None
            img.data
            out = out or 'swallowed'
        except cc.DaeBrokenRefError:
            return 'raised'
        except BaseException as e:  # noqa
            return 'raw:' + type(e).__name__
    return out


def post_load_mask_clauses(col, K):
    import collada.common as cc
    problems = []
    seen = []
    for e in col.errors:
        if type(e) not in seen:
            seen.append(type(e))
    seen = [c for c in seen if c.__module__ == cc.__name__][:4] or [cc.DaeBrokenRefError]
    n0 = len(col.errors)
    # still masked: the load was done with ignore=[DaeError]
    for c in seen:
        if probe_handle(col, c('probe')) != 'swallowed':
            problems.append('with ignore=[DaeError] a %s handed to handleError after the load is not swallowed' % c.__name__)
    if probe_lazy(col) not in (None, 'swallowed'):
        problems.append('with ignore=[DaeError] reading the data of a missing image after the load raises')
    col.ignoreErrors(None)
    if list(col.maskedErrors):
        problems.append('ignoreErrors(None) leaves %r in the mask' % (col.maskedErrors,))
    for c in seen:
        r = probe_handle(col, c('probe'))
        if r != 'raised':
            problems.append('after ignoreErrors(None) a %s (a class ignored during the load) is %s instead of re-raised'
                            % (c.__name__, r))
    r = probe_lazy(col)
    if r not in (None, 'raised'):
        problems.append('after ignoreErrors(None) reading the data of a missing image is %s instead of raising DaeBrokenRefError' % r)
    col.ignoreErrors(cc.DaeIncompleteError)
    r = probe_handle(col, cc.DaeBrokenRefError('probe'))
    if r != 'raised':
        problems.append('after clear + ignoreErrors(DaeIncompleteError) a DaeBrokenRefError is %s' % r)
    col.ignoreErrors(cc.DaeBrokenRefError)
    r = probe_lazy(col)
    if r not in (None, 'swallowed'):
        problems.append('after ignoreErrors(DaeBrokenRefError) reading the data of a missing image is %s' % r)
    if len(col.errors) <= n0:
        problems.append('errors handed to handleError after the load are not recorded')
    return problems


def scope_leak_problems(text, fault, K, how='defined only in another scope'):
    """a reference to a name that is defined only in ANOTHER scope (another effect's sid, another
    geometry's source, another scene's node) must behave exactly like a reference to an undefined
    name: same escaping class, same recorded error classes, same loaded values - it is dangling and
    must never be bound to the other scope's object"""
    from harness.gen import faults as F
    a = F.apply_faults(text, [fault])
    b = F.apply_faults(text, [F.dangling_twin(fault)])
    problems = []
    for ign, nm in ((None, 'no ignore'), ([K['DaeError']], 'ignore=[DaeError]')):
        ra, rb = load(a, ign), load(b, ign)
        if ra['esc_name'] != rb['esc_name'] or ra['err_names'] != rb['err_names']:
            problems.append('%s: the reference %r, %s, gives %s/%s; an undefined name there gives %s/%s'
                            % (nm, fault['value'], how, ra['esc_name'], ra['err_names'], rb['esc_name'], rb['err_names']))
        elif ra['snapshot'] != rb['snapshot']:
            diff = [x[:2] for x, y in zip(ra['snapshot'] or [], rb['snapshot'] or []) if x != y]
            problems.append('%s: the reference %r, %s, is bound to something: the loaded objects %s '
                            'differ from those loaded with an undefined name in its place' % (nm, fault['value'], how, diff[:3]))
    return problems


def run_doc_case(case, bases, base_cache):
    from harness.gen import faults as F
    text = bases[case['base']]
    data = F.apply_faults(text, case['faults'])
    wf = F.well_formed(data)
    K = classes()
    label = '+'.join(F.site_label(f) for f in case['faults'])
    fails = []

    def fail(clause, what, exc=None, detail=None):
        sig = 'C08:%s:%s' % (clause, label) + (':' + exc if exc else '')
        if len(fails) < 4 and not any(f['signature'] == sig for f in fails):
            fails.append({'signature': sig, 'clause': clause, 'what': what, 'detail': detail})

    def ign(names):
        if names is None:
            return None
        return [None if n == 'None' else K[n] for n in names]

    mine = other_documents_prelude()
    strict = load(data, None)
    runs = []
    by_name = {}
    for name, names in configs_for(strict):
        r = strict if name == 'strict' else load(data, ign(names))
        by_name[name] = r
        runs.append({'config': name, 'mask': names or [], 'esc': r['esc'], 'esc_name': r['esc_name'],
                     'errs': r['errs'], 'loaded': r['loaded']})
        # ---- clause: never a raw Python exception; malformed XML -> DaeMalformedError
        if r['esc'] and not r['esc_dae']:
            fail('raw-exception', 'loading with ignore=%s lets a raw %s escape (%s): %s'
                 % (names, r['esc_name'], label, r['esc_msg']), r['esc_name'])
        if not r['errs_all_dae']:
            fail('recorded-not-dae', 'Collada.errors holds a non-DaeError with ignore=%s: %s' % (names, r['err_names']))
        if not wf and r['esc_name'] != 'DaeMalformedError':
            fail('malformed-xml', 'malformed XML with ignore=%s gives %s instead of DaeMalformedError'
                 % (names, r['esc_name']), r['esc_name'])
    again = load(data, mine)          # the list object another document was created with and then extended its own mask
    if (again['esc_name'], again['errs']) != (strict['esc_name'], strict['errs']) and wf and strict['esc_dae'] \
            and 'DaeUnsupportedError' not in by_name['base']['err_names'] and strict['esc_name'] != 'DaeUnsupportedError':
        fail('unlisted-aborts', 'a list used as ignore= for ANOTHER document, whose mask was extended afterwards, now ignores more: '
                                '%s/%s instead of %s' % (again['esc_name'], again['err_names'], strict['esc_name']))
    # ---- clause: the ignore mask accepts whatever isinstance(error, entry) accepts: classes above DaeError
    # (Exception, BaseException, object) and tuples of classes, and nothing else
    if wf and strict['esc'] and strict['esc_dae'] and strict['esc_name'] in K:
        E = K[strict['esc_name']]
        leaves = [K[x] for x in LEAVES if not issubclass(E, K[x])]
        h = sum(ord(c) for c in label) + len(data)
        entries = [('Exception', Exception), ('BaseException', BaseException), ('object', object),
                   ('(%s, ValueError)' % strict['esc_name'], (E, ValueError)),
                   ('(KeyError, DaeError)', (KeyError, K['DaeError'])),
                   ('(ValueError, KeyError)', (ValueError, KeyError)),
                   ('(%s,)' % ', '.join(c.__name__ for c in leaves[:2]), tuple(leaves[:2]))]
        for nm, X in (entries[h % 3], entries[3 + h % 2], entries[5 + h % 2]):
            masks_it = isinstance(E('x'), X)
            r = load(data, [X])
            if r['esc'] and not r['esc_dae']:
                fail('raw-exception', 'loading with ignore=[%s] lets a raw %s escape (%s): %s' % (nm, r['esc_name'], label, r['esc_msg']),
                     r['esc_name'])
            elif masks_it and r['esc_name'] == strict['esc_name'] and r['errs'] == strict['errs']:
                fail('ignore-entry', 'ignore=[%s] does not ignore the %s although isinstance(error, %s) holds: the load still aborts'
                     % (nm, strict['esc_name'], nm), strict['esc_name'])
            elif masks_it and strict['esc_name'] not in r['err_names']:
                fail('ignore-entry', 'ignore=[%s]: the ignored %s is not recorded (%s)' % (nm, strict['esc_name'], r['err_names']))
            elif not masks_it and (r['esc_name'], r['errs']) != (strict['esc_name'], strict['errs']):
                fail('ignore-entry', 'ignore=[%s] changes the outcome although isinstance(error, %s) is false: %s/%s instead of %s'
                     % (nm, nm, r['esc_name'], r['err_names'], strict['esc_name']))
    tr = load(data, [K['DaeError']], traced=True)
    events = events_of(tr)
    full = by_name['base']
    out = {'runs': runs, 'events': events, 'well_formed': wf, 'label': label,
           'trace_agrees': tr['errs'] == full['errs'] and tr['loaded'] == full['loaded'] and tr['esc'] == full['esc'],
           'strict_esc': strict['esc_name']}
    if wf:
        sesc = strict['esc_name']
        # ---- clause: with the class or a base class ignored the load completes and records it
        if strict['esc'] and strict['esc_dae']:
            if full['esc']:
                fail('ignored-completes', 'ignore=[DaeError] still aborts with %s (%s)' % (full['esc_name'], label),
                     full['esc_name'])
            elif sesc not in full['err_names']:
                fail('recorded', 'the %s raised without ignore is not in errors under ignore=[DaeError]: %s'
                     % (sesc, full['err_names']))
            ex = by_name.get('exact')
            if ex is not None:
                if ex['esc'] and ex['esc_dae'] and issubclass(K.get(ex['esc_name'], Exception), K[sesc]):
                    fail('ignored-completes', 'ignore=[%s] still aborts with %s (%s)' % (sesc, ex['esc_name'], label),
                         ex['esc_name'])
                if sesc not in ex['err_names']:
                    fail('recorded', 'the ignored %s is not recorded in errors: %s' % (sesc, ex['err_names']))
            # ---- clause: classes not listed still abort
            un = by_name['unrelated']
            if un['esc_name'] != sesc or un['errs'] != strict['errs']:
                fail('unlisted-aborts', 'ignore=%s (none of them %s) changes the outcome: %s/%s instead of %s/%s'
                     % (runs[-1]['mask'], sesc, un['esc_name'], un['err_names'], sesc, strict['err_names']))
            co = by_name['clear_only']
            if co['esc_name'] != sesc or co['errs'] != strict['errs']:
                fail('clear-restores', 'ignore=[None] (clear the mask) does not behave strictly: %s/%s instead of %s/%s'
                     % (co['esc_name'], co['err_names'], sesc, strict['err_names']))
        # ---- clause: clearing the mask on the loaded object restores strictness, also for error
        # classes that were ignored during the load, and for lazily reported errors (image data)
        fcol = full.get('col')
        if fcol is not None and not full['esc']:
            for what in post_load_mask_clauses(fcol, K):
                fail('clear-restores-after-load', what + ' (%s)' % label)
        # ---- clause: a dangling reference of the kinds the loader must resolve is a broken-reference error
        if len(case['faults']) == 1 and case['faults'][0]['kind'] == 'dangling' and label in DANGLING_IS_BROKENREF:
            if sesc != 'DaeBrokenRefError':
                fail('dangling-kind', 'a dangling reference (%s) gives %s instead of DaeBrokenRefError' % (label, sesc), str(sesc))
        # ---- clause: an error reached before an instance_node that never resolves is recorded although
        # the node is deferred, retried and finally given up
        if case.get('recorded_before_deferral') and not full['esc']:
            single = load(F.apply_faults(text, case['faults'][:1]), [K['DaeError']])
            missing = [n for n in set(single['err_names']) if n not in full['err_names']]
            if not single['esc'] and missing:
                fail('recorded', 'the %s recorded for %s alone is not recorded when an instance_node later in the same '
                                 'top-level node never resolves: errors %s' % (missing, F.site_label(case['faults'][0]), full['err_names']))
        # ---- clause: two faults in objects that do not depend on each other are both reported: what each records
        # alone is recorded when both are present, and ignoring only the classes of the first still aborts on the second
        if len(case['faults']) == 2 and all('elem' in f for f in case['faults']) and not full['esc'] \
                and not case.get('recorded_before_deferral'):
            root2 = F.parse(text)
            els2 = F.elements(root2)
            ka = F.item_key_of(root2, els2[case['faults'][0]['elem']])
            kb = F.item_key_of(root2, els2[case['faults'][1]['elem']])
            if ka is not None and kb is not None and ka != kb \
                    and kb not in F.affected_items(root2, [els2[case['faults'][0]['elem']]]) \
                    and ka not in F.affected_items(root2, [els2[case['faults'][1]['elem']]]):
                import collections
                sa = load(F.apply_faults(text, case['faults'][:1]), [K['DaeError']])
                sb = load(F.apply_faults(text, case['faults'][1:]), [K['DaeError']])
                if not sa['esc'] and not sb['esc']:
                    # (class-wise, not count-wise: both faults may break the same dependent object, which then fails once)
                    need = set(sa['err_names']) | set(sb['err_names'])
                    missing = [n for n in sorted(need) if n not in full['err_names']]
                    if missing:
                        fail('recorded', 'two independent faults (%s): alone they record %s and %s, together only %s - a %s is lost'
                             % (label, sa['err_names'], sb['err_names'], full['err_names'], missing[0]))
                    acls = sorted(set(sa['err_names']))
                    late = [n for n in sb['err_names'] if n not in acls and not any(issubclass(K[n], K[a_]) for a_ in acls)]
                    if acls and late and all(a_ in K for a_ in acls):
                        part = load(F.apply_faults(text, case['faults']), [K[a_] for a_ in acls])
                        if not part['esc']:
                            fail('unlisted-aborts', 'with ignore=%s (the classes of the first fault) the second, independent fault (%s) '
                                                    'no longer aborts the load: errors %s' % (acls, late, part['err_names']))
        # ---- clause: a name defined in another scope is dangling
        if len(case['faults']) == 1 and case['faults'][0]['kind'] == 'crossref':
            for what in scope_leak_problems(text, case['faults'][0], K,
                                            how='defined, but as something else than what is referenced,'
                                            if case['faults'][0].get('wrongkind') else 'defined only in another scope'):
                fail('scope-leak', what)
        # ---- clause: a reference that is not '#'+id is never resolved through its fragment
        if len(case['faults']) == 1 and case['faults'][0]['kind'] == 'extref' and not case['faults'][0].get('empty'):
            for what in scope_leak_problems(text, case['faults'][0], K, how='which is not of the form #id'):
                fail('foreign-reference', what)
        # ---- clause: containment + nothing invented
        base = base_cache[case['base']]
        root = F.parse(text)
        els = F.elements(root)
        fe = [els[f['elem']] for f in case['faults'] if 'elem' in f]
        aff = F.affected_items(root, fe)
        items = F.library_items(root)
        affected = []
        for attr, n, it in items:
            if (attr, n) in aff:
                affected.append([LIBCODE[attr], it.get('id')])
        if any(f['kind'] == 'badbyte' for f in case['faults']):
            # an overwritten byte that still parses changes some text somewhere: no containment claim
            affected = [[s_[0], s_[1]] for s_ in base['snapshot']]
        if ('scene', 0) in aff:
            for lc, i, h in base['snapshot']:
                if lc == 11:
                    affected.append([11, i])
        # the default-scene binding also depends on the scene it names
        for lc, i, h in base['snapshot']:
            if lc == 11 and [10, i] in affected and [11, i] not in affected:
                affected.append([11, i])
        out['affected'] = affected
        out['base_snapshot'] = base['snapshot']
        froot = F.parse(data)
        fidx = {id(e): i for i, e in enumerate(froot.iter())}
        item_elems = [[LIBCODE[attr], fidx[id(it)]] for attr, n, it in F.library_items(froot)]
        for e in froot.iter():
            if F.bare(e.tag) == 'profile_COMMON':
                for c in e:
                    if F.bare(c.tag) == 'image':
                        item_elems.append([1, fidx[id(c)]])
            if F.bare(e.tag) == 'visual_scene':
                item_elems.append([11, fidx[id(e)]])
        out['item_elems'] = item_elems
        for name in ('base', 'strict'):
            r = by_name[name]
            if r['esc']:
                continue
            aset = {tuple(a) for a in affected}
            keep = [s for s in base['snapshot'] if (s[0], s[1]) not in aset]
            keys = {(s[0], s[1]) for s in keep}
            got = [s for s in r['snapshot'] if (s[0], s[1]) in keys]
            if got != keep:
                missing = [s[:2] for s in keep if s not in got]
                fail('containment', 'with ignore=%s an object that neither contains the damaged element nor depends on '
                                    'one that does is missing or differs from the undamaged load: %s (%s)'
                     % (runs[[x['config'] for x in runs].index(name)]['mask'], missing[:3], label),
                     detail={'expected': keep[:6], 'got': got[:6]})
            ie = {tuple(x) for x in item_elems}
            lo = [tuple(x) for x in r['loaded']]
            if any(x not in ie for x in lo) or len(set(lo)) != len(lo):
                fail('invented', 'with ignore=%s a library holds an object that no library element of the document '
                                 'produced, or the same element twice: %s' % (name, [x for x in lo if x not in ie][:3]))
        out['completed'] = not full['esc']
        out['fault_snapshot'] = full['snapshot'] if not full['esc'] else []
        out['loaded_full'] = full['loaded']
    out['fails'] = fails
    return out


def run_mask_case(case):
    """history of ignoreErrors calls interleaved with handleError probes (direct, and lazily through
    CImage.data of a missing file) on ONE Collada object"""
    import collada
    import collada.common as cc
    K = classes()
    ops = case['ops']
    rest = ops
    before_doc = collada.Collada()
    if case.get('ctor') and ops and ops[0][0] == 'add':
        col = collada.Collada(io.BytesIO(case['doc'].encode()), ignore=[K[n] for n in ops[0][1]])
        rest = ops[1:]
        steps = [['add', ops[0][1]]]
    elif case.get('doc'):
        col = collada.Collada(io.BytesIO(case['doc'].encode()))
        steps = []
    else:
        col = collada.Collada()
        steps = []
    fails = []
    mask = list(steps[0][1]) if steps else []

    def check(n, outcome, how):
        should_mask = any(m in K and m != 'None' and issubclass(K[n], K[m]) for m in mask)
        if outcome.startswith('raw'):
            fails.append({'signature': 'C08:mask:' + outcome, 'clause': 'mask',
                          'what': '%s of a %s lets %s escape (history %s)' % (how, n, outcome, ops)})
        elif (outcome == 'raised') == should_mask:
            fails.append({'signature': 'C08:mask:%s' % ('masked-but-raised' if outcome == 'raised' else 'unmasked-but-swallowed'),
                          'clause': 'mask',
                          'what': 'history %s, %s of a %s: %s' % (ops, how, n, 'raised although the class or a base class is in the mask'
                                                                   if outcome == 'raised' else
                                                                   'swallowed although no class of the current mask matches (a cleared mask must be strict again)')})
    for op in rest:
        if op[0] == 'clear':
            col.ignoreErrors(None)
            mask = []
            steps.append(['clear'])
        elif op[0] == 'add':
            col.ignoreErrors(*[K[n] for n in op[1]])
            mask = mask + list(op[1])
            steps.append(['add', op[1]])
        elif op[0] == 'probe':
            before = len(col.errors)
            err = K[op[1]]('probe')
            r = probe_handle(col, err)
            check(op[1], r, 'handleError')
            if not (len(col.errors) == before + 1 and col.errors[-1] is err):
                fails.append({'signature': 'C08:mask:not-recorded', 'clause': 'mask',
                              'what': 'handleError did not record the error (history %s)' % ops})
            steps.append(['probe', exc_code(err), r != 'swallowed'])
        elif op[0] == 'lazy':
            r = probe_lazy(col)
            if r is not None:
                check('DaeBrokenRefError', r, 'reading CImage.data of a missing file')
                steps.append(['probe', 2, r != 'swallowed'])
    # other documents of the process: one created before these calls, one after, one loaded with default arguments
    after = collada.Collada()
    loaded = collada.Collada(io.BytesIO(TINY.encode()))
    for name, other in (('created before', before_doc), ('created afterwards', after), ('loaded afterwards', loaded)):
        if list(other.maskedErrors):
            fails.append({'signature': 'C08:mask:leaks-to-other-document', 'clause': 'mask',
                          'what': 'ignoreErrors history %s on one document left %r in the mask of another document (%s, default '
                                  'arguments)' % (ops, other.maskedErrors, name)})
            break
        r = probe_handle(other, cc.DaeBrokenRefError('probe'))
        if r != 'raised':
            fails.append({'signature': 'C08:mask:leaks-to-other-document', 'clause': 'mask',
                          'what': 'after the ignoreErrors history %s on one document, a DaeBrokenRefError handed to ANOTHER document '
                                  '(%s, default arguments) is %s' % (ops, name, r)})
            break
    return {'steps': steps, 'mask_len': len(col.maskedErrors), 'fails': fails[:2]}


def run_site_case(case, cols):
    """call the loader of ONE object directly (the documented static load methods) on the faulted
    element, with a document loaded from the undamaged base for the look-ups"""
    import collada
    import xml.etree.ElementTree as ET
    base = case['base_xml']
    if base not in cols:
        cols[base] = collada.Collada(io.BytesIO(base.encode('utf-8')))
    col = cols[base]
    el = ET.fromstring(case['item'])
    k = case['kind']
    try:
        if k == 'KTransform':
            collada.scene.loadNode(col, el, {})
        elif k == 'KMaterial':
            collada.material.Material.load(col, {}, el)
        elif k == 'KLight':
            collada.light.Light.load(col, {}, el)
        elif k == 'KCamera':
            collada.camera.Camera.load(col, {}, el)
        else:
            collada.source.Source.load(col, {}, el)
        direct = 0
        name = None
    except Exception as e:  # noqa
        direct = exc_code(e)
        name = type(e).__name__
    return {'direct': direct, 'direct_name': name, 'doc': case['doc_esc'], 'fails': []}


def main():
    payload = json.load(sys.stdin)
    out = []
    if payload.get('kind') == 'site':
        cols = {}
        for c in payload['cases']:
            try:
                out.append(run_site_case(c, cols))
            except Exception as e:  # noqa
                out.append({'direct': 99, 'doc': 99, 'fails': [{'signature': 'C08:site:worker-exception:' + type(e).__name__,
                                                                 'clause': 'worker', 'what': 'calling the loader raised %r in the harness' % (e,)}]})
        json.dump(out, sys.stdout)
        return
    if payload.get('kind') == 'mask':
        for c in payload['cases']:
            try:
                out.append(run_mask_case(c))
            except Exception as e:  # noqa
                out.append({'steps': [], 'mask_len': 0,
                            'fails': [{'signature': 'C08:mask:worker-exception:' + type(e).__name__, 'clause': 'mask',
                                       'what': 'driving ignoreErrors/handleError raised %r' % (e,)}]})
    else:
        bases = payload['bases']
        cache = {}
        used = {c['base'] for c in payload['cases']}
        for name, text in bases.items():
            if name not in used:
                continue
            r = load(text.encode('utf-8'), None)
            cache[name] = {'snapshot': r['snapshot'] or [], 'esc': r['esc_name'], 'errs': r['err_names']}
        for c in payload['cases']:
            try:
                r = run_doc_case(c, bases, cache)
            except Exception as e:  # noqa
                import traceback
                r = {'runs': [], 'events': [], 'well_formed': False, 'label': 'worker-exception', 'crashed': True,
                     'fails': [{'signature': 'C08:worker-exception:' + type(e).__name__, 'clause': 'worker',
                                'what': 'observing this load raised %r' % (e,), 'detail': traceback.format_exc()[-1500:]}]}
            b = cache[c['base']]
            r['base_info'] = {c['base']: {'esc': b['esc'], 'errs': b['errs'], 'n': len(b['snapshot'])}}
            out.append(r)
    json.dump(out, sys.stdout)


if __name__ == '__main__':
    main()
