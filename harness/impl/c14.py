"""Implementation worker for C14: drives collada.util.IndexedList through the public
library attribute of a Collada document and records what it does after every step."""
import json
import sys


def exc_code(e):
    import collada.common as cc
    table = [(cc.DaeIncompleteError, 1), (cc.DaeBrokenRefError, 2), (cc.DaeMalformedError, 3),
             (cc.DaeUnsupportedError, 4), (cc.DaeSaveValidationError, 5), (cc.DaeError, 6),
             (IndexError, 7), (KeyError, 8), (TypeError, 9), (ValueError, 10), (AttributeError, 11)]
    for cls, code in table:
        if isinstance(e, cls):
            return code
    return 12


class Obj(object):
    def __init__(self, uid, a):
        self.uid = uid
        self.id = 'id%d' % a

    def __repr__(self):
        return '<o%d %s>' % (self.uid, self.id)

    def __len__(self):
        # library objects may be falsy (a Morph without targets, a Skin without influences):
        # every third object is
        return 0 if self.uid % 3 == 0 else 2


ATTRS = ['geometries', 'controllers', 'animations', 'lights', 'cameras', 'images', 'effects',
         'materials', 'nodes', 'scenes']


class IterableFails(Exception):
    pass


def make_iterable(objs, form, attrs=('id',)):
    if form == 'tuple':
        return tuple(objs)
    if form == 'gen':
        return (o for o in objs)
    if form == 'iter':
        return iter(objs)
    if form == 'indexedlist':
        from collada.util import IndexedList
        return IndexedList(objs, attrs)
    return list(objs)


def failing_iterable(objs):
    for o in objs:
        yield o
    raise IterableFails()


def run_case(case, which):
    import collada
    pool = {}

    def O(p):
        u, a = p
        if u not in pool:
            pool[u] = Obj(u, a)
        assert pool[u].id == 'id%d' % a
        return pool[u]

    def K(k):
        if k is None:
            return None
        if k[0] == 'int':
            return k[1]
        if k[0] == 'id':
            return 'id%d' % k[1]
        return O(k[1])

    doc = collada.Collada()
    attr = ATTRS[which % len(ATTRS)]
    setattr(doc, attr, [O(p) for p in case['init']])
    alphabet = case['alphabet']
    obs = []
    fails = []

    def lookups(L):
        return [L.get('id%d' % a) for a in alphabet]

    def coherent(L, stepno, opname):
        """clause: lookup by id, membership by id and get() agree with the list contents"""
        items = list(L)
        for o in list(pool.values()):
            inlist = any(x is o for x in items)
            if (o in L) != inlist:
                return '%r in L is %r but the list %s it' % (o, o in L, 'holds' if inlist else 'does not hold')
        for a in alphabet:
            key = 'id%d' % a
            having = [o for o in items if o.id == key]
            g = L.get(key)
            try:
                gi = L[key]
                gi_err = None
            except Exception as e:  # noqa
                gi, gi_err = None, e
            mem = key in L
            if having:
                if g is None or not any(g is o for o in having):
                    return 'get(%s) -> %r but list holds %r' % (key, g, having)
                if gi_err is not None or not any(gi is o for o in having):
                    return 'L[%s] -> %r/%r but list holds %r' % (key, gi, gi_err, having)
                if not mem:
                    return '%s in L is False but list holds %r' % (key, having)
            else:
                if g is not None:
                    return 'get(%s) -> %r but no such object in list %r' % (key, g, items)
                if not isinstance(gi_err, KeyError):
                    return 'L[%s] -> %r/%r but no such object in list' % (key, gi, gi_err)
                if mem:
                    return '%s in L is True but no such object in the list' % key
        return same_contents_same_answers(L, items)

    doc3 = collada.Collada()

    def same_contents_same_answers(L, items):
        """clause: look-ups agree *exactly* with the list contents, i.e. they are determined by them: a
        library list holding the same objects in the same order (made through the attribute of another
        document) answers every key alike -- whichever carrier of a colliding id the library chooses."""
        setattr(doc3, attr, list(items))
        F = getattr(doc3, attr)
        if [id(o) for o in F] != [id(o) for o in items]:
            return None          # the replacement itself misbehaves: judged by the positional clauses
        for a in alphabet:
            key = 'id%d' % a
            g, f = L.get(key), F.get(key)
            if g is not f:
                return ('get(%s) -> %r, but a library list with the same contents %r answers %r: '
                        'the look-up depends on the history, not on the contents' % (key, g, items, f))
        return None

    held = {}        # every list object the attribute ever returned (old ones stay coherent on their own)
    doc2 = collada.Collada()

    for stepno, op in enumerate(case['ops']):
        L = getattr(doc, attr)
        held.setdefault(id(L), (L, None))
        before = list(L)
        before_lk = lookups(L)
        name = op[0]
        # reference: what a plain list does, with id keys resolved through the look-up as it was
        ref = list(before)
        ref_ok = True
        ref_pop = None

        def pos_of(k):
            """position for a positional argument; None if the key cannot be resolved"""
            if k[0] == 'int':
                return k[1]
            if k[0] == 'id':
                o = L.get('id%d' % k[1])
                if o is None:
                    return None
                for i, x in enumerate(before):
                    if x is o:
                        return i
                return None
            return None
        try:
            if name == 'append':
                ref.append(O(op[1]))
            elif name in ('extend', 'iadd'):
                ref.extend([O(p) for p in op[1]])
            elif name == 'insert':
                p = pos_of(op[1])
                if p is None:
                    ref_ok = False
                else:
                    ref.insert(p, O(op[2]))
            elif name == 'setitem':
                p = pos_of(op[1])
                if p is None:
                    ref_ok = False
                else:
                    ref[p] = O(op[2])
            elif name == 'delitem':
                p = pos_of(op[1])
                if p is None:
                    ref_ok = False
                else:
                    del ref[p]
            elif name == 'pop':
                p = pos_of(op[1] if op[1] is not None else ['int', -1])
                if p is None:
                    ref_ok = False
                else:
                    ref_pop = ref.pop(p)
            elif name == 'remove':
                k = op[1]
                if k[0] == 'obj':
                    ref.remove(O(k[1]))
                elif k[0] == 'id':
                    o = L.get('id%d' % k[1])
                    if o is None:
                        ref_ok = False
                    else:
                        ref.remove(o)
                else:
                    ref_ok = False
            elif name == 'clear':
                ref = []
            elif name == 'reassign':
                ref = [O(p) for p in op[1]]
            elif name == 'reverse':
                ref.reverse()
            elif name == 'bulk_fail':
                ref_ok = False
            elif name == 'extend_self':
                ref.extend(list(ref))
            elif name == 'reassign_rev':
                ref.reverse()
        except (IndexError, ValueError):
            ref_ok = False
        # implementation
        code, popped = 0, None
        try:
            if name == 'append':
                L.append(O(op[1]))
            elif name == 'extend':
                L.extend(make_iterable([O(p) for p in op[1]], op[2] if len(op) > 2 else 'list'))
            elif name == 'iadd':
                if stepno % 2:
                    L += make_iterable([O(p) for p in op[1]], op[2] if len(op) > 2 else 'list')
                else:
                    # through the attribute: doc.lib += x  (getattr, __iadd__, setattr)
                    exec('doc.%s += it' % attr, {'doc': doc, 'it': make_iterable([O(p) for p in op[1]], op[2] if len(op) > 2 else 'list')})
            elif name == 'bulk_fail':
                objs = [O(p) for p in op[2]]
                if op[1] == 'extend':
                    L.extend(failing_iterable(objs))
                elif op[1] == 'iadd':
                    L += failing_iterable(objs)
                elif op[1] == 'reassign':
                    setattr(doc, attr, failing_iterable(objs))
                else:
                    setattr(doc, attr, 5)
            elif name == 'extend_self':
                L.extend(L)        # (a plain list.extend(iter(self)) never terminates; the list itself is fine)
            elif name == 'reassign_rev':
                setattr(doc, attr, reversed(getattr(doc, attr)))
            elif name == 'insert':
                L.insert(K(op[1]), O(op[2]))
            elif name == 'setitem':
                L[K(op[1])] = O(op[2])
            elif name == 'delitem':
                del L[K(op[1])]
            elif name == 'pop':
                r = L.pop() if op[1] is None else L.pop(K(op[1]))
                popped = r.uid
            elif name == 'remove':
                L.remove(K(op[1]))
            elif name == 'clear':
                L.clear()
            elif name == 'reassign':
                if len(op) > 2 and op[2] == 'adopt':
                    # wholesale replacement by ANOTHER document's live library list
                    setattr(doc2, attr, [O(p) for p in op[1]])
                    other = getattr(doc2, attr)
                    held[id(other)] = (other, [O(p) for p in op[1]])
                    setattr(doc, attr, other)
                else:
                    setattr(doc, attr, make_iterable([O(p) for p in op[1]], op[2] if len(op) > 2 else 'list'))
            elif name == 'reverse':
                L.reverse()
        except Exception as e:  # noqa
            code = exc_code(e)
            if name == 'bulk_fail':
                code = 12      # which exception the failing argument raises is not the library's business
        L = getattr(doc, attr)
        now = list(L)
        obs.append([code, popped, [o.uid for o in now],
                    [(x.uid if x is not None else 0) for x in lookups(L)]])
        # ---- direct oracle on this step
        if len(fails) < 3:
            why = None
            if code != 0:
                if [id(o) for o in now] != [id(o) for o in before] or \
                        [id(x) for x in lookups(L)] != [id(x) for x in before_lk]:
                    why = ('failed-op-not-noop', 'failed %s changed the list or the look-ups' % name)
                elif ref_ok:
                    why = ('plain-list-succeeds', '%s raised (code %d) where a plain list succeeds' % (name, code))
            else:
                if not ref_ok:
                    why = ('plain-list-fails', '%s succeeded where a plain list raises' % name)
                elif [id(o) for o in now] != [id(o) for o in ref]:
                    why = ('positional', '%s: list is %r, a plain list gives %r' % (name, now, ref))
                elif name == 'pop' and (ref_pop is None or ref_pop.uid != popped):
                    why = ('positional', 'pop returned %r, a plain list gives %r' % (popped, ref_pop))
            if why is None:
                c = coherent(L, stepno, name)
                if c:
                    why = ('lookup-incoherent', c)
            if why is None:
                held.setdefault(id(L), (L, None))
                for Lh, frozen in list(held.values()):
                    if Lh is L:
                        continue
                    c = coherent(Lh, stepno, name)
                    if c is None and frozen is not None and [id(o) for o in Lh] != [id(o) for o in frozen]:
                        c = 'a list of another document changed: %r, was %r' % (list(Lh), frozen)
                    if c:
                        why = ('other-list-incoherent', 'a list that was not operated on: ' + c)
                        break
            if why is not None:
                fails.append({'step': stepno, 'op': op, 'kind': why[0], 'detail': why[1]})
    return {'obs': obs, 'fails': fails}


def run_case_sparse(case, which):
    """The same history with NO look-up between the operations (a look-up may repair a lazily
    maintained index): after each step only the list contents and the exception are taken; for an
    id key any object of the list carrying that id is an acceptable target.  Full coherence is
    evaluated once, after the last step."""
    import collada
    pool = {}

    def O(p):
        u, a = p
        if u not in pool:
            pool[u] = Obj(u, a)
        return pool[u]

    def K(k):
        if k is None:
            return None
        if k[0] == 'int':
            return k[1]
        if k[0] == 'id':
            return 'id%d' % k[1]
        return O(k[1])
    doc = collada.Collada()
    attr = ATTRS[which % len(ATTRS)]
    setattr(doc, attr, [O(p) for p in case['init']])
    fails = []
    for stepno, op in enumerate(case['ops']):
        L = getattr(doc, attr)
        before = list(L)
        name = op[0]

        def positions(k):
            if k[0] == 'int':
                return [k[1]]
            if k[0] == 'id':
                return [i for i, x in enumerate(before) if x.id == 'id%d' % k[1]]
            return []
        accept = None      # list of acceptable result lists; None = must fail
        try:
            if name == 'append':
                accept = [before + [O(op[1])]]
            elif name in ('extend', 'iadd'):
                accept = [before + [O(p) for p in op[1]]]
            elif name == 'insert':
                accept = []
                for p in positions(op[1]):
                    r = list(before)
                    r.insert(p, O(op[2]))
                    accept.append(r)
            elif name == 'setitem':
                accept = []
                for p in positions(op[1]):
                    r = list(before)
                    try:
                        r[p] = O(op[2])
                        accept.append(r)
                    except IndexError:
                        pass
            elif name in ('delitem', 'pop'):
                accept = []
                for p in positions(op[1] if op[1] is not None else ['int', -1]):
                    r = list(before)
                    try:
                        del r[p]
                        accept.append(r)
                    except IndexError:
                        pass
            elif name == 'remove':
                k = op[1]
                accept = []
                if k[0] == 'obj':
                    if any(x is O(k[1]) for x in before):
                        r = list(before)
                        r.remove(O(k[1]))
                        accept.append(r)
                elif k[0] == 'id':
                    for p in positions(k):
                        r = list(before)
                        del r[p]
                        accept.append(r)
            elif name == 'clear':
                accept = [[]]
            elif name == 'reassign':
                accept = [[O(p) for p in op[1]]]
            elif name in ('reverse', 'reassign_rev'):
                accept = [list(reversed(before))]
            elif name == 'extend_self':
                accept = [before + before]
            elif name == 'bulk_fail':
                accept = []
        except Exception:  # noqa
            accept = []
        code = 0
        try:
            if name == 'append':
                L.append(O(op[1]))
            elif name == 'extend':
                L.extend(make_iterable([O(p) for p in op[1]], op[2] if len(op) > 2 else 'list'))
            elif name == 'iadd':
                L += make_iterable([O(p) for p in op[1]], op[2] if len(op) > 2 else 'list')
            elif name == 'insert':
                L.insert(K(op[1]), O(op[2]))
            elif name == 'setitem':
                L[K(op[1])] = O(op[2])
            elif name == 'delitem':
                del L[K(op[1])]
            elif name == 'pop':
                L.pop() if op[1] is None else L.pop(K(op[1]))
            elif name == 'remove':
                L.remove(K(op[1]))
            elif name == 'clear':
                L.clear()
            elif name == 'reassign':
                setattr(doc, attr, make_iterable([O(p) for p in op[1]], 'list'))
            elif name == 'reverse':
                L.reverse()
            elif name == 'reassign_rev':
                setattr(doc, attr, reversed(getattr(doc, attr)))
            elif name == 'extend_self':
                L.extend(L)
            elif name == 'bulk_fail':
                L.extend(failing_iterable([O(p) for p in op[2]]))
        except Exception as e:  # noqa
            code = exc_code(e)
        now = list(getattr(doc, attr))
        ids = lambda l: [id(o) for o in l]  # noqa
        if code != 0:
            if ids(now) != ids(before):
                fails.append({'step': stepno, 'op': op, 'kind': 'failed-op-not-noop',
                              'detail': 'failed %s changed the list (no look-up between operations)' % name})
            elif accept:
                fails.append({'step': stepno, 'op': op, 'kind': 'plain-list-succeeds',
                              'detail': '%s raised (code %d) where a plain list succeeds (no look-up between operations)' % (name, code)})
        else:
            if not accept:
                fails.append({'step': stepno, 'op': op, 'kind': 'plain-list-fails',
                              'detail': '%s succeeded where a plain list raises (no look-up between operations)' % name})
            elif not any(ids(now) == ids(a) for a in accept):
                fails.append({'step': stepno, 'op': op, 'kind': 'positional',
                              'detail': '%s: list is %r, acceptable: %r (no look-up between operations)' % (name, now, accept[:3])})
        if fails:
            break
    if not fails:
        L = getattr(doc, attr)
        items = list(L)
        for a in case['alphabet']:
            key = 'id%d' % a
            having = [o for o in items if o.id == key]
            g = L.get(key)
            if having and (g is None or not any(g is o for o in having)):
                fails.append({'step': len(case['ops']) - 1, 'op': case['ops'][-1], 'kind': 'lookup-incoherent',
                              'detail': 'after the history (no look-up in between): get(%s) -> %r but list holds %r' % (key, g, having)})
                break
            if not having and g is not None:
                fails.append({'step': len(case['ops']) - 1, 'op': case['ops'][-1], 'kind': 'lookup-incoherent',
                              'detail': 'after the history (no look-up in between): get(%s) -> %r but no such object in list' % (key, g)})
                break
        if not fails:
            doc3 = collada.Collada()
            setattr(doc3, attr, list(items))
            F = getattr(doc3, attr)
            if [id(o) for o in F] == [id(o) for o in items]:
                for a in case['alphabet']:
                    key = 'id%d' % a
                    g, f = L.get(key), F.get(key)
                    if g is not f:
                        fails.append({'step': len(case['ops']) - 1, 'op': case['ops'][-1], 'kind': 'lookup-incoherent',
                                      'detail': 'after the history (no look-up in between): get(%s) -> %r, but a library list with the '
                                                'same contents %r answers %r' % (key, g, items, f)})
                        break
    return {'obs': [], 'fails': fails[:1], 'sparse': True}


def shrink(case, kind):
    """Delta-debug the history: drop operations (then initial objects) while the same clause fails."""
    ops = list(case['ops'])
    init = list(case['init'])

    def fails(i, o):
        try:
            r = (run_case_sparse if case.get('sparse') else run_case)(dict(case, init=i, ops=o), 0)
        except Exception:  # noqa
            return False
        return bool(r['fails']) and r['fails'][0]['kind'] == kind
    changed = True
    while changed:
        changed = False
        for i in range(len(ops)):
            cand = ops[:i] + ops[i + 1:]
            if cand and fails(init, cand):
                ops, changed = cand, True
                break
        if changed:
            continue
        for i in range(len(init)):
            cand = init[:i] + init[i + 1:]
            if fails(cand, ops):
                init, changed = cand, True
                break
    return dict(case, init=init, ops=ops)


def main():
    payload = json.load(sys.stdin)
    if 'shrink' in payload:
        json.dump(shrink(payload['shrink'], payload['kind']), sys.stdout)
        return
    out = []
    for i, case in enumerate(payload['cases']):
        out.append((run_case_sparse if case.get('sparse') else run_case)(case, payload.get('offset', 0) + i))
    json.dump(out, sys.stdout)


if __name__ == '__main__':
    main()
