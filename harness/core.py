"""Shared machinery of the /verif checks: Coq build, proof-obligation accounting,
in-Coq evaluation of correspondence cases, implementation workers, verdicts,
evidence, replays and known findings."""
import fcntl
import hashlib
import json
import os
import random
import re
import shutil
import subprocess
import sys
import tempfile
import time
from concurrent.futures import ThreadPoolExecutor

VERIF = os.path.dirname(os.path.dirname(os.path.abspath(__file__)))
COQ = os.path.join(VERIF, 'coq')
REPO = os.environ.get('VERIF_REPO', '/repo')
PY = '/venv/bin/python'
PYVT = shutil.which('python3-vt') or '/opt/veriftools/pyvenv/bin/python'
NCPU = int(os.environ.get('VERIF_JOBS', '16'))

FORBIDDEN = re.compile(
    r'\b(Admitted|admit|Axiom|Axioms|Parameter|Parameters|Conjecture|Conjectures|'
    r'Admit Obligations|Unset Guard Checking|Unset Positivity Checking|Unset Universe Checking|'
    r'bypass_check|Guard Checking|type-in-type|impredicative-set|native_compute)\b')
# axioms of the standard library that a theorem may depend on (each is named in DESIGN.md section 6)
AXIOM_WHITELIST = {
    'ClassicalDedekindReals.sig_forall_dec', 'ClassicalDedekindReals.sig_not_dec',
    'FunctionalExtensionality.functional_extensionality_dep',
}


def impl_env():
    env = dict(os.environ)
    env['PYTHONPATH'] = REPO + os.pathsep + VERIF
    env['PYTHONHASHSEED'] = '0'
    env['PYTHONWARNINGS'] = 'ignore'
    env['PYCOLLADA_VERIF'] = '1'
    for v in ('OMP_NUM_THREADS', 'OPENBLAS_NUM_THREADS', 'MKL_NUM_THREADS'):
        env[v] = '1'
    env.pop('PYTHONSTARTUP', None)
    return env


class Ctx:
    def __init__(self, pid, tier, seed):
        self.pid = pid
        self.tier = tier
        self.seed = seed
        self.rng = random.Random(seed)
        self.t0 = time.time()
        self.scratch = tempfile.mkdtemp(prefix='verif-%s-' % pid)
        self.notes = []

    def quick(self):
        return self.tier != 'thorough'

    def close(self):
        shutil.rmtree(self.scratch, ignore_errors=True)

    def log(self, *a):
        print('[%s %6.1fs]' % (self.pid, time.time() - self.t0), *a, flush=True)


# --------------------------------------------------------------------------- Coq build

def _lock():
    f = open(os.path.join(COQ, '.build.lock'), 'w')
    fcntl.flock(f, fcntl.LOCK_EX)
    return f


def forbidden_scan():
    """Forbidden vernacular anywhere in the development (comments are stripped first)."""
    hits = []
    for root, _, files in os.walk(COQ):
        for fn in files:
            if not fn.endswith('.v'):
                continue
            p = os.path.join(root, fn)
            src = open(p, encoding='utf-8').read()
            src = strip_comments(src)
            for m in FORBIDDEN.finditer(src):
                line = src.count('\n', 0, m.start()) + 1
                hits.append('%s:%d: %s' % (os.path.relpath(p, COQ), line, m.group(0)))
            # Variable / Hypothesis outside a Section
            depth = 0
            for ln, text in enumerate(src.split('\n'), 1):
                t = text.strip()
                if re.match(r'Section\b', t):
                    depth += 1
                elif re.match(r'End\b', t) and depth > 0:
                    depth -= 1
                elif depth == 0 and re.match(r'(Variable|Variables|Hypothesis|Hypotheses|Context)\b', t):
                    hits.append('%s:%d: %s outside a Section' % (os.path.relpath(p, COQ), ln, t.split()[0]))
    return hits


def strip_comments(src):
    out = []
    depth = 0
    i = 0
    n = len(src)
    while i < n:
        if src.startswith('(*', i):
            depth += 1
            i += 2
        elif src.startswith('*)', i) and depth > 0:
            depth -= 1
            i += 2
        else:
            if depth == 0:
                out.append(src[i])
            elif src[i] == '\n':
                out.append('\n')
            i += 1
    return ''.join(out)


def regenerate(ctx=None):
    """Run every translator (harness/translate/*.py): Gen/*.v is rewritten from REPO's
    current source.  Returns {fragment: status}."""
    status = {}
    tdir = os.path.join(VERIF, 'harness', 'translate')
    if not os.path.isdir(tdir):
        return status
    for fn in sorted(os.listdir(tdir)):
        if not fn.endswith('.py') or fn.startswith('_'):
            continue
        name = fn[:-3]
        try:
            r = subprocess.run([PY, os.path.join(tdir, fn), REPO, os.path.join(COQ, 'Gen')],
                               capture_output=True, text=True, timeout=120, env=impl_env())
            if r.returncode == 0:
                status[name] = 'regenerated: ' + (r.stdout.strip().split('\n')[-1] if r.stdout.strip() else 'ok')
            else:
                status[name] = 'UNAVAILABLE (fail-closed, golden copy used): ' + (r.stderr.strip().split('\n')[-1] if r.stderr.strip() else 'rc=%d' % r.returncode)
        except Exception as e:  # noqa
            status[name] = 'UNAVAILABLE (fail-closed, golden copy used): %r' % (e,)
    return status


def write_coqproject():
    """_CoqProject lists every .v file under the development's directories (rewritten only
    when the set of files changed, so the Makefile is regenerated exactly then)."""
    files = []
    for d in ('Base', 'Gen', 'Model', 'Proofs', 'Properties', 'Check'):
        dd = os.path.join(COQ, d)
        if os.path.isdir(dd):
            for fn in sorted(os.listdir(dd)):
                if fn.endswith('.v') and not fn.startswith('.'):
                    files.append('%s/%s' % (d, fn))
    text = '-Q . PC\n' + '\n'.join(files) + '\n'
    cp = os.path.join(COQ, '_CoqProject')
    if not os.path.exists(cp) or open(cp).read() != text:
        with open(cp, 'w') as f:
            f.write(text)


def build(ctx=None, clean=False, target=None):
    """Regenerate fragments and (incrementally) build the whole development.
    Returns (ok, log, regen_status)."""
    lock = _lock()
    try:
        regen = regenerate(ctx)
        mk = os.path.join(COQ, 'Makefile')
        cp = os.path.join(COQ, '_CoqProject')
        write_coqproject()
        if clean and os.path.exists(mk):
            subprocess.run(['make', 'clean'], cwd=COQ, capture_output=True, timeout=300)
        if (not os.path.exists(mk)) or os.path.getmtime(mk) < os.path.getmtime(cp):
            subprocess.run(['coq_makefile', '-f', '_CoqProject', '-o', 'Makefile'], cwd=COQ,
                           capture_output=True, timeout=120, check=True)
        cmd = ['timeout', '2400', 'make', '-k', '-j%d' % NCPU]
        if target:
            cmd.extend(target)
        r = subprocess.run(cmd, cwd=COQ, capture_output=True, text=True)
        log = r.stdout + r.stderr
        return r.returncode == 0, log, regen
    finally:
        lock.close()


def theorems_of(pid):
    """Names of the theorems stated in Properties/<pid>.v, in order."""
    p = os.path.join(COQ, 'Properties', pid + '.v')
    if not os.path.exists(p):
        return []
    src = strip_comments(open(p).read())
    return re.findall(r'^\s*(?:Theorem|Example)\s+([A-Za-z0-9_\']+)', src, flags=re.M)


def check_obligations(ctx, pid, build_ok, build_log):
    """Proof obligations of a property = the theorems and examples of Properties/<pid>.v
    (all re-checked by coqc in this run) and their Print Assumptions reports."""
    res = {'obligations': 0, 'discharged': 0, 'theorems': [], 'axioms': {}, 'problems': []}
    names = theorems_of(pid)
    res['obligations'] = len(names)
    res['theorems'] = names
    src = os.path.join(COQ, 'Properties', pid + '.v')
    vo = os.path.join(COQ, 'Properties', pid + '.vo')
    if not os.path.exists(src):
        res['problems'].append('Properties/%s.v missing' % pid)
        return res
    # which theorems have a Print Assumptions under them
    text = strip_comments(open(src).read())
    printed = re.findall(r'Print Assumptions\s+([A-Za-z0-9_\']+)', text)
    for n in names:
        if n.startswith(pid + '_') and re.search(r'^\s*Theorem\s+%s\b' % re.escape(n), text, flags=re.M) and n not in printed:
            res['problems'].append('no Print Assumptions under %s' % n)
    if not (os.path.exists(vo) and os.path.getmtime(vo) >= os.path.getmtime(src)):
        # find the first error that concerns this property
        res['problems'].append('Properties/%s.vo was not produced by this build' % pid)
        m = re.search(r'File "\./([^"]+)", line (\d+)[^\n]*\n((?:.*\n){0,6})', build_log)
        if m:
            res['problems'].append('first build error: %s line %s: %s' % (m.group(1), m.group(2), ' '.join(m.group(3).split())[:300]))
        return res
    # re-run coqc on the statements file alone to capture its Print Assumptions output
    os.makedirs(os.path.join(ctx.scratch, 'props'), exist_ok=True)
    out = os.path.join(ctx.scratch, 'props', pid + '.vo')
    r = subprocess.run(['timeout', '600', 'coqc', '-Q', COQ, 'PC', '-o', out, src],
                       capture_output=True, text=True, cwd=COQ)
    if r.returncode != 0:
        res['problems'].append('coqc Properties/%s.v failed: %s' % (pid, (r.stdout + r.stderr)[-400:]))
        return res
    blocks = re.split(r'(?=^Closed under the global context|^Axioms:)', r.stdout, flags=re.M)
    blocks = [b for b in blocks if b.startswith('Closed under') or b.startswith('Axioms:')]
    if len(blocks) != len(printed):
        res['problems'].append('Print Assumptions output could not be matched to theorems (%d blocks, %d commands)' % (len(blocks), len(printed)))
    for n, b in zip(printed, blocks):
        if b.startswith('Closed under'):
            res['axioms'][n] = []
        else:
            axs = [a for a in re.findall(r'^([A-Za-z_][A-Za-z0-9_\.\']*)\s*:', b, flags=re.M) if a != 'Axioms']
            res['axioms'][n] = axs
            for a in axs:
                if a not in AXIOM_WHITELIST and not a.startswith(('PrimFloat.', 'Uint63.', 'Int63.', 'PrimInt63.', 'FloatOps.', 'PArray.')):
                    res['problems'].append('theorem %s depends on non-whitelisted axiom %s' % (n, a))
    if not res['problems']:
        res['discharged'] = res['obligations']
    return res


# --------------------------------------------------------------------------- Coq literals

def cN(n):
    return '%d%%N' % n


def cZ(z):
    return '(%d)%%Z' % z


def cnat(n):
    return '%d%%nat' % n


def cbool(b):
    return 'true' if b else 'false'


def clist(xs):
    return '[' + '; '.join(xs) + ']'


def copt(x):
    return 'None' if x is None else '(Some %s)' % x


def ctuple(*xs):
    return '(' + ', '.join(xs) + ')'


def coq_eval_cases(ctx, header, case_type, cases, mismatch_fn, chunk=250, timeout=900, label='cases'):
    """cases: list of Coq terms (strings) of type case_type.  Writes chunked files
        <header> Definition cases : list <case_type> := [...]. Eval vm_compute in (<mismatch_fn> cases).
    and returns (bad_indices, errors).  The comparison itself happens inside Coq."""
    d = os.path.join(ctx.scratch, label)
    os.makedirs(d, exist_ok=True)
    jobs = []
    for ci, start in enumerate(range(0, len(cases), chunk)):
        part = cases[start:start + chunk]
        fn = os.path.join(d, '%s_%04d.v' % (label, ci))
        with open(fn, 'w') as f:
            f.write(header + '\n')
            f.write('Definition cases : list (%s) := [\n' % case_type)
            f.write(';\n'.join(part))
            f.write('\n].\n')
            f.write('Eval vm_compute in (%s cases).\n' % mismatch_fn)
        jobs.append((start, len(part), fn))

    def run(job):
        start, n, fn = job
        try:
            r = subprocess.run(['timeout', str(timeout), 'coqc', '-Q', COQ, 'PC', fn],
                               capture_output=True, text=True, cwd=d)
        except Exception as e:  # noqa
            return start, n, None, repr(e)
        if r.returncode != 0:
            return start, n, None, (r.stdout + r.stderr)[-600:]
        out = ' '.join(r.stdout.split())
        m = re.search(r'=\s*\[(.*?)\]\s*:\s*list nat', out)
        if not m:
            return start, n, None, 'unparsable coqc output: ' + out[-300:]
        body = m.group(1).strip()
        idx = [int(x) for x in re.findall(r'\d+', body)] if body else []
        return start, n, idx, None

    bad, errors, retry = [], [], []
    with ThreadPoolExecutor(max_workers=NCPU) as ex:
        for job, (start, n, idx, err) in zip(jobs, ex.map(run, jobs)):
            if err is not None:
                # compiled libraries that changed under us (another check rebuilding shared .vo
                # files, e.g. with another VERIF_REPO): rebuild under the lock and evaluate once more
                if any(k in err for k in ('inconsistent assumptions', 'bad version number', 'is corrupted',
                                          'Cannot find a physical path', 'Unable to locate library')):
                    retry.append(job)
                else:
                    errors.append({'chunk_start': start, 'chunk_len': n, 'error': err})
            else:
                bad.extend(start + i for i in idx)
    if retry:
        targets = [t for t in ('Properties/%s.vo' % ctx.pid, 'Check/%s.vo' % ctx.pid)
                   if os.path.exists(os.path.join(COQ, t[:-1]))]
        build(ctx, target=targets or None)
        with ThreadPoolExecutor(max_workers=NCPU) as ex:
            for start, n, idx, err in ex.map(run, retry):
                if err is not None:
                    errors.append({'chunk_start': start, 'chunk_len': n, 'error': err})
                else:
                    bad.extend(start + i for i in idx)
    return sorted(bad), errors


def coq_eval_term(ctx, header, term, timeout=300):
    """Evaluate one closed term inside Coq and return coqc's printed output (for replays)."""
    fn = os.path.join(ctx.scratch, 'eval_%d.v' % random.randrange(10**9))
    with open(fn, 'w') as f:
        f.write(header + '\nEval vm_compute in (%s).\n' % term)
    r = subprocess.run(['timeout', str(timeout), 'coqc', '-Q', COQ, 'PC', fn], capture_output=True, text=True,
                       cwd=ctx.scratch)
    return ' '.join((r.stdout + r.stderr).split())[:4000]


# --------------------------------------------------------------------------- implementation workers

def _limit_worker():
    # a runaway implementation (e.g. a seeded change that loops while allocating) must die
    # quickly instead of taking the machine down
    import resource
    lim = int(os.environ.get('VERIF_WORKER_MEM', str(6 * 1024 ** 3)))
    resource.setrlimit(resource.RLIMIT_AS, (lim, lim))


def run_impl(module, payload, timeout=600, repo=None):
    """Run harness/impl/<module>.py in a fresh interpreter against REPO; JSON in, JSON out."""
    env = impl_env()
    if repo:
        env['PYTHONPATH'] = repo + os.pathsep + VERIF
    r = subprocess.run([PY, '-m', 'harness.impl.' + module], input=json.dumps(payload),
                       capture_output=True, text=True, env=env, cwd=VERIF, timeout=timeout,
                       preexec_fn=_limit_worker)
    if r.returncode != 0:
        raise RuntimeError('implementation worker %s failed (rc=%d): %s' % (module, r.returncode, r.stderr[-2000:]))
    return json.loads(r.stdout)


def run_cases_bisect(module, cases, make_payload, crashed, timeout=120):
    """Run a list of cases through a worker that returns one result per case.  If the worker
    crashes, hangs or runs out of memory the batch is bisected down to the single case that
    does it, whose result is `crashed(case, reason)`."""
    if not cases:
        return []
    try:
        out = run_impl(module, make_payload(cases), timeout=timeout)
        if isinstance(out, list) and len(out) == len(cases):
            return out
        reason = 'worker returned %r results for %d cases' % (len(out) if isinstance(out, list) else out, len(cases))
    except subprocess.TimeoutExpired:
        reason = 'timeout after %ds' % timeout
    except RuntimeError as e:
        reason = str(e)[-400:]
    if len(cases) == 1:
        return [crashed(cases[0], reason)]
    mid = len(cases) // 2
    t2 = max(20, timeout // 2)
    return (run_cases_bisect(module, cases[:mid], make_payload, crashed, t2) +
            run_cases_bisect(module, cases[mid:], make_payload, crashed, t2))


def run_impl_parallel(module, payloads, timeout=600):
    with ThreadPoolExecutor(max_workers=NCPU) as ex:
        return list(ex.map(lambda p: run_impl(module, p, timeout), payloads))


# --------------------------------------------------------------------------- findings, replays, evidence

def load_known():
    p = os.path.join(VERIF, 'known_findings.json')
    if not os.path.exists(p):
        return []
    return json.load(open(p)).get('findings', [])


def add_known_entry(kind, entry):
    """Development-time helper (never called by a check): atomically add a finding
    ({'property','signature','what','witness'}) or a 'fixed: ...' string to known_findings.json."""
    p = os.path.join(VERIF, 'known_findings.json')
    with open(p + '.lock', 'w') as lk:
        fcntl.flock(lk, fcntl.LOCK_EX)
        d = json.load(open(p))
        d.setdefault(kind, []).append(entry)
        with open(p, 'w') as f:
            json.dump(d, f, indent=1)


def write_replay(ctx, n, body):
    d = os.path.join(VERIF, 'replays')
    os.makedirs(d, exist_ok=True)
    p = os.path.join(d, '%s-%s-%d-%d.json' % (ctx.pid, ctx.tier, ctx.seed, n))
    body = dict(body)
    body.setdefault('property', ctx.pid)
    body.setdefault('seed', ctx.seed)
    body.setdefault('tier', ctx.tier)
    body['replay_cmd'] = './check %s --replay %s' % (ctx.pid, p)
    with open(p, 'w') as f:
        json.dump(body, f, indent=1, default=str)
    return p


def canon_hash(x):
    return hashlib.sha1(json.dumps(x, sort_keys=True, default=str).encode()).hexdigest()


def finish(ctx, *, obligations, regen, build_ok, corr, failures, search=None, trusted_base=(),
           assumptions=(), extra=None):
    """Common verdict logic (DESIGN.md section 5).

    corr: {'evaluations', 'distinct_nontrivial', 'rule', 'samples', 'mismatches': [case dicts],
           'errors': [...], 'distribution': {...}}
    failures: direct-oracle failures on the implementation, each
           {'signature': str, 'what': str, 'input': ..., 'clause': str}
    search: callable(mismatches) -> more failures; only called when a tie or proof broke.
    """
    known = [k for k in load_known() if k.get('property') == ctx.pid]
    proof_broken = (not build_ok) or obligations['problems'] or obligations['discharged'] != obligations['obligations'] or obligations['obligations'] == 0
    corr_broken = bool(corr.get('mismatches')) or bool(corr.get('errors'))
    failures = list(failures)
    if (proof_broken or corr_broken) and search is not None:
        ctx.log('tie or proof broken (proof=%s corr=%s): searching the implementation for a failing input'
                % (bool(proof_broken), corr_broken))
        try:
            failures.extend(search(corr.get('mismatches', [])))
        except Exception as e:  # noqa
            ctx.log('search raised %r' % (e,))
    # classify failures
    hit, fresh = {}, []
    seen_sig = set()
    for f in failures:
        k = next((k for k in known if k['signature'] == f['signature']), None)
        if k is not None:
            hit.setdefault(k['signature'], k)
        else:
            if f['signature'] not in seen_sig:
                seen_sig.add(f['signature'])
                fresh.append(f)
    for sig, k in hit.items():
        print('KNOWN-FINDING: property=%s %s' % (ctx.pid, k['what']), flush=True)
    violations = 0
    lines = []
    n = 0
    for f in fresh[:5]:
        p = write_replay(ctx, n, {'kind': 'failing-input', 'clause': f.get('clause'), 'signature': f['signature'],
                                  'what': f['what'], 'input': f.get('input'), 'detail': f.get('detail')})
        lines.append('VIOLATION property=%s replay=%s' % (ctx.pid, p))
        n += 1
        violations += 1
    if not fresh and (proof_broken or corr_broken):
        # are all the broken things explained by known findings?  A mismatch whose own oracle
        # verdict is a known finding is explained; anything else is not shown to hold any more.
        unexplained = [m for m in corr.get('mismatches', []) if not m.get('explained_by_known')]
        if proof_broken or unexplained or corr.get('errors'):
            what = []
            if not build_ok:
                what.append('coq build failed')
            what += obligations['problems']
            if unexplained:
                what.append('correspondence %s: %d case(s) where model and implementation differ' % (ctx.pid, len(unexplained)))
            if corr.get('errors'):
                what.append('correspondence evaluation errors: %s' % json.dumps(corr['errors'])[:600])
            p = write_replay(ctx, n, {'kind': 'no-failing-input-found',
                                      'no_longer_checks': what,
                                      'theorems': obligations['theorems'],
                                      'mismatching_cases': unexplained[:5]})
            lines.append('VIOLATION property=%s replay=%s no-failing-input-found' % (ctx.pid, p))
            violations += 1
    wall = time.time() - ctx.t0
    cov = {
        'obligations': max(obligations['obligations'], 0),
        'discharged': obligations['discharged'],
        'checker_cmd': 'cd /verif/coq && make (coqc 8.16.1, full .vo build) ; coqc Properties/%s.v (Print Assumptions) ; coqc cases_*.v (Eval vm_compute in mismatches)' % ctx.pid,
        'trusted_base': list(trusted_base),
        'theorems': obligations['theorems'],
        'axioms_per_theorem': obligations['axioms'],
        'proof_problems': obligations['problems'],
        'regeneration': regen,
        'evaluations': int(corr.get('evaluations', 0)),
        'distinct_nontrivial': int(corr.get('distinct_nontrivial', 0)),
        'rule': corr.get('rule', ''),
        'samples': corr.get('samples', [])[:5],
        'distribution': corr.get('distribution', {}),
        'correspondence_mismatches': len(corr.get('mismatches', [])),
        'correspondence_errors': corr.get('errors', []),
        'oracle_failures': len(failures),
        'known_findings_hit': sorted(hit),
        'exhaustive': bool(corr.get('exhaustive', False)),
    }
    if extra:
        cov.update(extra)
    ev = {'property_id': ctx.pid, 'tier': 'thorough' if ctx.tier == 'thorough' else 'quick', 'seed': ctx.seed,
          'level': 'proof', 'coverage': cov, 'assumptions': list(assumptions), 'wall_s': round(wall, 2),
          'violations': violations}
    os.makedirs(os.path.join(VERIF, 'evidence'), exist_ok=True)
    evp = os.path.join(VERIF, 'evidence', ctx.pid + '.json')
    with open(evp, 'w') as f:
        json.dump(ev, f, indent=1, default=str)
    validate_evidence(ctx, evp)
    for ln in lines:
        print(ln, flush=True)
    ctx.log('obligations %d/%d, correspondence %d cases (%d distinct non-trivial, %d mismatches), oracle failures %d (known %d), violations %d, %.1fs'
            % (obligations['discharged'], obligations['obligations'], cov['evaluations'], cov['distinct_nontrivial'],
               cov['correspondence_mismatches'], len(failures), len(hit), violations, wall))
    ctx.close()
    return 1 if violations else 0


def validate_evidence(ctx, path):
    schema = '/root/.vp/EVIDENCE.schema.json'
    if not os.path.exists(schema) or not os.path.exists(PYVT):
        return
    code = ("import json,sys,jsonschema; jsonschema.validate(json.load(open(sys.argv[1])), json.load(open(sys.argv[2])))")
    r = subprocess.run([PYVT, '-c', code, path, schema], capture_output=True, text=True)
    if r.returncode != 0:
        ctx.log('WARNING: evidence does not validate: ' + r.stderr[-300:])


def std_setup(ctx):
    """build + obligations; returns (build_ok, obligations, regen)."""
    targets = [t for t in ('Properties/%s.vo' % ctx.pid, 'Check/%s.vo' % ctx.pid)
               if os.path.exists(os.path.join(COQ, t[:-1]))]
    ok, log, regen = build(ctx, target=targets or None)
    hits = forbidden_scan()
    obl = check_obligations(ctx, ctx.pid, ok, log)
    if hits:
        obl['problems'].append('forbidden vernacular: ' + '; '.join(hits[:5]))
        obl['discharged'] = 0
    if not ok:
        ctx.log('coq build reported errors')
    return ok, obl, regen


BASE_TRUST = [
    'Coq 8.16.1 kernel and its vm_compute machine (no native_compute); coqchk run in setup.sh',
    'no axioms declared by this development (forbidden-vernacular scan on every run)',
    'correspondence harness: generators, encoders, case-file printer, parsing of coqc output',
]
