"""C03 - saving is idempotent, non-destructive and failure-safe (fault enumeration)."""
import json
from concurrent.futures import ThreadPoolExecutor

from harness import core
from harness.core import cN, clist, copt, ctuple, cnat, cbool

HEADER = ('From Coq Require Import List ZArith NArith.\n'
          'From PC Require Import Base.Atoms Base.Outcome Base.Xml Model.Indent Model.SaveState Check.C03.\n'
          'Import ListNotations.\n')

FILES_SMALL = ['empty_triangles.dae', 'empty_triangles_with_multiple_ns.dae', 'trifans.dae', 'tristrips.dae']
FILES_BIG = ['duck_triangles.dae', 'duck_polylist.dae']
EXT_KINDS = ['anim', 'clips', 'physmat', 'physmodel', 'physscene', 'force', 'extra', 'extrafx', 'dupcams', 'duplights']
EDITS = ['add_camera', 'add_camera_ortho', 'add_light', 'add_libnode', 'add_material', 'clear_lights',
         'clear_cameras', 'no_default_scene', 'drop_scene_element', 'drop_scene_element']
EXN_NAME = {1: 'DaeIncomplete', 2: 'DaeBrokenRef', 3: 'DaeMalformed', 4: 'DaeUnsupported', 5: 'DaeSaveValidation',
            6: 'DaeOther', 7: 'PyIndexError', 8: 'PyKeyError', 9: 'PyTypeError', 10: 'PyValueError',
            11: 'PyAttributeError', 12: 'PyOther'}


# ----------------------------------------------------------------------------- generators

def gen_ext(rng, always=False):
    n = rng.choice([1, 2, 3, 4]) if always or rng.random() < 0.85 else 0
    return [[rng.choice(EXT_KINDS), rng.choice([0, 1, 2, 3, 5, -1, -1, -2, -3])] for _ in range(n)]


def count_cameras(spec):
    n = 0
    if spec['kind'] in ('prog', 'pathdoc'):
        n = spec['params'].get('cameras', 0)
    elif spec.get('name', '').startswith('duck'):
        n = 1
    for e in spec.get('edits', []):
        if e in ('add_camera', 'add_camera_ortho'):
            n += 1
        elif e == 'clear_cameras':
            n = 0
    return n


def gen_history(rng, spec, length):
    ncam = count_cameras(spec)
    hist = []
    # systematic part: every invalid combination on one camera, the default-scene fault, each kind of destination
    must = []
    if ncam:
        k = rng.randrange(ncam)
        for combo in range(3):
            must.append({'fault': [['camera', k, combo]]})
        if ncam > 1:
            must.append({'fault': [['camera', (k + 1) % ncam, rng.randrange(3)], ['camera', k, rng.randrange(3)]]})
    must.append({'fault': [['scene', 'no-such-scene']]})
    must.append({'fault': [['scene', ['same', rng.randrange(3)]]]})   # another object with the id of one of the scenes
    must.append({'sink': rng.choice([0, 1, 7, 100, 1000])})
    rng.shuffle(must)
    for m in must + [None] * max(0, length - len(must)):
        att = {}
        r = rng.random()
        if m is None:
            if r < 0.25:
                m = {'sink': rng.choice([0, 1, 2, 63, 64, 65, 500, 2000, 8191, 8192, 8193, 20000, 10 ** 7])}
            elif r < 0.4:
                m = {}
            elif r < 0.55 and ncam:
                m = {'fault': [['camera', rng.randrange(ncam), rng.randrange(3)]]}
            elif r < 0.7:
                m = {'fault': [['scene', rng.choice(['no-such-scene', 'scene9', '', ['same', 0], ['same', 1]])]]}
            else:
                m = {'healthy': True}
        if 'fault' in m:
            att['fault'] = m['fault']
            if ncam and rng.random() < 0.2 and m['fault'][0][0] == 'scene':
                att['fault'] = m['fault'] + [['camera', rng.randrange(ncam), rng.randrange(3)]]
        if 'sink' in m:
            att['op'] = 'write'
            att['dest'] = ['sink', m['sink'], rng.random() < 0.4]
        elif m.get('healthy'):
            att['op'] = 'write'
            att['dest'] = ['sink', None]
        else:
            q = rng.random()
            if q < 0.3:
                att['op'] = 'save'
            elif q < 0.65:
                att['op'] = 'write'
                att['dest'] = ['path', 'absent']
            elif q < 0.9:
                att['op'] = 'write'
                att['dest'] = ['path', 'existing']
            else:
                att['op'] = 'write'
                att['dest'] = ['sink', rng.choice([None, 0, 5, 300])]
        att['query'] = rng.random() < 0.3
        hist.append(att)
    return hist


def gen_prog(rng):
    p = {'geometries': rng.choice([0, 0, 1, 1, 2, 3]), 'materials': rng.choice([0, 1, 2]),
         'cameras': rng.choice([0, 1, 2, 2, 3]), 'lights': rng.choice([0, 0, 1, 4]),
         'scenes': rng.choice([0, 1, 1, 2]), 'default_scene': rng.choice([0, 1, 1, 1]),
         'which_scene': rng.randrange(2), 'contributors': rng.choice([0, 1, 2]),
         'title': rng.choice([None, 'a title']), 'yup': rng.randrange(2), 'primkind': rng.randrange(3),
         'camkind': rng.randrange(2), 'combo': rng.randrange(5), 'library_node': rng.choice([0, 0, 1]),
         'extreme': rng.choice([0, 0, 1, 2, 3, 5, 7])}
    if p['geometries'] == 0 and p['cameras'] == 0 and p['lights'] == 0 and rng.random() < 0.7:
        p['cameras'] = 1
    spec = {'kind': 'prog', 'params': p, 'ext': gen_ext(rng), 'via_load': rng.random() < 0.4,
            'edits': [rng.choice(EDITS) for _ in range(rng.choice([0, 0, 1, 2]))]}
    return spec


def gen_pathdoc(rng, how):
    """a document that lives on disk (directory or zip archive) next to the auxiliary files its images name,
    loaded from there; every history holds a successful write to a path in ANOTHER directory and to a stream"""
    spec = gen_prog(rng)
    spec['kind'] = 'pathdoc'
    spec['how'] = how
    spec['params']['images'] = rng.choice([1, 2, 3])
    spec.pop('via_load', None)
    return spec


PREFIXES = ['exp', 'xp', 'e', 'ns0', 'ns1', 'x', None]
URIS = ['urn:example:exporter', 'urn:other', 'http://example.org/ext/1.0']


def gen_xml(rng):
    """raw document with foreign-namespace content under chosen prefixes; default-namespace or prefixed root"""
    foreign = []
    for u in rng.sample(URIS, rng.choice([1, 1, 2])):
        foreign.append([rng.choice(PREFIXES), u])
    pf = [f[0] for f in foreign if f[0]]
    if len(pf) != len(set(pf)):
        foreign = foreign[:1]
    return {'kind': 'xml', 'rootprefix': rng.choice([None, None, 'c', 'dae']), 'foreign': foreign,
            'value': rng.choice(['1', '2', 'v']), 'edits': [rng.choice(['add_camera', 'add_light', 'add_material'])] if rng.random() < 0.5 else []}


OTHER_NS = ['http://www.collada.org/2008/03/COLLADASchema', 'http://www.collada.org/2004/COLLADASchema', 'urn:not-collada']


def gen_other_step(rng):
    docs = [gen_xml(rng) for _ in range(rng.choice([1, 2, 3]))]
    for d in docs:
        # other documents may be in another revision of the COLLADA namespace (default or prefixed root)
        if rng.random() < 0.5:
            d['ns'] = rng.choice(OTHER_NS)
    if rng.random() < 0.3:
        docs.append({'kind': 'file', 'name': rng.choice(FILES_SMALL), 'ext': [['extra', -1]]})
    if rng.random() < 0.3:
        docs.append({'kind': 'prog', 'params': {'cameras': 1, 'scenes': 1}, 'ext': [['extra', 0]]})
    return {'op': 'other', 'docs': docs, 'acts': rng.choice([['load'], ['load', 'write'], ['load', 'write', 'save']])}


def interleave_others(rng, hist, n):
    """between attempts: work on other documents, each followed (not necessarily at once) by a healthy write of
    the document under test, which the worker compares with the first write of an untouched twin"""
    for _ in range(n):
        i = rng.randrange(len(hist) + 1)
        hist.insert(i, {'op': 'write', 'dest': ['sink', None], 'query': False})
        hist.insert(i, gen_other_step(rng))
    return hist


def gen_file(rng, name):
    edits = [rng.choice(EDITS) for _ in range(rng.choice([0, 1, 2]))]
    if not name.startswith('duck') and rng.random() < 0.7:
        edits = [rng.choice(['add_camera', 'add_camera_ortho'])] + edits
    return {'kind': 'file', 'name': name, 'ext': gen_ext(rng, always=True), 'edits': edits}


def gen_docs(rng, nprog, nfile_small, nfile_big, hist_len):
    docs = []
    for name in FILES_SMALL:
        for _ in range(nfile_small):
            docs.append(gen_file(rng, name))
    for name in FILES_BIG:
        for _ in range(nfile_big):
            docs.append(gen_file(rng, name))
    for _ in range(nprog):
        docs.append(gen_prog(rng))
    for _ in range(max(6, nprog // 4)):
        docs.append(gen_xml(rng))
    for d in docs:
        d['history'] = gen_history(rng, d, hist_len)
        if d['kind'] == 'xml' or rng.random() < 0.5:
            interleave_others(rng, d['history'], rng.choice([1, 2]))
    hows = ['path', 'path', 'path', 'zip', 'zipstream', 'loader', 'stream']
    for i in range(max(len(hows), nprog // 4)):
        d = gen_pathdoc(rng, hows[i % len(hows)])
        h = gen_history(rng, d, max(4, hist_len - 3))
        extra = [{'op': 'write', 'dest': ['path', 'absent'], 'query': False},
                 {'op': 'write', 'dest': ['sink', None], 'query': False},
                 {'op': 'write', 'dest': ['path', 'existing'], 'query': True}]
        for e in extra:
            h.insert(rng.randrange(len(h) + 1), e)
        d['history'] = h
        docs.append(d)
    return docs


WS = [None, None, '', ' ', '\n', '\n  ', '\n    ', '\n      ', '\t\n ', '  \n', 'x', ' y ', '\n  z', ' ']


def gen_itree(rng, depth, lab):
    lab[0] += 1
    me = lab[0]
    nk = 0 if depth <= 0 else rng.choice([0, 0, 1, 2, 3, 4])
    return [me, rng.choice(WS), rng.choice(WS), [gen_itree(rng, depth - 1, lab) for _ in range(nk)]]


# ----------------------------------------------------------------------------- Coq encoding

def c_pairs(ks):
    return clist([ctuple(cN(a), cN(b)) for a, b in ks])


def c_skel(sk):
    return clist([ctuple(cN(u), cN(t), cN(s), c_pairs(ks)) for u, t, s, ks in sk])


def c_event(ev):
    bad, sc = ev['fault']
    cf = ctuple(clist([ctuple(cN(u), EXN_NAME[e]) for u, e in bad]),
                'None' if sc is None else '(Some (Some %s))' % ctuple(cN(sc[0]), cN(sc[1])))
    if ev['dest'] is None:
        cd = '(CSink false)'
    elif ev['dest'][0] == 'sink':
        cd = '(CSink %s)' % cbool(bool(ev['dest'][1]))
    else:
        cd = '(CPath %s)' % cbool(ev['dest'][1])
    return ctuple(ctuple(cbool(ev['write']), cf, cd), ctuple(cnat(ev['code']), cnat(ev['dflag']), c_skel(ev['skel'])))


def c_case(res):
    c = res['case']
    arrs = clist([clist([ctuple(cN(u), cN(i), cN(n), cN(h)) for u, i, n, h in arr]) for arr in c['arrs']])
    return ctuple(cN(c['masset']), arrs, copt(None if c['msc'] is None else ctuple(cN(c['msc'][0]), cN(c['msc'][1]))), c_skel(c['tree0']),
                  clist([c_event(e) for e in c['events']]),
                  clist([ctuple(cN(u), x) for u, x in c['ubefore']]), clist(c['uafter']))


def c_slot(s, interner):
    if not s:
        return 'SAbsent'
    if s.strip():
        return '(SText %s)' % cN(interner(s))
    if s[0] == '\n' and len(s) % 2 == 1 and s[1:] == '  ' * ((len(s) - 1) // 2):
        return '(SInd %s)' % cnat((len(s) - 1) // 2)
    return '(SBlank %s)' % cN(interner(s))


def c_wtree(t, interner):
    return '(WNode %s %s %s %s)' % (cN(t[0]), c_slot(t[1], interner), c_slot(t[2], interner),
                                    clist([c_wtree(k, interner) for k in t[3]]))


# ----------------------------------------------------------------------------- running

def crashed(job, reason):
    return {'fails': [{'clause': 'crash-or-hang', 'site': job['what'], 'what': 'the implementation worker died or hung: ' + reason[-200:],
                       'detail': {}}], 'len': 0, 'nfail': 0, 'writable': False, 'case': None, 'crashed': True}


def run_jobs(jobs, timeout=240):
    if not jobs:
        return []
    n = max(1, min(core.NCPU, len(jobs)))
    chunks = [jobs[i::n] for i in range(n)]

    def work(ch):
        return core.run_cases_bisect('c03', ch, lambda cs: {'jobs': cs}, crashed, timeout=timeout)
    with ThreadPoolExecutor(max_workers=n) as ex:
        outs = list(ex.map(work, chunks))
    res = [None] * len(jobs)
    for ci, out in enumerate(outs):
        for k, r in enumerate(out):
            res[ci + k * n] = r
    return res


def failures_of(job, res, limit=2):
    out = []
    if res is None:
        return out
    if 'error' in res:
        return [{'signature': 'C03:worker-error:' + job['what'], 'clause': 'worker-error',
                 'what': 'the worker raised on this document: ' + res['error'].strip().split('\n')[-1][:200],
                 'input': job, 'detail': res['error']}]
    for f in res.get('fails', [])[:limit]:
        out.append({'signature': 'C03:%s:%s' % (f['clause'], f['site']), 'clause': f['clause'], 'what': f['what'],
                    'input': job, 'detail': f.get('detail')})
    return out


def sink_jobs(rng, docs, results, quick):
    jobs = []
    for d, r in zip(docs, results):
        if not r or not r.get('writable') or not r.get('len'):
            continue
        L = r['len']
        spec = {k: v for k, v in d.items() if k != 'history'}
        if L < 4096:
            ns = list(range(0, L + 1))
            jobs.append({'what': 'sink', 'spec': spec, 'ns': ns, 'check_every': 1 if L <= 1200 else 3, 'exhaustive': True})
        else:
            k = 10 if quick else 64
            ns = sorted(set([0, 1, L - 1, L, L + 1, 8191, 8192, 8193] + [rng.randrange(L) for _ in range(k)]))
            jobs.append({'what': 'sink', 'spec': spec, 'ns': ns, 'check_every': 1, 'exhaustive': False})
    return jobs


def run(ctx):
    build_ok, obl, regen = core.std_setup(ctx)
    quick = ctx.quick()
    rng = ctx.rng
    docs = gen_docs(rng, 34 if quick else 420, 3 if quick else 30, 2 if quick else 12, 8 if quick else 14)
    docs.append({'kind': 'file', 'name': 'wam.dae', 'history': []})
    docs.append({'kind': 'file', 'name': 'duck.zip', 'history': gen_history(rng, {'kind': 'file', 'name': 'duck.zip'}, 6)})
    jobs = [{'what': 'doc', 'spec': d} for d in docs]
    ctx.log('running %d documents x histories of attempts on the implementation' % len(jobs))
    results = run_jobs(jobs)
    failures = []
    for j, r in zip(jobs, results):
        failures.extend(failures_of(j, r))
    # ---- exhaustive / sampled sink positions
    sjobs = sink_jobs(rng, docs, results, quick)
    if quick:
        # bound the exhaustive part of the quick tier: the smallest documents first, at most ~45 000 positions
        ex = sorted([j for j in sjobs if j['exhaustive']], key=lambda j: len(j['ns']))
        keep, tot = [], 0
        for j in ex:
            if tot + len(j['ns']) > 45000:
                break
            keep.append(j)
            tot += len(j['ns'])
        sjobs = keep + [j for j in sjobs if not j['exhaustive']]
    ctx.log('sink failure positions: %d documents, %d positions' % (len(sjobs), sum(len(j['ns']) for j in sjobs)))
    sresults = run_jobs(sjobs, timeout=400)
    for j, r in zip(sjobs, sresults):
        failures.extend(failures_of(j, r))
    # ---- indent
    itrees = []
    for _ in range(300 if quick else 4000):
        itrees.append([rng.choice([0, 0, 1, 2, 3]), gen_itree(rng, rng.choice([0, 1, 2, 3, 4]), [0])])
    try:
        iout = core.run_impl('c03', {'indent': itrees}, timeout=120)
    except Exception as e:  # noqa
        iout = None
        failures.append({'signature': 'C03:crash-or-hang:indent', 'clause': 'crash-or-hang',
                         'what': 'xmlutil.indent made the worker die or hang: %s' % (str(e)[-200:],), 'input': {'indent': itrees[:3]}})
    interned = {}

    def intern(s):
        if s not in interned:
            interned[s] = 5000 + len(interned)
        return interned[s]
    iterms = []
    if iout is not None:
        for (level, t), o in zip(itrees, iout):
            iterms.append(ctuple(cnat(level), c_wtree(t, intern), c_wtree(o['after'], intern)))
            if not o['idempotent'] and not any(f['clause'] == 'indent' for f in failures):
                failures.append({'signature': 'C03:indent:not-idempotent', 'clause': 'indent',
                                 'what': 'xmlutil.indent applied twice differs from once', 'input': {'indent': [[level, t]]}})
    # ---- Coq
    terms, tjobs = [], []
    for j, r in zip(jobs, results):
        if r and r.get('case'):
            terms.append(c_case(r))
            tjobs.append((j, r))
    ctx.log('replaying %d histories and %d indent cases in the model inside Coq' % (len(terms), len(iterms)))
    bad, errors = core.coq_eval_cases(ctx, HEADER, 'C03.case', terms, 'C03.mismatches', chunk=4, label='c03cases')
    ibad, ierrors = core.coq_eval_cases(ctx, HEADER, 'C03.icase', iterms, 'C03.imismatches', chunk=150, label='c03indent')
    mismatches = []
    for i in bad[:10]:
        j, r = tjobs[i]
        mismatches.append({'case_index': i, 'input': j, 'explained_by_known': False,
                           'implementation_observed': [[e['code'], e['dflag'], [(x[0], x[1], len(x[3])) for x in e['skel']]]
                                                       for e in r['case']['events']]})
    for i in ibad[:10]:
        mismatches.append({'case_index': i, 'input': {'indent': [itrees[i]]}, 'implementation_observed': iout[i]['after'],
                           'explained_by_known': False})
    # ---- evidence
    seen = set()
    nfail_att = 0
    codes = {}
    dests = {}
    faultkinds = {}
    for j, r in zip(jobs, results):
        if not r or not r.get('case'):
            continue
        evs = r['case']['events']
        nf = sum(1 for e in evs if e['code'] != 0)
        nfail_att += nf
        if nf >= 1:
            seen.add(core.canon_hash(j['spec']))
        for e, att in zip(evs, [a for a in j['spec']['history'] if a['op'] != 'other']):
            codes[str(e['code'])] = codes.get(str(e['code']), 0) + 1
            dk = 'save' if e['dest'] is None else '%s:%s' % (e['dest'][0], e['dest'][1])
            dests[dk] = dests.get(dk, 0) + 1
            for f in att.get('fault') or []:
                fk = f[0] if f[0] == 'scene' else 'camera-combo-%d' % f[2]
                faultkinds[fk] = faultkinds.get(fk, 0) + 1
    spos = sum(r.get('positions', 0) for r in sresults if r)
    sex = sum(1 for j in sjobs if j['exhaustive'])
    corr = {
        'evaluations': len(terms) + len(iterms),
        'distinct_nontrivial': len(seen) + len({json.dumps(t) for _, t in itrees if t[3]}),
        'rule': 'documents: shipped loadable files and documents from the public constructors, extended with unmodelled '
                'top-level content (library_animations, animation_clips, physics_*, force_fields, top-level extra) at '
                'random root positions and lightly edited (objects added / libraries emptied); each with a history of '
                'attempts (save / write to failing sink, healthy sink, absent path, existing path) in fault contexts '
                '(every invalid parameter combination on a camera, default scene outside scenes, both at once); '
                'non-trivial = at least one attempt failed; distinct = different specification.  indent: random '
                'whitespace skeletons (depth <= 4), non-trivial = has children.',
        'samples': [{'spec': {k: v for k, v in j['spec'].items() if k != 'history'}, 'history': [a for a in j['spec']['history'] if a['op'] != 'other'][:3],
                     'observed': [[e['code'], e['dflag']] for e in r['case']['events'][:3]]} for j, r in tjobs[:3]],
        'distribution': {'documents': len(jobs), 'histories_replayed_in_coq': len(terms), 'attempts_that_failed': nfail_att,
                         'exception_codes': codes, 'destinations': dests, 'fault_kinds': faultkinds,
                         'sink_failure_positions': spos, 'documents_with_every_sink_position': sex,
                         'documents_with_sampled_sink_positions': len(sjobs) - sex,
                         'unwritable_documents': sum(1 for r in results if r and not r.get('writable')),
                         'documents_loaded_from_disk_or_archive_with_auxiliary_files': sum(1 for d in docs if d['kind'] == 'pathdoc'),
                         'lazy_queries_first_evaluated_after_the_history': sum(r.get('nlazy', 0) for r in results if r),
                         'indent_cases': len(iterms),
                         'steps_on_other_documents_interleaved': sum(1 for j in jobs for a in j['spec'].get('history', []) if a['op'] == 'other')},
        'mismatches': mismatches,
        'errors': errors + ierrors,
        'exhaustive': False,
    }

    def search(mm):
        extra = gen_docs(rng, 60, 4, 1, 12)
        ej = [{'what': 'doc', 'spec': d} for d in extra]
        er = run_jobs(ej)
        out = []
        for j, r in zip(ej, er):
            out.extend(failures_of(j, r))
        sj = sink_jobs(rng, extra, er, True)[:40]
        for j, r in zip(sj, run_jobs(sj, timeout=400)):
            out.extend(failures_of(j, r))
        return out

    return core.finish(
        ctx, obligations=obl, regen=regen, build_ok=build_ok, corr=corr, failures=failures, search=search,
        trusted_base=core.BASE_TRUST + [
            'hand-written models Model/SaveState.v (Collada.save/write at root-child granularity) and Model/Indent.v '
            '(xmlutil.indent), tied to the code by the correspondence: per attempt the exception class, what happened '
            'to the destination and the root children (identity, tag, attribute content, children with identity and '
            'content) are predicted by the model; indent is compared tree for tree',
            'object-level save() methods are deterministic emissions at this granularity (content atoms taken from a '
            'reference run); that they are is checked by the direct oracle (byte-identical repeated writes), not proved',
            'serialisation (ElementTree.write) is a function of the tree content; default namespace; validator None',
        ],
        assumptions=['documents in a namespace other than 1.4.1 cannot be saved at all (C01/C15 finding); for them only '
                     '"a failed write leaves the destination and the model alone" is checked',
                     'what the OS leaves in a path destination when the sink (not save) fails is outside the property',
                     'faults are attribute edits (camera parameters, doc.scene); removing the default scene from '
                     'doc.scenes and putting it back moves library_visual_scenes, which is C02\'s concern'],
        extra={'modelled_not_verified': ['object-level save() idempotence (Geometry, Node, Effect, ... ): direct oracle only']})


def replay(ctx, body):
    job = body.get('input') or (body.get('mismatching_cases') or [{}])[0].get('input')
    if job is None:
        print('replay: nothing to replay')
        return 0
    if 'indent' in job:
        out = core.run_impl('c03', {'indent': job['indent']}, timeout=120)
        print(json.dumps(out)[:2000])
        if any(not o['idempotent'] for o in out):
            print('VIOLATION property=C03 replay=%s' % body.get('replay_cmd', '').split()[-1])
            return 1
        print('replay: indent is idempotent on this tree now')
        return 0
    r = run_jobs([job])[0]
    fails = r.get('fails', []) if r else []
    if r and 'error' in r:
        fails = [{'clause': 'worker-error', 'what': r['error']}]
    print(json.dumps(fails, indent=1)[:4000])
    if fails:
        print('VIOLATION property=C03 replay=%s' % body.get('replay_cmd', '').split()[-1])
        return 1
    print('replay: the property clauses hold on this document and history now')
    return 0
