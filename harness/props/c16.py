"""C16 - the container does not matter: path, file object, zip member."""
import json
import os
import posixpath

from harness import core
from harness.core import cN, clist, copt, ctuple, cnat, cbool

HEADER = ('From Coq Require Import List NArith.\n'
          'From PC Require Import Base.Outcome Model.Container Check.C16.\n'
          'Import ListNotations.\nOpen Scope N_scope.\n')

from harness.impl.c16_blobs import (kind_id, content_id, user_content, AUX_FORMS, USER_FORMS,  # noqa (pure data module)
                                     RETURN_FORMS)

LOADER_FORMS = ['function', 'function', 'lambda', 'partial', 'method', 'callable_object', 'empty_dict_callable',
                'falsy_callable', 'len0_callable']
CLEAN_DIRS = ['a', 'b', 'models', 'tex', 'Sub Dir', 'модели', 'sub']
DAE_NAMES = ['doc.dae', 'scene.DAE', 'Model.Dae', 'x.dAe', 'second.dae', 'OTHER.DAE']
NON_DAE = ['doc.dae.txt', 'dae', 'notes.txt', 'model.da', 'xdae', 'readme.DAE.bak']
AUX_NAMES = ['x.png', 'img.tga', 'y.bin']


# ------------------------------------------------------------------ atoms (see Model/Container.v)

class Interner(object):
    def __init__(self):
        self.k = {'': 0, '.': 1, '..': 2}

    def atom(self, s):
        if s not in self.k:
            self.k[s] = len(self.k)
        k = self.k[s]
        if k < 3:
            return 16 * k
        m = 1 if 'MACOSX' in s else (2 if 'macosx' in s.lower() else 0)
        tail = s[-4:]
        e = 1 if tail == '.dae' else 2 if tail == '.DAE' else 3 if tail.lower() == '.dae' else 0
        return 16 * k + 4 * m + e

    def name(self, s):
        return clist([cN(self.atom(c)) for c in s.split('/')])


# ------------------------------------------------------------------ layouts

def rand_dir(rng, depth):
    return [rng.choice(CLEAN_DIRS) for _ in range(depth)]


def images_basenames(aux):
    return sorted({a[0].split('/')[-1] for a in aux})


def gen_layout(rng, idx):
    """an archive layout, the same tree on disk, image paths, and the loads to perform"""
    ndocs = rng.choice([0, 1, 1, 2, 2, 3])
    used = set()
    entries = []      # (name, kind)
    docs = []
    for k in range(ndocs):
        for _ in range(20):
            d = rand_dir(rng, rng.choice([0, 0, 1, 2, 3]))
            nm = '/'.join(d + [rng.choice(DAE_NAMES)])
            if nm not in used:
                break
        if nm in used:
            continue
        used.add(nm)
        docs.append((nm, ['doc', 10 * (idx % 50) + k]))
    entries.extend(docs)
    # decoys: resource forks under __MACOSX, at any depth, mirroring a document or not
    ndec = rng.choice([0, 1, 1, 2, 3])
    decoys = []
    for j in range(ndec):
        base = rng.choice(docs)[0] if docs and rng.random() < 0.7 else '/'.join(rand_dir(rng, rng.randint(0, 2)) + [rng.choice(DAE_NAMES)])
        parts = base.split('/')
        pre = rand_dir(rng, 1) if rng.random() < 0.2 else []
        nm = '/'.join(pre + ['__MACOSX'] + parts[:-1] + ['._' + parts[-1]])
        if nm in used:
            continue
        used.add(nm)
        decoys.append((nm, ['decoy', j]))
    ambiguous = False
    if rng.random() < 0.15:
        # names that contain MACOSX in another form: decoys for the code's substring rule or not;
        # the property text does not say, so only the model correspondence looks at these
        nm = '/'.join([rng.choice(['MACOSX', 'xMACOSXy', '__macosx', '__MACOSX_old'])] + [rng.choice(DAE_NAMES)])
        if nm not in used:
            used.add(nm)
            decoys.append((nm, ['doc', 10 * (idx % 50) + 9]))
            ambiguous = True
    # auxiliary files, directory entries, other files
    aux = []
    doc_dirs = [d[0].split('/')[:-1] for d in docs] or [[]]
    for j in range(rng.randint(1, 5)):
        base = list(rng.choice(doc_dirs))
        r = rng.random()
        if r < 0.35:
            loc = base
        elif r < 0.6:
            loc = base + [rng.choice(['sub', 'tex'])]
        elif r < 0.85 and base:
            loc = base[:-1]
        else:
            loc = rand_dir(rng, rng.randint(0, 2))
        nm = '/'.join(loc + [rng.choice(AUX_NAMES)])
        if nm in used:
            continue
        used.add(nm)
        aux.append((nm, ['aux', j, rng.choice(AUX_FORMS)]))
    others = []
    for _ in range(rng.randint(0, 2)):
        nm = '/'.join(rand_dir(rng, rng.randint(0, 1)) + [rng.choice(NON_DAE)])
        if nm not in used:
            used.add(nm)
            others.append((nm, ['aux', 90 + len(others), 'normal']))
    dirs = []
    if rng.random() < 0.3:
        nm = rng.choice(['tex/', 'sub/', '__MACOSX/', 'models.dae/'])
        if nm not in used and nm[:-1] not in used:
            used.add(nm)
            dirs.append((nm, ['dir']))
    # documents stored under names that do NOT end in .dae: never selected automatically, but
    # loadable by name (zip_filename=) and, on disk, by path - the same bytes, the same model
    odd = []
    for n, k in docs:
        if rng.random() < 0.6:
            base = n.split('/')[:-1]
            nm = '/'.join(base + [rng.choice(['duck.xml', 'duck.dae.orig', 'duck', 'doc.kml.xml', 'scene.dae.bak',
                                              'model.DAE.txt', 'Duck.Dae_'])])
            if nm not in used:
                used.add(nm)
                odd.append((nm, k))
    # byte-level form of the archive (whatever zipfile.ZipFile opens is an archive)
    zip_variant = rng.choice(['plain', 'plain', 'prepended', 'prepended-deflated', 'comment', 'deflated', 'mixed', 'zip64'])
    # archive order: decoys in every position relative to the documents
    body = docs + odd + aux + others + dirs
    rng.shuffle(body)
    mode = rng.choice(['first', 'last', 'mixed', 'between'])
    if mode == 'first':
        members = decoys + body
    elif mode == 'last':
        members = body + decoys
    else:
        members = list(body)
        for dcy in decoys:
            members.insert(rng.randint(0, len(members)), dcy)
    # degenerate, document-less archives: no member at all (the 22-byte end-of-central-directory
    # record), auxiliary files only, directory entries only, resource-fork decoys only
    degenerate = None
    if rng.random() < 0.12:
        degenerate = rng.choice(['empty', 'empty', 'textures', 'dirs', 'decoys'])
        if degenerate == 'empty':
            members = []
        elif degenerate == 'textures':
            members = [m for m in members if m[1][0] == 'aux' and not m[0].lower().endswith('.dae')]
        elif degenerate == 'dirs':
            members = [('tex/', ['dir']), ('sub/deep/', ['dir']), ('__MACOSX/', ['dir'])][:rng.randint(1, 3)]
        else:
            members = list(decoys) or [m for m in members if m[1][0] == 'aux' and not m[0].lower().endswith('.dae')]
    # image paths, of every form, relative to a document directory, hitting and missing
    images = []
    targets = [a[0] for a in aux] or ['x.png']
    for _ in range(rng.randint(2, 5)):
        base = rng.choice(doc_dirs)
        t = rng.choice(targets).split('/')
        # path from base to t
        i = 0
        while i < len(base) and i < len(t) - 1 and base[i] == t[i]:
            i += 1
        rel = ['..'] * (len(base) - i) + t[i:]
        form = rng.random()
        if form < 0.2:
            rel = ['.'] + rel
        elif form < 0.3:
            rel = rel[:-1] + ['.', rel[-1]]
        elif form < 0.4 and len(rel) >= 2:
            rel = rel[:-1] + ['', rel[-1]]
        elif form < 0.5:
            rel = [rng.choice(['sub', 'nodir']), '..'] + rel
        elif form < 0.6:
            rel = ['..'] * rng.randint(1, 5) + rel
        elif form < 0.7:
            rel = [rng.choice(['missing.png', 'sub/none.png', '../none.png', './none.png'])]
        p = '/'.join(rel)
        if p and p not in images:
            images.append(p)
    if not images:
        images = ['x.png']
    # user loader table over the raw path strings (some answered, some None)
    user_map = {}
    for p in images:
        if rng.random() < 0.65:
            form = rng.choice(USER_FORMS)
            ret = rng.choice(RETURN_FORMS)
            if ret == 'str' and form == 'large':
                ret = 'bytes'
            user_map[p] = [rng.randint(0, 9), form, ret]
    # disk: the same tree (documents, auxiliary and other files) + the archive
    # the archive's name on disk is independent of its content: archive names, document names, others
    zrel = rng.choice(['arch.zip', 'arch.zae', 'pk/arch.zip', 'a/b/arch.ZIP', 'arch.kmz', 'archive', 'pk/arch.xml',
                       'zipped.dae', 'Zipped.DAE', 'pk/zipped.Dae', 'arch.dae.zip', 'arch.bin'])
    while zrel in used:
        zrel = 'z' + zrel
    disk = [(n, k) for n, k in docs + odd + aux + others if n != zrel]
    # ... and so is a plain document's: copies of the documents under archive-like and other names
    renamed = []
    for n, k in docs:
        if rng.random() < 0.6:
            base = n.split('/')[:-1]
            nm = '/'.join(base + [rng.choice(['plain.zip', 'plain.zae', 'plain.ZIP', 'plain', 'plain.xml', 'plain.kmz',
                                              'plain.dae.bak'])])
            if nm not in used and nm != zrel and nm not in [r[0] for r in renamed]:
                renamed.append((nm, k))
    disk += renamed
    # files with the images' names next to where a loaded document may later be exported
    for i, p in enumerate(images_basenames(aux)):
        for d in ('export_c16/deep/', 'export_c16/'):
            if d + p not in used:
                used.add(d + p)
                disk.append((d + p, ['aux', 70 + i, 'normal']))
    # a decoy-free copy of a document in a different directory as well
    disk.append((zrel, ['zip']))
    # symbolic links: a document reached through a linked FILE (its own location is the link's
    # directory, which holds same-named auxiliary files with other contents) and through a linked
    # DIRECTORY (everything under the target is visible under the link's name)
    links, virtual = [], []
    if docs and rng.random() < 0.6:
        n, k = rng.choice(docs)
        ldir = rng.choice(['lnk_c16', 'lnk_c16/inner'])
        lname = ldir + '/' + rng.choice(['linked.dae', 'Linked.DAE', 'linked'])
        links.append((lname, n))
        virtual.append((lname, k))
        for i, b in enumerate(images_basenames(aux)):
            for dd in sorted({ldir, ldir + '/sub', ldir + '/tex', 'lnk_c16'}):
                nm = dd + '/' + b
                if nm not in used and rng.random() < 0.7:
                    used.add(nm)
                    disk.append((nm, ['aux', 50 + i, rng.choice(['normal', 'normal', 'one'])]))
    nested = [d for d in docs if '/' in d[0]]
    if nested and rng.random() < 0.6:
        n, k = rng.choice(nested)
        tdir = n.split('/')[0]                       # link to the top directory of that document
        lroot = rng.choice(['dlink_c16', 'lnk_c16/dlink'])
        links.append((lroot, tdir))
        for fn, fk in list(disk):
            if fn.startswith(tdir + '/') and fk[0] != 'zip':
                virtual.append((lroot + fn[len(tdir):], fk))
    # loads
    loads = []

    def add(src, target, zf=None, loader=False, ignore=False):
        ld = {'src': src, 'target': target, 'zip_filename': zf, 'loader': loader, 'ignore': ignore}
        if loader:
            ld['loader_form'] = rng.choice(LOADER_FORMS)
        if src in ('file', 'bytes') and rng.random() < 0.3:
            ld['offset'] = rng.choice([1, 4, 7, 64, 1000])      # stream handed over at a non-zero position
        if rng.random() < 0.3:
            ld['write_first'] = rng.choice(['path', 'path', 'abspath', 'fileobj'])
        loads.append(ld)

    zfs = [None] + [d[0] for d in docs] + [d[0] for d in odd]
    if decoys:
        zfs.append(decoys[0][0])
    zfs += [rng.choice(['nothere.dae', 'A/doc.dae', 'doc.DAE']), '']
    if aux and rng.random() < 0.5:
        zfs.append(aux[0][0])
    for src in ('path', 'bytes'):
        for zf in zfs:
            for loader in (False, True):
                if zf is not None and loader and rng.random() < 0.6:
                    continue
                add(src, zrel, zf, loader, ignore=rng.random() < 0.3)
    add('file', zrel, None, False)
    add('file', zrel, rng.choice(zfs), True)
    add('abspath', zrel, None, False)
    add('abspath', zrel, rng.choice(zfs), rng.random() < 0.3)
    linked_docs = [(n, k) for n, k in virtual if k[0] == 'doc']
    for n, k in docs + odd + renamed + linked_docs:
        for src in ('path', 'bytes', 'file', 'abspath'):
            for loader in (False, True):
                if loader and rng.random() < 0.5:
                    continue
                add(src, n, rng.choice([None, None, n, 'zz.dae']), loader, ignore=rng.random() < 0.3)
    return {'members': [list(m) for m in members], 'disk': [list(d) for d in disk], 'images': images,
            'user_map': user_map, 'loads': loads, 'ambiguous_selection': ambiguous, 'zip': zrel,
            'zip_variant': zip_variant, 'degenerate': degenerate, 'links': [list(l) for l in links], 'disk_virtual': [list(v) for v in virtual]}


# ------------------------------------------------------------------ encoding

def c_fsys(I, entries):
    return clist([ctuple(I.name(n), cN(kind_id(k))) for n, k in entries])


def c_case(case, res):
    I = Interner()
    cwd = res['cwd']
    alld = list(case['disk']) + list(case.get('disk_virtual', []))
    disk_kind = dict((r, k) for r, k in alld)
    disk = [(n, k) for n, k in alld] + [(cwd + '/' + n, k) for n, k in alld]
    loads = []
    for ld, ob in zip(case['loads'], res['obs']):
        tk = disk_kind[ld['target']]
        fname = ld['target'] if ld['src'] == 'path' else cwd + '/' + ld['target']
        kind = '(FromPath %s)' % I.name(fname) if ld['src'] in ('path', 'abspath') else 'FromFileObj'
        plain = None if tk[0] == 'zip' else cN(kind_id(tk))
        zf = None if ld['zip_filename'] is None else I.name(ld['zip_filename'])
        user = None
        if ld['loader']:
            user = clist([ctuple(I.name(p), copt(None if j is None else cN(content_id(user_content(j)))))
                          for p, j in sorted(case['user_map'].items())])
        seen = ctuple(cnat(ob['code']), cN(ob['data']), copt(None if ob['member'] is None else I.name(ob['member'])),
                      clist([ctuple(cnat(c), cN(d)) for c, d in ob['imgs']]))
        loads.append(ctuple(kind, copt(plain), copt(zf), copt(user), cbool(ld['ignore']), seen))
    return ctuple(c_fsys(I, disk), c_fsys(I, case['members']), clist([I.name(p) for p in case['images']]),
                  clist(loads))


# ------------------------------------------------------------------ pure batches

SEL_COMPS = ['a', 'b', '__MACOSX', 'MACOSX', 'xMACOSXy', '__macosx', 'x.dae', 'y.DAE', 'z.Dae', '._x.dae',
             'n.txt', 'dae', '.dae', 'MACOSX.dae', 'w.dae.bak']


def gen_select(rng):
    names = []
    for _ in range(rng.randint(0, 6)):
        nm = '/'.join(rng.choice(SEL_COMPS) for _ in range(rng.randint(1, 3)))
        if rng.random() < 0.1:
            nm += '/'
        if nm not in names:
            names.append(nm)
    r = rng.random()
    if r < 0.6:
        zf = None
    elif r < 0.8 and names:
        zf = rng.choice(names)
    elif r < 0.9:
        zf = ''
    else:
        zf = '/'.join(rng.choice(SEL_COMPS) for _ in range(rng.randint(1, 2)))
    return {'names': names, 'zip_filename': zf}


def select_exhaustive():
    """every order and presence pattern of: two documents, two decoys, one non-document"""
    import itertools
    pool = ['a/x.dae', 'y.DAE', '__MACOSX/a/._x.dae', '__MACOSX/._y.DAE', 'n.txt']
    out = []
    for r in range(0, len(pool) + 1):
        for sub in itertools.permutations(pool, r):
            out.append({'names': list(sub), 'zip_filename': None})
    return out


NP_COMPS = ['', '', '.', '..', '..', 'a', 'b', 'c.png']


def gen_np(rng):
    n = rng.randint(1, 7)
    return '/'.join(rng.choice(NP_COMPS) for _ in range(n))


# ------------------------------------------------------------------ running

def crashed_layout(case, reason):
    return {'obs': [{'code': 99, 'data': 0, 'member': None, 'imgs': [], 'snap': None} for _ in case['loads']],
            'cwd': '/nowhere',
            'fails': [{'clause': 'crash-or-hang', 'site': 'worker', 'load': -1,
                       'what': 'the implementation did not survive this layout: ' + reason}]}


def crashed_select(case, reason):
    return {'code': 99, 'member': None, 'crash': reason}


def _bisect_parallel(chunks, payload_of, crashed, timeout):
    from concurrent.futures import ThreadPoolExecutor

    def one(ch):
        return core.run_cases_bisect('c16', ch, payload_of, crashed, timeout=timeout)
    with ThreadPoolExecutor(max_workers=core.NCPU) as ex:
        outs = list(ex.map(one, chunks))
    return [r for out in outs for r in out]


def run_layouts(cases):
    chunks = [cases[i:i + 25] for i in range(0, len(cases), 25)]
    return _bisect_parallel(chunks, lambda cs: {'cases': cs}, crashed_layout, 240)


def run_selects(cases):
    chunks = [cases[i:i + 400] for i in range(0, len(cases), 400)]
    return _bisect_parallel(chunks, lambda cs: {'select': cs}, crashed_select, 240)


def failures_of(cases, results, limit=6):
    out, seen = [], set()
    for c, r in zip(cases, results):
        for f in r['fails']:
            sig = 'C16:%s:%s' % (f['clause'], f['site'])
            if sig in seen:
                continue
            seen.add(sig)
            inp = dict(c)
            if f.get('load', -1) >= 0:
                inp = dict(c, loads=[c['loads'][f['load']]] if f['clause'] != 'same-model' or f['site'] != 'snapshot' else c['loads'])
            out.append({'signature': sig, 'clause': f['clause'], 'what': f['what'], 'input': inp, 'detail': f})
            if len(out) >= limit:
                return out
    return out


def corpus_cases():
    d = os.path.join(core.VERIF, 'corpus', 'C16')
    out = []
    if os.path.isdir(d):
        for fn in sorted(os.listdir(d)):
            if fn.endswith('.json'):
                out.append(json.load(open(os.path.join(d, fn))))
    return out


def run(ctx):
    build_ok, obl, regen = core.std_setup(ctx)
    quick = ctx.quick()
    nlay = 300 if quick else 5000
    cases = corpus_cases()
    ncorpus = len(cases)
    cases += [gen_layout(ctx.rng, i) for i in range(nlay)]
    ctx.log('running %d archive/directory layouts (%d loads) on the implementation'
            % (len(cases), sum(len(c['loads']) for c in cases)))
    results = run_layouts(cases)
    terms = [c_case(c, r) for c, r in zip(cases, results)]
    bad, errors = core.coq_eval_cases(ctx, HEADER, 'C16.case', terms, 'C16.mismatches', chunk=25, label='layouts')
    # member selection alone
    sel = select_exhaustive() + [gen_select(ctx.rng) for _ in range(1500 if quick else 30000)]
    selres = run_selects(sel)
    sterms = []
    for c, r in zip(sel, selres):
        I = Interner()
        seen = None if r['member'] is None else I.name(r['member'])
        sterms.append(ctuple(clist([I.name(n) for n in c['names']]),
                             copt(None if c['zip_filename'] is None else I.name(c['zip_filename'])), copt(seen)))
    bad_s, err_s = core.coq_eval_cases(ctx, HEADER, 'C16.sel_case', sterms, 'C16.sel_mismatches', chunk=400, label='select')
    # normpath alone (the runtime's posixpath, which the zip/disk resolvers call)
    nps = sorted({gen_np(ctx.rng) for _ in range(3000 if quick else 60000)})
    nterms = []
    for p in nps:
        I = Interner()
        nterms.append(ctuple(I.name(p), I.name(posixpath.normpath(p))))
    bad_n, err_n = core.coq_eval_cases(ctx, HEADER, 'C16.np_case', nterms, 'C16.np_mismatches', chunk=500, label='normpath')

    failures = failures_of(cases, results)
    # selection failures seen in the pure batch: a raw exception or a wrong class is a failure of
    # the "archive without a document is reported" clause only when there is no .dae member at all
    for c, r in zip(sel, selres):
        if r.get('crash'):
            failures.append({'signature': 'C16:crash-or-hang:zip-select', 'clause': 'crash-or-hang',
                             'what': 'the implementation did not survive this archive: ' + r['crash'],
                             'input': {'select': c}, 'detail': r})
            break
    for c, r in zip(sel, selres):
        if c['zip_filename'] is None and not any(n.lower().endswith('.dae') for n in c['names']):
            if r['code'] != 1:
                failures.append({'signature': 'C16:no-document:zip-select', 'clause': 'no-document',
                                 'what': 'archive with no .dae member: code %d, member %r' % (r['code'], r['member']),
                                 'input': {'select': c}, 'detail': r})
                break
    mismatches = []
    for i in bad[:10]:
        mismatches.append({'case_index': i, 'kind': 'layout', 'input': cases[i], 'implementation_observed': results[i]['obs'],
                           'explained_by_known': False})
    for i in bad_s[:10]:
        mismatches.append({'case_index': i, 'kind': 'select', 'input': {'select': sel[i]}, 'implementation_observed': selres[i],
                           'explained_by_known': False})
    for i in bad_n[:10]:
        mismatches.append({'case_index': i, 'kind': 'normpath (model of posixpath.normpath vs the runtime)', 'input': {'normpath': nps[i]},
                           'implementation_observed': posixpath.normpath(nps[i]), 'explained_by_known': False})
    # distribution
    dist = {'loads': 0, 'by_source': {}, 'with_user_loader': 0, 'with_zip_filename': 0, 'ignore': 0,
            'load_outcomes': {}, 'image_outcomes': {}, 'decoy_first': 0, 'only_decoys': 0, 'no_dae': 0,
            'several_docs': 0, 'degenerate_archives': {}, 'documents_under_non_dae_names': 0, 'loads_by_non_dae_name': 0, 'layouts_with_symlinks': 0, 'loads_through_symlinks': 0, 'loader_forms': {}, 'stream_offsets': 0, 'write_before_data': {}, 'zip_variants': {}, 'memberless_archives': 0, 'aux_forms': {}, 'user_answers': {}, 'uppercase_ext_selected': 0, 'archive_file_names': {}, 'plain_documents_under_other_names': 0, 'depth_of_selected': {}, 'image_path_forms': {}}
    seen_h = set()
    for c, r in zip(cases, results):
        seen_h.add(core.canon_hash([c['members'], c['images'], c['loads']]))
        names = [m[0] for m in c['members']]
        dae = [n for n in names if n.lower().endswith('.dae')]
        if dae and '__MACOSX' in dae[0].split('/'):
            dist['decoy_first'] += 1
        if dae and all('__MACOSX' in n.split('/') for n in dae):
            dist['only_decoys'] += 1
        if not dae:
            dist['no_dae'] += 1
        dist['layouts_with_symlinks'] += bool(c.get('links'))
        if c.get('degenerate'):
            dist['degenerate_archives'][c['degenerate']] = dist['degenerate_archives'].get(c['degenerate'], 0) + 1
        oddn = {m[0] for m in c['members'] if m[1][0] == 'doc' and not m[0].lower().endswith('.dae')}
        dist['documents_under_non_dae_names'] += len(oddn)
        dist['loads_by_non_dae_name'] += sum(1 for ld in c['loads'] if ld['target'] == c['zip'] and ld['zip_filename'] in oddn)
        vnames = {v[0] for v in c.get('disk_virtual', [])}
        dist['loads_through_symlinks'] += sum(1 for ld in c['loads'] if ld['target'] in vnames)
        dist['zip_variants'][c.get('zip_variant')] = dist['zip_variants'].get(c.get('zip_variant'), 0) + 1
        dist['memberless_archives'] += not c['members']
        for m in c['members']:
            if m[1][0] == 'aux':
                dist['aux_forms'][m[1][2]] = dist['aux_forms'].get(m[1][2], 0) + 1
        for a in c['user_map'].values():
            k = a[1] + ':' + a[2]
            dist['user_answers'][k] = dist['user_answers'].get(k, 0) + 1
        ext = os.path.splitext(c['zip'])[1] or '(none)'
        dist['archive_file_names'][ext] = dist['archive_file_names'].get(ext, 0) + 1
        dist['plain_documents_under_other_names'] += sum(1 for d in c['disk'] if d[1][0] == 'doc' and d[0].split('/')[-1].startswith('plain'))
        if len([m for m in c['members'] if m[1][0] == 'doc']) > 1:
            dist['several_docs'] += 1
        for p in c['images']:
            form = 'dotdot' if p.startswith('..') else 'dot' if p.startswith('./') else 'sub' if '/' in p else 'plain'
            dist['image_path_forms'][form] = dist['image_path_forms'].get(form, 0) + 1
        for ld, ob in zip(c['loads'], r['obs']):
            dist['loads'] += 1
            k = ld['src'] + (':zip' if ld['target'] == c['zip'] else ':dae')
            dist['by_source'][k] = dist['by_source'].get(k, 0) + 1
            dist['with_user_loader'] += bool(ld['loader'])
            if ld.get('loader_form'):
                dist['loader_forms'][ld['loader_form']] = dist['loader_forms'].get(ld['loader_form'], 0) + 1
            dist['stream_offsets'] += bool(ld.get('offset'))
            if ld.get('write_first'):
                dist['write_before_data'][ld['write_first']] = dist['write_before_data'].get(ld['write_first'], 0) + 1
            dist['with_zip_filename'] += ld['zip_filename'] is not None
            dist['ignore'] += bool(ld['ignore'])
            dist['load_outcomes'][str(ob['code'])] = dist['load_outcomes'].get(str(ob['code']), 0) + 1
            if ob['member']:
                dd = str(ob['member'].count('/'))
                dist['depth_of_selected'][dd] = dist['depth_of_selected'].get(dd, 0) + 1
                if not ob['member'].endswith('.dae'):
                    dist['uppercase_ext_selected'] += 1
            for ic, _ in ob['imgs']:
                dist['image_outcomes'][str(ic)] = dist['image_outcomes'].get(str(ic), 0) + 1
    dist['select_only_cases'] = len(sel)
    dist['normpath_only_cases'] = len(nps)
    corr = {
        'evaluations': sum(len(c['loads']) for c in cases) + len(sel) + len(nps),
        'distinct_nontrivial': len(seen_h),
        'rule': 'layouts: random archives (0-3 documents at depths 0-3, 0-3 __MACOSX decoys placed first/last/between/'
                'mixed, upper/mixed-case extensions, auxiliary files, directory entries, other MACOSX-like names) '
                'mirrored on disk; every layout loaded from path / absolute path / open file / BytesIO, zip and plain, '
                'x user loader x zip_filename (none, each document, a decoy, absent, empty, a non-document) x '
                'ignore; distinct = different (members, image paths, loads); every layout is non-trivial '
                '(at least 9 loads); plus member selection alone (all orders/subsets of 2 documents + 2 decoys + '
                '1 other, and random name lists) and normpath alone against the runtime',
        'samples': [{'members': c['members'], 'images': c['images'], 'load': c['loads'][0], 'observed': r['obs'][0]}
                    for c, r in list(zip(cases, results))[ncorpus:ncorpus + 3]],
        'distribution': dist,
        'mismatches': mismatches,
        'errors': errors + err_s + err_n,
    }

    def search(mm):
        extra = [gen_layout(ctx.rng, i) for i in range(600)]
        res = run_layouts(extra)
        return failures_of(extra, res)

    return core.finish(
        ctx, obligations=obl, regen=regen, build_ok=build_ok, corr=corr, failures=failures, search=search,
        trusted_base=core.BASE_TRUST + [
            'hand-written model Model/Container.v of Collada.__init__ (source kind, zip probing, member selection), '
            '_getFileFromZip/_getFileFromDisk/_wrappedFileLoader/_nullGetFile and posixpath.dirname/join/normpath on '
            'component lists, tied to the code by the per-load correspondence (exception class, parsed document, '
            'Collada.filename, CImage.data per image) and to the runtime by the normpath batch',
            'H_zip: zipfile.ZipFile succeeds exactly on archives and namelist()/read() are the member table; '
            'H_fs: os.path.exists/open see the files the harness wrote; H_parse: non-XML bytes raise DaeMalformedError',
            'path components are classified by the harness tokenizer (last four characters, substring MACOSX)',
        ],
        assumptions=['member names are unique within an archive (zipfile.read returns the last duplicate)',
                     'the loaded model is a function of the selected bytes (rest of __init__ does not look at the container): '
                     'checked by snapshot equality across containers, not proved',
                     'bytes filenames, pathlib paths, absolute image paths and image paths naming directories are outside '
                     'the property\'s quantifier and are not generated'])


def replay(ctx, body):
    inp = body.get('input') or (body.get('mismatching_cases') or [{}])[0].get('input')
    if inp is None:
        print('replay: nothing to run')
        return 0
    if 'select' in inp:
        r = run_selects([inp['select']])[0]
        print(json.dumps(r))
        c = inp['select']
        badsel = c['zip_filename'] is None and not any(n.lower().endswith('.dae') for n in c['names']) and \
            r['code'] != 1
        if badsel or r.get('crash'):
            print('VIOLATION property=C16 replay=%s' % body.get('replay_cmd', '').split()[-1])
            return 1
        print('replay: the clause holds on this archive now')
        return 0
    if 'normpath' in inp:
        print('replay: model-of-runtime case, nothing to evaluate on pycollada')
        return 0
    r = run_layouts([inp])[0]
    print(json.dumps(r['fails'], indent=1))
    if r['fails']:
        print('VIOLATION property=C16 replay=%s' % body.get('replay_cmd', '').split()[-1])
        return 1
    print('replay: the property clauses hold on this layout now')
    return 0
