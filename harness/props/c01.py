"""C01 - write then load reproduces the document model; generation-1 fixed point."""
import json
import os
import random
import struct

import numpy

from harness import core
from harness.core import cN, cZ, clist, ctuple
from harness.impl import c01_compare as cmp
from harness.props import c01gen

HEADER = ('From Coq Require Import List NArith ZArith.\n'
          'From PC Require Import Model.RoundTrip Check.C01.\n'
          'Import ListNotations.\nOpen Scope N_scope.\n')
NS141 = 'http://www.collada.org/2005/11/COLLADASchema'
STAGE_CLAUSE = {'build': 'constructors', 'write1': 'write', 'load1': 'written-document-loads',
                'write2': 'write-after-load', 'load2': 'written-document-loads', 'write3': 'write-after-load',
                'worker': 'crash-or-hang'}


# ------------------------------------------------------------------ the runtime's numeric oracle

def fmt7(x):
    return '%.7g' % x


def parse32(tok):
    return float(numpy.float32(float(tok)))


def h_num_stable_sample(rng, n):
    """H_num_stable exercised with the runtime's own formatting and float32 rounding"""
    bad = []
    for i in range(n):
        r = rng.random()
        if r < 0.35:
            bits = rng.getrandbits(32)
            x = struct.unpack('f', struct.pack('I', bits))[0]
            if x != x or abs(x) >= 1e9:
                continue
        elif r < 0.5:
            x = rng.uniform(2.0 ** -10, 1e-3)
        elif r < 0.6:
            x = rng.uniform(2.0 ** -30, 1e-9)
        elif r < 0.7:
            x = (rng.randint(1000000, 9999999) + 0.5) * 10.0 ** rng.randint(-12, 2)
        elif r < 0.8:
            x = float('%.7g' % (10.0 ** rng.uniform(-12, 9)))
        else:
            x = c01gen.any_double(rng)
        if rng.random() < 0.3:
            x = -x
        a = parse32(fmt7(x))
        b = parse32(fmt7(a))
        if not (a == b or (a != a and b != b)):
            bad.append(x)
    return bad


# ------------------------------------------------------------------ Model/NumFmt.v against the runtime

NUM_HEADER = ('From Coq Require Import List ZArith.\n'
              'From PC Require Import Model.NumFmt Check.C01num.\n'
              'Import ListNotations.\n')


def binrep(x, bits):
    import math
    if x == 0:
        return 0, 0
    m, e = math.frexp(x)
    return int(m * 2 ** bits), e - bits


def numfmt_cases(rng, n):
    import decimal
    vals, terms = [], []
    while len(terms) < n:
        r = rng.random()
        if r < 0.4:
            x = abs(struct.unpack('f', struct.pack('I', rng.getrandbits(31)))[0])
        elif r < 0.55:
            x = rng.uniform(2.0 ** -10, 1e-3)
        elif r < 0.65:
            x = rng.uniform(2.0 ** -30, 1e-9)
        elif r < 0.75:
            x = (rng.randint(1000000, 9999999) + 0.5) * 10.0 ** rng.randint(-12, 1)
        else:
            x = abs(c01gen.any_double(rng))
        if x != x or not (x == 0 or 1e-30 <= x < 1e9):
            continue
        tok = fmt7(x)
        t = decimal.Decimal(tok).as_tuple()
        D, q = int(''.join(map(str, t.digits))), t.exponent
        if D == 0:
            D, q = 0, 0
        else:
            k = 7 - len(str(D))
            D, q = D * 10 ** k, q - k
        m, e = binrep(x, 53)
        M, E = binrep(parse32(tok), 24)
        vals.append(x)
        terms.append(ctuple(cZ(m), cZ(e), ctuple(cZ(D), cZ(q)), ctuple(cZ(M), cZ(E))))
    return vals, terms


# ------------------------------------------------------------------ programs

def gen_edits(rng):
    """rounds of in-place numpy edits of source data / bound primitive arrays; every round is
    preceded by a write()"""
    rounds = []
    for _ in range(rng.choice([1, 1, 2])):
        ops = []
        for _ in range(rng.randint(1, 3)):
            k = rng.choice(['scale', 'set', 'fill', 'add', 'vertex', 'vertex', 'normal',
                            'scene_none', 'scene_none', 'scene_set', 'asset_title', 'light_color', 'camera_znear',
                            'effect_float', 'material_name', 'node_name', 'node_transform', 'double_sided'])
            op = {'op': k, 'geom': rng.randrange(8), 'src': rng.randrange(8), 'prim': rng.randrange(8),
                  'row': rng.randrange(64), 'col': rng.randrange(8), 'i': rng.randrange(8), 'pos': rng.randrange(8)}
            if k == 'scale':
                op['k'] = rng.choice([2.0, 0.5, -1.0, 3.0, 1.0000001, c01gen.dec7(rng) or 2.0])
            elif k == 'add':
                op['k'] = rng.choice([1.0, -0.25, 1e-3, c01gen.dec7(rng)])
            elif k == 'set':
                op['v'] = c01gen.any_double(rng)
            elif k == 'fill':
                op['values'] = [c01gen.any_double(rng) for _ in range(rng.randint(1, 5))]
            elif k in ('vertex', 'normal'):
                op['v'] = [c01gen.any_double(rng) for _ in range(3)]
            elif k == 'node_transform':
                op['v'] = [c01gen.dec7(rng) for _ in range(3)]
            elif k in ('asset_title', 'material_name', 'node_name'):
                op['v'] = rng.choice(c01gen.WORDS) + ' edited'
            elif k == 'light_color':
                op['v'] = c01gen.color(rng, 3)
            elif k == 'camera_znear':
                op['v'] = c01gen.pos7(rng, 1e-3, 5.0)
            elif k == 'effect_float':
                op['prop'] = rng.choice(['shininess', 'reflectivity', 'transparency', 'index_of_refraction'])
                op['v'] = c01gen.pos7(rng, 1e-3, 100.0)
            ops.append(op)
        rounds.append(ops)
    return rounds


def gen_prog(rng, i):
    prog = c01gen.gen_program(rng, i)
    r = rng.random()
    if r < 0.12:
        prog['_derive'] = 'ns15'
    elif r < 0.24:
        prog['_derive'] = 'noscene'
    if prog.get('_derive') != 'ns15' and rng.random() < 0.35:
        prog['_edits'] = gen_edits(rng)
    return prog


def relocate_newparams(text, rng):
    """schema-valid and common in exported files, never written by pycollada: (a suffix of) an
    effect's <newparam> elements inside <technique> instead of <profile_COMMON>"""
    import re
    moved = [0]

    def one(m):
        block = m.group(0)
        t = re.search(r'<((?:\w+:)?)technique\b[^>]*>', block)
        if t is None or t.group(0).endswith('/>'):
            return block
        head, tail = block[:t.start()], block[t.end():]
        params = list(re.finditer(r'<(?:\w+:)?newparam\b.*?</(?:\w+:)?newparam\s*>', head, re.S))
        if not params:
            return block
        k = rng.randint(0, len(params) - 1) if rng.random() < 0.5 else 0     # move params[k:]
        cut = params[k].start()
        moved[0] += len(params) - k
        kept = head[:cut] + re.sub(r'<(?:\w+:)?newparam\b.*?</(?:\w+:)?newparam\s*>', '', head[cut:], flags=re.S)
        return kept + t.group(0) + ''.join(pm.group(0) for pm in params[k:]) + tail
    out = re.sub(r'<(?:\w+:)?profile_COMMON\b.*?</(?:\w+:)?profile_COMMON\s*>', one, text, flags=re.S)
    return out, moved[0]


def gen_xml_prog(rng, i):
    """a LOADED document the writer never produced: harness/gen/xmldocs.py (string templates;
    strips, fans, several <p>, newparams inside <technique>, <param ref>, extras, odd number
    formats, forward instance_node ...)"""
    from harness.gen import xmldocs
    ns = xmldocs.NS_15 if rng.random() < 0.08 else xmldocs.NS_141
    data, desc = xmldocs.gen_document(rng, size=rng.choice([0, 1, 1, 2]), ns=ns)
    text = data.decode('utf-8') if isinstance(data, bytes) else data
    moved = 0
    if rng.random() < 0.5:
        text, moved = relocate_newparams(text, rng)
    prog = {'xml': text, 'ns': ns, '_newparams_in_technique': moved,
            'images': [], 'effects': [], 'materials': [], 'geometries': [], 'lights': [], 'cameras': [],
            'nodes': [], 'scenes': [], 'scene': None}
    # input-feature predicate of a known finding: a strip/fan whose <vertices> has further inputs
    prog['_strip_with_vertices_inputs'] = any(
        len(g['vertices']['inputs']) > 1 and any(pr['tag'] in ('tristrips', 'trifans') for pr in g['prims'])
        for g in desc['geometries'] if g.get('vertices'))
    if ns == xmldocs.NS_141 and rng.random() < 0.3:
        prog['_edits'] = gen_edits(rng)
    return prog


def crashed(case, reason):
    return {'stage': 'worker', 'error': 'crash-or-hang', 'trace': reason, 'snaps': [], 'digests': [], 'streams': [], 'sizes': []}


def run_progs(progs, chunk=25):
    from concurrent.futures import ThreadPoolExecutor
    chunks = [progs[i:i + chunk] for i in range(0, len(progs), chunk)]

    def one(ch):
        return core.run_cases_bisect('c01', ch, lambda cs: {'cases': cs}, crashed, timeout=300)
    with ThreadPoolExecutor(max_workers=core.NCPU) as ex:
        outs = list(ex.map(one, chunks))
    return [r for out in outs for r in out]


def corpus_files():
    d = os.path.join(core.REPO, 'collada', 'tests', 'data')
    return [[os.path.join(d, f), f] for f in sorted(os.listdir(d)) if f.lower().endswith(('.dae', '.zip', '.zae'))]


def crashed_corpus(case, reason):
    return {'file': case[1], 'loadable': True, 'stage': 'worker', 'error': 'crash-or-hang', 'trace': reason,
            'digests': [], 'nsnaps': 0}


def run_corpus(files):
    return core.run_cases_bisect('c01', files, lambda cs: {'corpus': cs}, crashed_corpus, timeout=600)


# ------------------------------------------------------------------ the property's clauses

def ns_of(rec):
    st = rec.get('streams') or []
    return st[0].get('ns') if st else None


def clause_failures(rec, derived=None, root_ns=None, strip_vtx=False):
    """evaluate C01's clauses on one pipeline record; returns [(signature, clause, what)]"""
    out = _clause_failures(rec, derived, root_ns)
    if strip_vtx:
        # known finding: the <triangles> recreated for a loaded strip/fan repeats the inputs that
        # <vertices> also keeps, so the reloaded primitive has them twice
        coll, rest = [], []
        for sig, clause, what in out:
            if sig.startswith('C01:roundtrip:geometries.primitives.'):
                if not coll:
                    coll.append(('C01:roundtrip-loaded:strip-or-fan-with-vertices-inputs', 'roundtrip', what))
            else:
                rest.append((sig, clause, what))
        out = coll + rest
    if root_ns not in (None, NS141) and out:
        # Documents in a non-default namespace: every save() creates and looks up elements in the
        # 1.4.1 namespace.  Either write() raises (signature ...:<exception class>), or it "succeeds"
        # and the output mixes namespaces, so that it does not reload to an equivalent model; all
        # manifestations of the second kind share one signature (the input predicate is the narrow part).
        sig0, clause0, what0 = out[0]
        if not (rec.get('error') and ((rec.get('stage') or '').startswith('write') or rec.get('stage') == 'worker')):
            return [('C01:write-after-load:non-default-namespace:output-in-default-namespace', 'write-after-load',
                     'document in namespace %s: write() produced a document that does not reload to an equivalent model (%s)'
                     % (root_ns, what0))]
    return out


def _clause_failures(rec, derived=None, root_ns=None):
    out = []
    if rec.get('not_loadable'):
        return out          # a generated XML document that does not load is outside C01
    if rec.get('error'):
        stage = rec.get('stage') or 'worker'
        clause = STAGE_CLAUSE.get(stage, stage)
        site = stage
        if root_ns not in (None, NS141) and stage.startswith('write'):
            clause, site = 'write-after-load', 'non-default-namespace'
        elif derived is not None or root_ns is not None:
            # for loaded documents the first write is already a write after a load
            clause = {'write1': 'write-after-load', 'load1': 'written-document-loads'}.get(stage, clause)
        out.append(('C01:%s:%s:%s' % (clause, site, rec['error']), clause,
                    '%s raised %s%s' % (stage, rec['error'], (': ' + rec.get('trace', '').strip().split('\n')[-1][:160]))))
        return out
    snaps = rec.get('snaps')
    if snaps is not None:
        d01 = cmp.diff(snaps[0], snaps[1], approx=True)
        d12 = cmp.diff(snaps[1], snaps[2], approx=False)
    else:
        d01, d12 = rec.get('diff01') or [], rec.get('diff12') or []
    seen = set()
    for path, a, b in d01:
        site = cmp.site_of(path)
        if site in seen:
            continue
        seen.add(site)
        out.append(('C01:roundtrip:%s' % site, 'roundtrip',
                    'reloaded model differs from the written one at %s: %r -> %r' % (path, a, b)))
    seen = set()
    for path, a, b in d12:
        site = cmp.site_of(path)
        if site in seen:
            continue
        seen.add(site)
        out.append(('C01:fixed-point-model:%s' % site, 'fixed-point-model',
                    'generation 2 of the model differs from generation 1 at %s: %r -> %r' % (path, a, b)))
    dg = rec.get('digests') or []
    if len(dg) == 3 and dg[1] != dg[2]:
        out.append(('C01:fixed-point-bytes:gen2-vs-gen3', 'fixed-point-bytes',
                    'bytes written from generation 1 and from generation 2 differ (%s vs %s bytes)' % tuple(rec.get('sizes', [0, 0, 0])[1:3])))
    return out


def failures_from(items, limit=8):
    """items: (input, record, derived, root_ns) -> one failure per distinct signature"""
    out, seen = [], set()
    for inp, rec, derived, root_ns, strip_vtx in items:
        for sig, clause, what in clause_failures(rec, derived, root_ns, strip_vtx):
            if sig in seen:
                continue
            seen.add(sig)
            out.append({'signature': sig, 'clause': clause, 'what': what, 'input': inp,
                        'detail': {'stage': rec.get('stage'), 'error': rec.get('error'), 'trace': rec.get('trace')}})
            if len(out) >= limit:
                return out
    return out


# ------------------------------------------------------------------ encoding (numeric correspondence)

class Tables(object):
    def __init__(self):
        self.vid, self.tid = {}, {}
        self.fmt, self.parse = {}, {}

    def v(self, x):
        k = float(x).hex()
        if k not in self.vid:
            self.vid[k] = len(self.vid) + 1
        return self.vid[k]

    def t(self, s):
        if s not in self.tid:
            self.tid[s] = len(self.tid) + 1
        return self.tid[s]

    def close(self, x, depth=3):
        """table entries for x, norm x, norm (norm x) computed with the runtime"""
        for _ in range(depth):
            tok = fmt7(x)
            self.fmt[self.v(x)] = self.t(tok)
            y = parse32(tok)
            self.parse[self.t(tok)] = self.v(y)
            x = y


def flat(a):
    return [] if a is None else a['v']


def ints(toks):
    out = []
    for t in toks:
        try:
            out.append(int(t))
        except ValueError:
            out.append(-999999)
    return out


def c_case(rec):
    """Coq term for the numeric streams of one (non-derived, error-free) program, or None"""
    snaps, st = rec['snaps'], rec['streams']
    if len(snaps) < 3 or len(st) < 2:
        return None
    T = Tables()
    f1 = dict(((g, s), toks) for g, s, toks in st[0]['floats'])
    f2 = dict(((g, s), toks) for g, s, toks in st[1]['floats'])
    srcs, idxs = [], []
    for gi, g0 in enumerate(snaps[0]['geometries']):
        g1, g2 = snaps[1]['geometries'][gi], snaps[2]['geometries'][gi]
        gid = g0['id']
        for si, s0 in enumerate(g0['sources']):
            d0 = flat(s0['data'])
            d1, d2 = flat(g1['sources'][si]['data']), flat(g2['sources'][si]['data'])
            t1, t2 = f1.get((gid, s0['id']), ['<missing>']), f2.get((gid, s0['id']), ['<missing>'])
            for x in d0 + d1:
                T.close(x)
            srcs.append(ctuple(clist([cN(T.v(x)) for x in d0]), clist([cN(T.t(t)) for t in t1]),
                               clist([cN(T.v(x)) for x in d1]), clist([cN(T.t(t)) for t in t2]),
                               clist([cN(T.v(x)) for x in d2])))
        p1 = [x for x in st[0]['ints'] if x[0] == gid]
        p2 = [x for x in st[1]['ints'] if x[0] == gid]
        for pi, pr in enumerate(g0['primitives']):
            i0 = flat(pr['index'])
            i1, i2 = flat(g1['primitives'][pi]['index']), flat(g2['primitives'][pi]['index'])
            t1 = ints(p1[pi][2]) if pi < len(p1) else [-999999]
            t2 = ints(p2[pi][2]) if pi < len(p2) else [-999999]
            idxs.append(ctuple(*[clist([cZ(int(z)) for z in l]) for l in (i0, t1, i1, t2, i2)]))
    fmt = clist([ctuple(cN(a), cN(b)) for a, b in sorted(T.fmt.items())])
    par = clist([ctuple(cN(a), cN(b)) for a, b in sorted(T.parse.items())])
    return ctuple(fmt, par, clist(srcs), clist(idxs)), len(srcs), len(idxs)


# ------------------------------------------------------------------ run / replay

def evaluate(progs, results):
    items = []
    for p, r in zip(progs, results):
        root_ns = None
        derived = p.get('_derive')
        if 'xml' in p:
            derived, root_ns = 'xml', p.get('ns', NS141)
        elif derived == 'ns15':
            root_ns = 'http://www.collada.org/2008/03/COLLADASchema'
        elif derived:
            root_ns = NS141
        items.append(({'program': p}, r, derived, root_ns, bool(p.get('_strip_with_vertices_inputs'))))
    return items


def corpus_items(files, recs):
    items = []
    for (path, rel), r in zip(files, recs):
        if not r.get('loadable'):
            continue
        ns = NS141
        try:
            head = open(path, 'rb').read(4000)
            if b'2008/03/COLLADASchema' in head or rel.startswith('wam'):
                ns = 'http://www.collada.org/2008/03/COLLADASchema'
        except Exception:  # noqa
            pass
        items.append(({'corpus_file': rel}, r, 'corpus', ns, False))
    return items


def run(ctx):
    build_ok, obl, regen = core.std_setup(ctx)
    quick = ctx.quick()
    nprog = 300 if quick else 5000
    progs = []
    cdir = os.path.join(core.VERIF, 'corpus', 'C01')
    if os.path.isdir(cdir):
        for fn in sorted(os.listdir(cdir)):
            if fn.endswith('.json'):
                w = json.load(open(os.path.join(cdir, fn)))
                if 'program' in w:
                    progs.append(w['program'])
    ncorpus_progs = len(progs)
    progs += [gen_prog(ctx.rng, i) for i in range(nprog)]
    nxml = 150 if quick else 2500
    xrng = random.Random(ctx.seed + 41)
    progs += [gen_xml_prog(xrng, i) for i in range(nxml)]
    ctx.log('running %d constructor programs (write/load x3) and the shipped documents on the implementation' % len(progs))
    results = run_progs(progs)
    files = corpus_files()
    crecs = run_corpus(files)
    # ---- numeric correspondence inside Coq
    terms, owners, nsrc, nidx = [], [], 0, 0
    for i, (p, r) in enumerate(zip(progs, results)):
        if r.get('error') or p.get('_derive') or 'xml' in p:
            continue
        try:
            enc = c_case(r)
        except (IndexError, KeyError, TypeError):
            enc = None      # shapes differ between generations: the direct oracle reports that
        if enc is None:
            continue
        terms.append(enc[0])
        owners.append(i)
        nsrc += enc[1]
        nidx += enc[2]
    ctx.log('evaluating %d float sources and %d index streams against the model inside Coq' % (nsrc, nidx))
    bad, errors = core.coq_eval_cases(ctx, HEADER, 'C01.case', terms, 'C01.mismatches', chunk=20, label='numeric')
    # ---- the Gallina '%.7g' / binary32 definitions against the runtime, bit for bit
    nnum = 12000 if quick else 200000
    nvals, nterms = numfmt_cases(random.Random(ctx.seed + 29), nnum)
    bad_n, err_n = core.coq_eval_cases(ctx, NUM_HEADER, 'C01num.case', nterms, 'C01num.mismatches', chunk=500, label='numfmt')
    errors = errors + err_n
    # ---- H_num_stable on the runtime
    nstab = 20000 if quick else 1000000
    unstable = h_num_stable_sample(random.Random(ctx.seed + 17), nstab)
    if unstable:
        errors.append({'H_num_stable': 'refuted by the runtime', 'values': [float(x).hex() for x in unstable[:5]]})
    # ---- direct oracle
    items = evaluate(progs, results) + corpus_items(files, crecs)
    failures = failures_from(items)
    mismatches = [{'case_index': owners[i], 'input': {'program': progs[owners[i]]}, 'kind': 'numeric streams',
                   'explained_by_known': False} for i in bad[:10]]
    mismatches += [{'case_index': i, 'input': {'value': float(nvals[i]).hex()}, 'kind': 'Model/NumFmt.v vs the runtime',
                    'explained_by_known': False} for i in bad_n[:10]]
    # ---- distribution
    feats, seen = {}, set()
    derived = {'ns15': 0, 'noscene': 0, 'constructed': 0, 'xml-generator': 0, 'xml-generator-not-loadable': 0,
               'with-in-place-edits-between-writes': 0}
    nvalues = 0
    for p, r in zip(progs, results):
        if p.get('_edits'):
            derived['with-in-place-edits-between-writes'] += 1
        if 'xml' in p:
            derived['xml-generator-not-loadable' if r.get('not_loadable') else 'xml-generator'] += 1
            if p.get('_newparams_in_technique') and not r.get('not_loadable'):
                derived['xml-generator: newparams inside <technique>'] = derived.get('xml-generator: newparams inside <technique>', 0) + 1
            if not r.get('not_loadable'):
                seen.add(core.canon_hash(p['xml']))
            continue
        fs = c01gen.features(p)
        for f in fs:
            feats[f] = feats.get(f, 0) + 1
        derived[p.get('_derive') or 'constructed'] += 1
        if len(fs) >= 4:
            seen.add(core.canon_hash(p))
        for g in p['geometries']:
            nvalues += sum(len(s['data']) for s in g['sources'])
    corr = {
        'evaluations': len(progs) + len(files) + len(nterms),
        'distinct_nontrivial': len(seen),
        'rule': 'constructor programs over the public API (asset, images, effects with surfaces/samplers/maps, materials, '
                'geometries with 0-3 primitives of every kind and shared/distinct/mixed/gapped input layouts, all lights and '
                'cameras, library nodes, scenes with nested nodes, every transform and instance kind, node instancing); '
                'source values are arbitrary doubles < 1e9 incl. the coarse float32 binades, parameters have <= 7 digits; '
                '12 % re-read in the 1.5 namespace, 12 % without <scene>, 30 % of those with geometry with in-place numpy edits of '
                'source data / bound arrays between writes; plus documents of the independent XML generator '
                '(harness/gen/xmldocs.py) that load, taken through load -> [write, edit]* -> write -> load -> write -> load -> write; non-trivial = at least four distinct features; '
                'distinct = different program; plus every shipped document; plus the NumFmt values compared inside Coq',
        'samples': [{'program_features': sorted(c01gen.features(p)), 'stage_error': r.get('error'), 'bytes': r.get('sizes')}
                    for p, r in list(zip(progs, results))[ncorpus_progs:ncorpus_progs + 3]],
        'distribution': {'features': feats, 'documents': derived, 'source_values': nvalues,
                         'float_sources_in_coq': nsrc, 'index_streams_in_coq': nidx, 'programs_in_coq': len(terms),
                         'h_num_stable_samples': nstab, 'numfmt_values_in_coq': len(nterms),
                         'shipped_documents': dict((r['file'], 'loadable' if r.get('loadable') else 'not loadable (%s)' % r.get('load_error'))
                                                   for r in crecs)},
        'mismatches': mismatches,
        'errors': errors,
    }

    def search(mm):
        extra = [gen_prog(ctx.rng, i) for i in range(600)] + [gen_xml_prog(xrng, i) for i in range(300)]
        return failures_from(evaluate(extra, run_progs(extra)))

    return core.finish(
        ctx, obligations=obl, regen=regen, build_ok=build_ok, corr=corr, failures=failures, search=search,
        trusted_base=core.BASE_TRUST + [
            'H_num_stable (parse32 o fmt7 idempotent for the runtime\'s %.7g and float32 rounding): a Section hypothesis of '
            'C01_source_roundtrip / C01_doc_roundtrip_partial, exercised on every run (20 000 sampled values, and per case '
            'inside Coq on every value that occurs); H_int (str/int exact on int32)',
            'class codecs other than float sources and index streams are hypotheses of C01_doc_roundtrip_partial '
            '(discharged by the C05/C06/C07 families); the property\'s clauses are evaluated directly on the implementation',
            'canonical snapshot (harness/impl/c01_snapshot.py) and the seven-digit comparator (harness/impl/c01_compare.py)',
        ],
        assumptions=['numbers other than source data are generated with at most seven significant digits (for longer '
                     'inputs float32 parsing of str(x) can move the seventh digit by one through double rounding)',
                     'an effect with opaque_mode RGB_ZERO and transparent=None, a unit name without meter, empty strings '
                     'and forward references between library nodes have no (order-preserving) representation in a '
                     'document and are not generated'])


def replay(ctx, body):
    inp = body.get('input') or (body.get('mismatching_cases') or [{}])[0].get('input')
    if not inp:
        print('replay: nothing to run')
        return 0
    if 'value' in inp:
        print('replay: model-of-runtime case (Model/NumFmt.v), nothing to evaluate on pycollada')
        return 0
    if 'corpus_file' in inp:
        files = [f for f in corpus_files() if f[1] == inp['corpus_file']]
        items = corpus_items(files, run_corpus(files))
    else:
        items = evaluate([inp['program']], run_progs([inp['program']]))
    fails = failures_from(items)
    print(json.dumps([{k: f[k] for k in ('signature', 'what')} for f in fails], indent=1))
    known = {k['signature'] for k in core.load_known() if k.get('property') == 'C01'}
    want = body.get('signature')
    relevant = [f for f in fails if f['signature'] == want or f['signature'] not in known]
    if relevant:
        print('VIOLATION property=C01 replay=%s' % body.get('replay_cmd', '').split()[-1])
        return 1
    print('replay: the property clauses hold on this input now (known findings aside)')
    return 0
