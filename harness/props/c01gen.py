"""Generator of constructor programs over pycollada's public API (C01).  A program is plain JSON;
harness/impl/c01.py interprets it.  Every random choice comes from the rng passed in."""
import math
import struct

SEMANTIC_COMPONENTS = {'NORMAL': ['X', 'Y', 'Z'], 'TEXCOORD': ['S', 'T'], 'TEXTANGENT': ['X', 'Y', 'Z'],
                       'TEXBINORMAL': ['X', 'Y', 'Z'], 'COLOR': ['R', 'G', 'B'], 'TANGENT': ['X', 'Y', 'Z'],
                       'BINORMAL': ['X', 'Y', 'Z']}
WORDS = ['alpha', 'Beta', 'gamma-3', 'delta_4', 'Eps.ilon', 'zeta', 'eta7', 'Theta']


def f32(x):
    return struct.unpack('f', struct.pack('f', x))[0]


def any_double(rng):
    """arbitrary finite double, |x| < 1e9, with the coarse float32 binades well represented"""
    r = rng.random()
    if r < 0.08:
        return float(rng.choice([0, 1, -1, 2, 10, 255, -0.0, 0.5, -0.25, 1000000, 16777216, 16777217]))
    if r < 0.22:
        x = rng.uniform(2.0 ** -10, 1e-3)           # float32 coarser than 7 decimal digits
    elif r < 0.32:
        x = rng.uniform(2.0 ** -30, 1e-9)
    elif r < 0.40:
        x = rng.uniform(2.0 ** -20, 1e-6)
    elif r < 0.50:
        x = 10.0 ** rng.uniform(-12, 9) * 0.999999
    elif r < 0.58:
        x = float('%.7g' % (10.0 ** rng.uniform(-6, 8)))      # exactly seven digits
    elif r < 0.64:
        m = rng.randint(1000000, 9999999)                     # half-way cases of the seven-digit rounding
        x = (m + 0.5) * 10.0 ** rng.randint(-9, 1)
    else:
        x = rng.uniform(-1, 1) * 10.0 ** rng.randint(-3, 4)
    if rng.random() < 0.4:
        x = -x
    if abs(x) >= 1e9:
        x = x / 1e3
    return x


def dec7(rng):
    """a number with at most seven significant digits (what a user types for a parameter)"""
    r = rng.random()
    if r < 0.25:
        return float(rng.choice([0.0, 1.0, -1.0, 0.5, 2.0, 45.0, 90.0, 0.25, 100.0, 0.1, 0.3, -7.25]))
    if r < 0.35:
        x = rng.uniform(2.0 ** -10, 1e-3)
    elif r < 0.42:
        x = rng.uniform(2.0 ** -30, 1e-9)
    else:
        x = rng.uniform(-1, 1) * 10.0 ** rng.randint(-3, 8)
    return float('%.7g' % x)


def pos7(rng, lo=1e-3, hi=1e4):
    return float('%.7g' % (10.0 ** rng.uniform(math.log10(lo), math.log10(hi))))


def color(rng, n=None):
    n = n or rng.choice([3, 4, 4])
    if rng.random() < 0.15:
        return [rng.choice([0, 1]) for _ in range(n)]          # ints, as users write (1, 0, 0)
    return [float('%.7g' % rng.random()) if rng.random() < 0.8 else dec7(rng) for _ in range(n)]


class Gen(object):
    def __init__(self, rng, idx):
        self.rng = rng
        self.n = 0
        self.idx = idx

    def ident(self, stem):
        self.n += 1
        return '%s%d_%s' % (stem, self.n, self.rng.choice(WORDS)) if self.rng.random() < 0.3 else '%s%d' % (stem, self.n)

    def text(self):
        rng = self.rng
        return ' '.join(rng.choice(WORDS + ['a b', 'x<y', 'q&r', 'café']) for _ in range(rng.randint(1, 3)))

    # ---- geometry
    def source(self, comps, n):
        rng = self.rng
        dtype = rng.choice(['f4', 'f8', 'f8'])
        data = [any_double(rng) for _ in range(n * len(comps))]
        if dtype == 'f4':
            data = [f32(x) for x in data]
        return {'id': self.ident('src'), 'components': comps, 'data': data, 'dtype': dtype}

    def geometry(self):
        rng = self.rng
        g = {'id': self.ident('geom'), 'name': rng.choice(['', self.text(), 'mesh']), 'double_sided': rng.random() < 0.3,
             'sources': [], 'prims': []}
        npos = rng.randint(3, 8)
        pos = self.source(['X', 'Y', 'Z'], npos)
        g['sources'].append(pos)
        extra = []
        for sem in ('NORMAL', 'TEXCOORD', 'TEXCOORD', 'TEXTANGENT', 'TEXBINORMAL', 'COLOR'):
            if rng.random() < (0.5 if sem in ('NORMAL', 'TEXCOORD') else 0.15):
                s = self.source(SEMANTIC_COMPONENTS[sem], rng.randint(1, 6))
                g['sources'].append(s)
                extra.append((sem, s))
        if rng.random() < 0.15:
            g['sources'].append(self.source(['X', 'Y', 'Z'], 2))     # a source no primitive uses
        for _ in range(rng.choice([0, 1, 1, 1, 2, 3])):
            kind = rng.choice(['triangles', 'triangles', 'lines', 'polylist', 'polygons'])
            if kind == 'lines':
                use = [e for e in extra if e[0] in ('NORMAL', 'TEXCOORD', 'COLOR') and rng.random() < 0.5]
            else:
                use = [e for e in extra if rng.random() < 0.7]
            layout = rng.choice(['shared', 'distinct', 'mixed', 'gapped'])
            inputs = [[0, 'VERTEX', pos['id'], None]]
            limits = {0: npos}
            nextoff = 1
            nset = 0
            for sem, s in use:
                if layout == 'shared':
                    off = 0
                elif layout == 'distinct':
                    off = nextoff
                elif layout == 'mixed':
                    off = rng.randint(0, nextoff)
                else:
                    off = nextoff + rng.randint(0, 1)
                nextoff = max(nextoff, off + 1)
                st = None
                if sem in ('TEXCOORD', 'TEXTANGENT', 'TEXBINORMAL'):
                    st = rng.choice([None, str(nset)])
                    nset += 1
                inputs.append([off, sem, s['id'], st])
                limits[off] = min(limits.get(off, 10 ** 9), len(s['data']) // len(s['components']))
            nind = max(i[0] for i in inputs) + 1
            if rng.random() < 0.3:
                rng.shuffle(inputs)

            def row():
                return [rng.randrange(limits.get(o, 3)) for o in range(nind)]
            p = {'kind': kind, 'material': rng.choice([None, 'sym%d' % rng.randint(0, 2)]), 'inputs': inputs,
                 'index_form': rng.choice(['array', 'int64'])}
            empty = rng.random() < 0.08
            if kind == 'triangles':
                nt = 0 if empty else rng.randint(1, 4)
                p['index'] = [v for _ in range(3 * nt) for v in row()]
            elif kind == 'lines':
                nl = 0 if empty else rng.randint(1, 4)
                p['index'] = [v for _ in range(2 * nl) for v in row()]
            elif kind == 'polylist':
                vc = [] if empty else [rng.randint(3, 5) for _ in range(rng.randint(1, 3))]
                p['vcounts'] = vc
                p['index'] = [v for _ in range(sum(vc)) for v in row()]
            else:
                polys = [] if empty else [rng.randint(3, 5) for _ in range(rng.randint(1, 3))]
                p['index'] = [[v for _ in range(k) for v in row()] for k in polys]
            g['prims'].append(p)
        return g

    # ---- effects
    def effect(self, nimages):
        rng = self.rng
        e = {'id': self.ident('fx'), 'shadingtype': rng.choice(['phong', 'lambert', 'blinn', 'constant']),
             'params': [], 'props': {}, 'double_sided': rng.random() < 0.3,
             'opaque_mode': rng.choice([None, None, 'A_ONE', 'RGB_ZERO'])}
        samplers = []
        if nimages and rng.random() < 0.6:
            for _ in range(rng.randint(1, 2)):
                e['params'].append({'kind': 'surface', 'id': self.ident('surf'), 'image': rng.randrange(nimages),
                                    'format': rng.choice([None, 'A8R8G8B8', 'R8G8B8'])})
                si = len(e['params']) - 1
                e['params'].append({'kind': 'sampler', 'id': self.ident('samp'), 'surface': si,
                                    'minfilter': rng.choice([None, 'LINEAR', 'NEAREST']),
                                    'magfilter': rng.choice([None, 'LINEAR', 'LINEAR_MIPMAP_LINEAR'])})
                samplers.append(len(e['params']) - 1)
        for prop in ('emission', 'ambient', 'diffuse', 'specular', 'reflective', 'transparent'):
            r = rng.random()
            if r < 0.35:
                continue                    # constructor default
            if r < 0.55 and samplers:
                e['props'][prop] = {'sampler': rng.choice(samplers), 'texcoord': rng.choice(['UVSET0', 'TEX0', 'CHANNEL1'])}
            elif r < 0.62:
                e['props'][prop] = None
            else:
                e['props'][prop] = color(rng)
        for prop in ('shininess', 'reflectivity', 'transparency', 'index_of_refraction'):
            r = rng.random()
            if r < 0.4:
                continue
            if r < 0.5:
                e['props'][prop] = None
            else:
                e['props'][prop] = pos7(rng, 1e-3, 200.0) if rng.random() < 0.8 else float(rng.choice([0.0, 1.0, 50.0]))
        if samplers and rng.random() < 0.2:
            e['bumpmap'] = {'sampler': rng.choice(samplers), 'texcoord': 'BUMPUV'}
        if 'transparent' in e['props'] and e['props']['transparent'] is None and e['opaque_mode'] == 'RGB_ZERO':
            # COLLADA keeps the opaque mode as an attribute of <transparent>: without that element
            # the mode has no representation in a document (outside the writer's domain)
            e['opaque_mode'] = None
        return e

    # ---- lights, cameras
    def light(self):
        rng = self.rng
        k = rng.choice(['ambient', 'directional', 'point', 'spot'])
        l = {'kind': k, 'id': self.ident('light'), 'color': color(rng), 'form': rng.choice(['tuple', 'tuple', 'list', 'nparray', 'np64'])}
        if k == 'point':
            l['params'] = dict((nm, pos7(rng) if rng.random() < 0.8 else rng.choice([0.0, 1.0]))
                               for nm in ('constant_att', 'linear_att', 'quad_att', 'zfar') if rng.random() < 0.6)
        if k == 'spot':
            l['params'] = dict((nm, pos7(rng) if rng.random() < 0.8 else rng.choice([0.0, 1.0]))
                               for nm in ('constant_att', 'linear_att', 'quad_att', 'falloff_ang', 'falloff_exp')
                               if rng.random() < 0.6)
        return l

    def camera(self):
        rng = self.rng
        k = rng.choice(['perspective', 'orthographic'])
        a, b = ('xfov', 'yfov') if k == 'perspective' else ('xmag', 'ymag')
        combo = rng.choice([[a], [b], [a, b], [a, 'aspect_ratio'], [b, 'aspect_ratio']])
        return {'kind': k, 'id': self.ident('cam'), 'form': rng.choice(['py', 'py', 'np64']),
                'znear': pos7(rng, 1e-3, 10.0), 'zfar': pos7(rng, 10.0, 1e6),
                'params': dict((nm, pos7(rng, 0.1, 120.0)) for nm in combo)}

    # ---- scene graph
    def transform(self):
        rng = self.rng
        k = rng.choice(['translate', 'rotate', 'scale', 'matrix', 'lookat'])
        form = rng.choice(['py', 'py', 'np64', 'np32', 'nparray', 'int'])
        if k == 'translate':
            return {'kind': k, 'params': [dec7(rng) if form != 'int' else float(rng.randint(-9, 9)) for _ in range(3)], 'form': form}
        if k == 'scale':
            return {'kind': k, 'params': [dec7(rng) if form != 'int' else float(rng.randint(1, 9)) for _ in range(3)], 'form': form}
        if k == 'rotate':
            axis = rng.choice([[1.0, 0.0, 0.0], [0.0, 1.0, 0.0], [0.0, 0.0, 1.0], [dec7(rng) for _ in range(3)]])
            return {'kind': k, 'params': axis + [float('%.7g' % rng.uniform(-360, 360))],
                    'form': form if form != 'int' else 'np64'}
        if k == 'matrix':
            dt = rng.choice(['f4', 'f8'])
            vals = [dec7(rng) for _ in range(16)]
            if dt == 'f4':
                vals = [f32(v) for v in vals]
            return {'kind': k, 'params': vals, 'dtype': dt}
        eye = [dec7(rng) for _ in range(3)]
        interest = [e + rng.choice([1.0, -2.0, 0.5]) for e in eye]
        interest = [float('%.7g' % v) for v in interest]
        return {'kind': k, 'params': eye + interest + rng.choice([[0.0, 1.0, 0.0], [0.0, 0.0, 1.0]])}

    def node(self, depth, prog, libnodes, named):
        rng = self.rng
        nid = self.ident('node')
        n = {'id': nid, 'name': rng.choice([None, None, self.text()]),
             'transforms': [self.transform() for _ in range(rng.choice([0, 0, 1, 1, 2, 3]))], 'children': []}
        for _ in range(rng.choice([0, 1, 1, 2, 3])):
            r = rng.random()
            if r < 0.3 and depth < 3:
                n['children'].append(self.node(depth + 1, prog, libnodes, named))
            elif r < 0.55 and prog['geometries']:
                gi = rng.randrange(len(prog['geometries']))
                mats = []
                if prog['materials']:
                    syms = sorted({p['material'] for p in prog['geometries'][gi]['prims'] if p['material']})
                    for s in syms + (['unused'] if rng.random() < 0.2 else []):
                        if rng.random() < 0.8:
                            inputs = [[rng.choice(['UVSET0', 'TEX0']), 'TEXCOORD', rng.choice(['0', '1'])]
                                      for _ in range(rng.choice([0, 0, 1, 2]))]
                            mats.append({'symbol': s, 'target': rng.randrange(len(prog['materials'])), 'inputs': inputs})
                n['children'].append({'inst': 'geometry', 'idx': gi, 'materials': mats})
            elif r < 0.68 and prog['lights']:
                n['children'].append({'inst': 'light', 'idx': rng.randrange(len(prog['lights']))})
            elif r < 0.8 and prog['cameras']:
                n['children'].append({'inst': 'camera', 'idx': rng.randrange(len(prog['cameras']))})
            elif r < 0.95 and libnodes:
                n['children'].append({'inst': 'node', 'ref': rng.choice(libnodes)})
        return n

    def attach(self, spec, ref):
        """hang an instance of node `ref` somewhere in the subtree of the top-level node `spec`"""
        rng = self.rng
        holders = []

        def walk(n):
            if 'inst' not in n:
                holders.append(n)
                for c in n['children']:
                    walk(c)
        walk(spec)
        h = rng.choice(holders) if rng.random() < 0.5 else spec
        h['children'].insert(rng.randint(0, len(h['children'])), {'inst': 'node', 'ref': ref})

    def wire(self, group):
        """instance_node edges inside one id scope.  An edge a -> b needs rank[a] > rank[b], so the
        graph is acyclic; ranks are independent of document order, hence forward references."""
        rng = self.rng
        n = len(group)
        if n < 2:
            return
        mode = rng.choice(['none', 'forward-chain', 'backward-chain', 'random-chain', 'random', 'random'])
        if mode == 'none':
            return
        order = list(range(n))              # order[0] is the leaf, every later one may use earlier ones
        if mode == 'forward-chain':
            order.reverse()                 # first node instantiates the second, which instantiates the third ...
        elif mode != 'backward-chain':
            rng.shuffle(order)
        if mode.endswith('chain'):
            for a, b in zip(order[1:], order[:-1]):
                self.attach(group[a], group[b]['id'])
        else:
            for i in range(n):
                for j in range(i):
                    if rng.random() < 0.4:
                        self.attach(group[order[i]], group[order[j]]['id'])

    def program(self):
        rng = self.rng
        prog = {'images': [], 'effects': [], 'materials': [], 'geometries': [], 'lights': [], 'cameras': [],
                'nodes': [], 'scenes': [], 'scene': None}
        if rng.random() < 0.8:
            a = {'created': '2019-03-0%dT10:20:30' % rng.randint(1, 9), 'modified': '2021-11-1%dT01:02:03' % rng.randint(0, 9),
                 'upaxis': rng.choice([None, 'X_UP', 'Y_UP', 'Z_UP']), 'contributors': []}
            for k in ('title', 'subject', 'revision', 'keywords'):
                if rng.random() < 0.5:
                    a[k] = self.text()
            if rng.random() < 0.5:
                a['unitname'] = rng.choice(['meter', 'inch', 'centimetre'])
                a['unitmeter'] = rng.choice([1.0, 0.0254, 0.01, pos7(rng)])
            for _ in range(rng.choice([0, 0, 1, 2])):
                a['contributors'].append(dict((k, self.text()) for k in
                                              ('author', 'authoring_tool', 'comments', 'copyright', 'source_data')
                                              if rng.random() < 0.5))
            prog['asset'] = a
        for _ in range(rng.choice([0, 1, 2, 3])):
            prog['images'].append({'id': self.ident('img'), 'path': rng.choice(['./tex/a.png', 'b.tga', '../c d.jpg', 'sub/e.png'])})
        for _ in range(rng.choice([0, 1, 1, 2, 3])):
            prog['effects'].append(self.effect(len(prog['images'])))
        if prog['effects']:
            for _ in range(rng.choice([0, 1, 2, 3])):
                prog['materials'].append({'id': self.ident('mat'), 'name': self.text(),
                                          'effect': rng.randrange(len(prog['effects']))})
        for _ in range(rng.choice([0, 1, 1, 2, 3])):
            prog['geometries'].append(self.geometry())
        for _ in range(rng.choice([0, 0, 1, 2, 3, 4])):
            prog['lights'].append(self.light())
        for _ in range(rng.choice([0, 0, 1, 2, 3])):
            prog['cameras'].append(self.camera())
        for _ in range(rng.choice([0, 0, 1, 2, 3, 4])):
            prog['nodes'].append(self.node(1, prog, [], None))
        libnodes = [n['id'] for n in prog['nodes']]
        for _ in range(rng.choice([0, 1, 1, 1, 2, 3])):
            prog['scenes'].append({'id': self.ident('scene'),
                                   'nodes': [self.node(0, prog, libnodes, None) for _ in range(rng.choice([0, 1, 2, 3, 4]))]})
        # node instancing among top-level nodes, in every direction: library -> library and, per
        # scene, scene node -> sibling top-level scene node; chains, forward and backward
        self.wire(prog['nodes'])
        for s in prog['scenes']:
            self.wire(s['nodes'])
        if prog['scenes'] and rng.random() < 0.8:
            prog['scene'] = rng.randrange(len(prog['scenes']))
        return prog


def gen_program(rng, idx):
    return Gen(rng, idx).program()


def features(prog):
    f = set()
    for g in prog['geometries']:
        for p in g['prims']:
            f.add('prim:' + p['kind'])
            if not p['index']:
                f.add('prim:empty')
            offs = [i[0] for i in p['inputs']]
            f.add('layout:shared' if len(set(offs)) < len(offs) else 'layout:distinct')
            if max(offs) + 1 > len(set(offs)):
                f.add('layout:gapped')
            for i in p['inputs']:
                f.add('sem:' + i[1])
    for e in prog['effects']:
        f.add('shader:' + e['shadingtype'])
        if e['params']:
            f.add('effect:params')
        if any(isinstance(v, dict) for v in e['props'].values()):
            f.add('effect:map')
        if e['opaque_mode'] == 'RGB_ZERO':
            f.add('effect:rgb_zero')
        if e.get('bumpmap'):
            f.add('effect:bumpmap')
    for l in prog['lights']:
        f.add('light:' + l['kind'])
    for c in prog['cameras']:
        f.add('camera:' + c['kind'] + ':' + '+'.join(sorted(c['params'])))

    docpos = {}
    for grp in [prog['nodes']] + [sc['nodes'] for sc in prog['scenes']]:
        for i, t in enumerate(grp):
            docpos[t['id']] = (id(grp), i)
    libids = {t['id'] for t in prog['nodes']}
    edges = {}

    def walk(n, d, top=None):
        if 'inst' in n:
            f.add('inst:' + n['inst'])
            if n['inst'] == 'node' and top is not None:
                tgt = n['ref']
                if top['id'] in libids:
                    f.add('instance_node:lib->lib:' + ('forward' if docpos[tgt][1] > docpos[top['id']][1] else 'backward'))
                elif tgt in libids:
                    f.add('instance_node:scene->lib')
                else:
                    f.add('instance_node:scene->scene:' + ('forward' if docpos[tgt][1] > docpos[top['id']][1] else 'backward'))
                edges.setdefault(top['id'], set()).add(tgt)
                if d > 1:
                    f.add('instance_node:nested-holder')
            if n.get('materials'):
                f.add('bind_material')
            return
        f.add('depth:%d' % d)
        for t in n.get('transforms', []):
            f.add('transform:' + t['kind'])
        for c in n.get('children', []):
            walk(c, d + 1, top if top is not None else n)
    for n in prog['nodes']:
        f.add('library_nodes')
        walk(n, 0)
    for s in prog['scenes']:
        for n in s['nodes']:
            walk(n, 0)
    if len(prog['scenes']) > 1:
        f.add('several-scenes')
    # chains of length >= 2: a -> b -> c
    for a, bs in edges.items():
        for b in bs:
            for c in edges.get(b, ()):
                fw = docpos[b][1] > docpos[a][1] and docpos.get(c, (0, -1))[0] == docpos[b][0] and docpos[c][1] > docpos[b][1]
                f.add('instance_node:chain2' + (':forward' if fw else ''))
    if prog.get('asset'):
        f.add('asset')
        if prog['asset']['contributors']:
            f.add('asset:contributors')
        if 'unitmeter' in prog['asset']:
            f.add('asset:unit')
    if prog['scene'] is None:
        f.add('no-default-scene')
    if prog['images']:
        f.add('images')
    return f
