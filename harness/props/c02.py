"""C02 - in-place edits are persisted exactly by save."""
import json
import os

from harness import core
from harness.core import cN, clist, ctuple
from harness.enc.atoms import Interner

PID = 'C02'
HEADER = ('From Coq Require Import List ZArith NArith.\n'
          'From PC Require Import Base.Py Model.Sync Check.C02.\n'
          'Import ListNotations.\n')
CASE_TYPE = 'C02.case'

FILES = ['duck_triangles.dae', 'duck_polylist.dae', 'trifans.dae', 'tristrips.dae', 'empty_triangles.dae',
         'empty_triangles_with_multiple_ns.dae']
NS_FILE = 'wam.dae'          # non-default namespace: known finding
LIBNAMES = ['geometries', 'lights', 'cameras', 'effects', 'materials', 'nodes', 'scenes', 'images']
HOWS = ['add', 'remove', 'replace', 'replace', 'permute', 'permute', 'reverse', 'move']


def gen_op(rng, force_adjacent=False):
    """one edit; positions are uniform over a range wider than any collection (taken modulo)"""
    R = lambda: rng.randrange(1 << 30)
    P = lambda: rng.randrange(0, 64)
    nrem = 2 if force_adjacent else rng.choice([1, 1, 1, 2, 3])
    how = 'remove' if force_adjacent else rng.choice(HOWS)
    level = rng.choices(['lib', 'geom', 'node_tr', 'node_ch', 'scene', 'bind', 'attr', 'rename', 'save'],
                        [5, 4, 5, 6, 3, 5, 6, 3, 4])[0]
    if force_adjacent:
        level = rng.choice(['lib', 'geom', 'node_tr', 'node_ch', 'scene', 'bind'])
    base = {'r': R(), 'pos': P(), 'pos2': P(), 'pos3': P(), 'n': nrem}
    if level == 'save':
        return {'op': rng.choice(['save', 'write'])}
    if level == 'lib':
        if how == 'replace' and rng.random() < 0.5:
            how = 'replace_sameid'
        return dict(base, op='lib', lib=rng.choice(LIBNAMES), how='clear' if rng.random() < 0.06 and not force_adjacent else how)
    if level == 'rename':
        return dict(base, op='lib', lib=rng.choice(LIBNAMES), how='rename')
    if level == 'geom':
        k = rng.random()
        if k < 0.3 and not force_adjacent:
            return dict(base, op='geom', gi=P(), how=rng.choice(['src_add', 'src_add', 'src_remove', 'src_remove_many', 'src_remove_many',
                                                                 'src_data', 'attr', 'revertex', 'revertex', 'src_inplace', 'src_inplace',
                                                                 'prim_convert', 'prim_convert']),
                        mode=rng.choice(['elem', 'elem', 'slice', 'mul', 'add', 'nudge', 'nudge']),
                        front=rng.random() < 0.5, some=rng.random() < 0.5, n=rng.choice([2, 2, 3, 5]))
        return dict(base, op='geom', gi=P(), how='prim_' + how, kind=rng.choice([None, 'triangles', 'polylist', 'polygons', 'lines']))
    if level == 'node_tr':
        return dict(base, op='node', ni=P(), how='tr_' + how, kind=rng.choice([None, 'translate', 'rotate', 'scale', 'matrix', 'lookat']))
    if level == 'node_ch':
        if rng.random() < 0.25 and not force_adjacent:
            return dict(base, op='node', ni=P(), how=rng.choice(['ch_moveto', 'attr', 'attr']))
        return dict(base, op='node', ni=P(), how='ch_' + how, what=rng.choice(['node', 'geom', 'geom', 'light', 'camera', 'nodeinst']))
    if level == 'scene':
        if rng.random() < 0.15 and not force_adjacent:
            return dict(base, op='scene', si=P(), how='default', none=rng.random() < 0.3)
        return dict(base, op='scene', si=P(), how='sn_' + how)
    if level == 'bind':
        k = rng.random()
        if k < 0.4 or force_adjacent:
            return dict(base, op='bind', gi=P(), how='bm_' + how)
        if k < 0.65:
            return dict(base, op='bind', gi=P(), how='bvi_' + how)
        return dict(base, op='bind', gi=P(), how=rng.choice(['symbol', 'target', 'retarget']))
    if rng.random() < 0.2:
        return dict(base, op='geom', gi=P(), how='attr')
    return dict(base, op='attr', what=rng.choice(['light', 'camera', 'material', 'effect', 'effect', 'image', 'asset', 'unset', 'unset']))


def gen_cycle(rng):
    """a managed collection driven through its extreme states with a save at each of them:
    fill, SAVE, empty, SAVE, refill, SAVE (the selectors stay fixed so that the same collection is
    addressed throughout)"""
    R = lambda: rng.randrange(1 << 30)
    P = rng.randrange(0, 64)
    P2 = rng.randrange(0, 64)
    kind = rng.choice(['lib', 'lib', 'prims', 'tr', 'ch', 'scene', 'bm', 'bm', 'bvi', 'eparams'])
    lib = rng.choice(LIBNAMES)

    def step(how):
        b = {'r': R(), 'pos': P, 'pos2': P2, 'pos3': 0, 'n': rng.choice([1, 2, 3])}
        if kind == 'lib':
            return dict(b, op='lib', lib=lib, how=how)
        if kind == 'prims':
            return dict(b, op='geom', gi=P, how='prim_' + how, kind=None)
        if kind == 'tr':
            return dict(b, op='node', ni=P, how='tr_' + how, kind=None)
        if kind == 'ch':
            return dict(b, op='node', ni=P, how='ch_' + how, what=rng.choice(['node', 'geom', 'light', 'camera']))
        if kind == 'scene':
            return dict(b, op='scene', si=P, how='sn_' + how)
        if kind == 'bm':
            return dict(b, op='bind', gi=P, how='bm_' + how)
        if kind == 'bvi':
            return dict(b, op='bind', gi=P, how='bvi_' + how)
        return dict(b, op='eparams', how=how)
    sv = lambda: {'op': rng.choice(['save', 'save', 'write'])}
    seq = [step('fill'), sv(), step('clear'), sv(), step('fill'), sv()]
    if rng.random() < 0.3:
        seq += [step('clear'), sv()]
    return seq[rng.choice([0, 0, 2]):]


def gen_case(rng, maxlen, files_fraction=0.2):
    k0 = rng.random()
    if k0 < files_fraction * 0.5:
        base = {'kind': 'file', 'name': rng.choice(FILES)}
    elif k0 < files_fraction * 1.5:
        # an independently generated document (harness/gen/xmldocs.py), loaded
        base = {'kind': 'xmldoc', 'seed': rng.randrange(1 << 30), 'size': rng.choice([0, 1, 1, 2])}
    else:
        base = {'kind': 'gen', 'seed': rng.randrange(1 << 30), 'size': rng.choice([1, 2, 2, 3])}
        if rng.random() < 0.35:
            # loaded with the members of its libraries spread over two library elements of a kind
            base['split'] = rng.randrange(1 << 30)
            base['size'] = rng.choice([2, 3, 4])
    n = rng.randint(1, maxlen)
    ops = []
    adjacent_at = rng.randrange(n) if rng.random() < 0.3 else -1     # a fixed fraction forces >= 2 adjacent removals
    for i in range(n):
        ops.append(gen_op(rng, force_adjacent=(i == adjacent_at)))
    if rng.random() < 0.35:
        at = rng.randint(0, len(ops))
        ops[at:at] = gen_cycle(rng)
    if True:
        # removal edits (every optional value of one object, or of all objects, goes
        # away), before or after an intermediate save
        if rng.random() < 0.5:
            un = {'op': 'attr', 'what': 'unset', 'all': rng.random() < 0.6, 'r': rng.randrange(1 << 30),
                  'pos': rng.randrange(64), 'pos2': rng.randrange(64), 'pos3': rng.randrange(64), 'n': 1}
            at = rng.randint(0, len(ops))
            ops[at:at] = [{'op': 'save'}, un] if rng.random() < 0.5 else [un]
    if rng.random() < 0.3:
        # a reference written before / after its target, then the target renamed (with or without a
        # save in between)
        b = lambda: {'r': rng.randrange(1 << 30), 'pos': rng.randrange(64), 'pos2': rng.randrange(64), 'pos3': rng.randrange(64),
                     'n': rng.choice([1, 2, 3])}
        seq = [dict(b(), op='ref', how=rng.choice(['add_forward', 'add_forward', 'add_backward']))]
        if rng.random() < 0.5:
            seq.append({'op': rng.choice(['save', 'write'])})
        seq.append(dict(b(), op='ref', how='rename_target', all=rng.random() < 0.5))
        at = rng.randint(0, len(ops))
        ops[at:at] = seq
    if rng.random() < 0.3:
        # values changed IN PLACE between two saves (the array object stays the same), and primitives
        # replaced by the library's own conversions, on one geometry or on all of them
        b = lambda: {'r': rng.randrange(1 << 30), 'pos': rng.randrange(64), 'pos2': 0, 'pos3': 0, 'n': rng.choice([1, 2, 3]),
                     'gi': rng.randrange(64), 'all': rng.random() < 0.5, 'kind': None}
        seq = [{'op': 'save'}]
        for _ in range(rng.choice([1, 1, 2])):
            seq.append(dict(b(), op='geom', how=rng.choice(['src_inplace', 'src_inplace', 'prim_convert']),
                            mode=rng.choice(['elem', 'elem', 'slice', 'mul', 'add', 'nudge', 'nudge'])))
            seq.append({'op': rng.choice(['save', 'write'])})
        at = rng.randint(0, len(ops))
        ops[at:at] = seq
    if rng.random() < 0.2:
        # a save that fails validation (and is caught), the cause repaired, then the history goes on
        fs = {'op': 'failsave', 'how': rng.choice(['camera', 'camera', 'scene']), 'write': rng.random() < 0.5,
              'r': rng.randrange(1 << 30), 'pos': rng.randrange(64), 'pos2': 0, 'pos3': 0, 'n': 1}
        ops.insert(rng.randint(0, len(ops)), fs)
    if base['kind'] in ('xmldoc', 'file') and rng.random() < 0.5:
        # loaded geometries lose several sources at once (incl. everything <vertices> names besides the
        # positions), in one geometry or in all of them
        rm = {'op': 'geom', 'gi': rng.randrange(64), 'how': 'src_remove_many', 'all': rng.random() < 0.6,
              'r': rng.randrange(1 << 30), 'pos': rng.randrange(64), 'pos2': 0, 'pos3': 0, 'n': rng.choice([2, 3, 5]), 'kind': None}
        ops.insert(rng.randint(0, len(ops)), rm)
    if base.get('split') is not None and rng.random() < 0.6:
        # a document loaded with two library elements of a kind: whole lists emptied (and refilled),
        # so that the last write happens in each of those states
        tail = []
        for lib in rng.sample(LIBNAMES, 2):
            tail.append({'op': 'lib', 'lib': lib, 'how': 'clear', 'r': rng.randrange(1 << 30), 'pos': 0, 'pos2': 0, 'pos3': 0, 'n': 1})
        if rng.random() < 0.5:
            tail.append({'op': rng.choice(['save', 'write'])})
            tail.append({'op': 'lib', 'lib': tail[0]['lib'], 'how': 'fill', 'r': rng.randrange(1 << 30), 'pos': 0, 'pos2': 0, 'pos3': 0, 'n': 2})
        ops.extend(tail)
    if base['kind'] == 'gen' or rng.random() < 0.5:
        # loaded/constructed documents usually start from a saved state
        ops.insert(0, {'op': 'save'}) if rng.random() < 0.5 else None
    if base['kind'] != 'gen' or base.get('split') is not None:
        # loaded documents: the number of saves between load and the final write matters too (a second
        # save can repair what the first one left behind): none at all, or the plain load -> write
        k = rng.random()
        if k < 0.2:
            ops = [o for o in ops if o['op'] not in ('save', 'write')]
        elif k < 0.3:
            ops = []
    return {'base': base, 'ops': ops}


EXH_SITES = ('scene', 'node_tr', 'node_ch', 'library', 'bind', 'bvi', 'prims', 'params')


def exhaustive_cases(maxold, maxperm):
    """(a) every single save after replacing a collection of <= maxold saved members by any arrangement
    (sub-multiset, permutation) of the old members and up to two fresh ones; (b) every pure reorder
    (all k! permutations, no additions) of k <= maxperm saved members - at every reconciliation site"""
    import itertools
    for site in EXH_SITES:
        for k in range(maxold + 1):
            items = list(range(k)) + ['f0', 'f1']
            for m in range(len(items) + 1):
                for new in itertools.permutations(items, m):
                    yield {'base': {'kind': 'exh', 'site': site, 'old': k},
                           'ops': [{'op': 'save'}, {'op': 'exh_set', 'site': site, 'new': list(new)}]}
        for k in range(maxold + 1, maxperm + 1):
            for new in itertools.permutations(range(k)):
                yield {'base': {'kind': 'exh', 'site': site, 'old': k},
                       'ops': [{'op': 'save'}, {'op': 'exh_set', 'site': site, 'new': list(new)}]}


# ---------------------------------------------------------------- Coq encoding

def c_skel(t, I, ctor):
    return '(%s %s %s)' % (ctor, cN(I.atom(t[0])), clist([c_skel(k, I, ctor) for k in t[1]]))


def c_case(res):
    I = Interner()
    L = lambda xs: clist([cN(x) for x in xs])
    sites = clist(['(SProfile %s %s %s %s %s)' % (L(s[1]), L(s[2]), L(s[3]), L(s[4]), cN(s[5])) if s[0] == 'profile'
                   else '(SAll %s %s %s)' % (L(s[1]), L(s[2]), L(s[3])) for s in res['sites']])
    return ctuple(sites, c_skel(res['skel_model'], I, 'Obj'), c_skel(res['skel_file'], I, 'Sk'))


# ---------------------------------------------------------------- running

def crashed(case, reason):
    return {'fails': [{'signature': '%s:crash-or-hang:worker' % PID, 'clause': 'crash-or-hang',
                       'what': 'the implementation worker crashed or hung on this history: ' + reason[-300:]}],
            'sites': [], 'info': {'crashed': True}}


def run_cases(cases, pid=PID, content=False, timeout=90):
    chunks = [cases[i:i + 40] for i in range(0, len(cases), 40)]
    from concurrent.futures import ThreadPoolExecutor

    def one(ch):
        return core.run_cases_bisect('c02', ch, lambda cs: {'cases': cs, 'pid': pid, 'content': content},
                                     crashed, timeout=timeout)
    with ThreadPoolExecutor(max_workers=core.NCPU) as ex:
        outs = list(ex.map(one, chunks))
    return [r for o in outs for r in o]


def failures_of(cases, results, pid=PID, limit=8):
    out, seen = [], set()
    for c, r in zip(cases, results):
        for f in r['fails']:
            if f['signature'] in seen:
                continue
            seen.add(f['signature'])
            small = c
            try:
                small = core.run_impl('c02', {'shrink': c, 'signature': f['signature'], 'pid': pid}, timeout=240)
            except Exception:  # noqa
                pass
            out.append({'signature': f['signature'], 'clause': f['clause'], 'what': f['what'], 'input': small,
                        'detail': f.get('detail')})
            if len(out) >= limit:
                return out
    return out


def corpus_cases(pid=PID):
    d = os.path.join(core.VERIF, 'corpus', pid)
    out = []
    if os.path.isdir(d):
        for fn in sorted(os.listdir(d)):
            if fn.endswith('.json'):
                out.append(json.load(open(os.path.join(d, fn))))
    return out


def distribution(cases, results):
    ops, levels, files, nsites, inapplicable, saves = {}, {}, {}, 0, 0, 0
    for c, r in zip(cases, results):
        if c['base']['kind'] == 'file':
            files[c['base']['name']] = files.get(c['base']['name'], 0) + 1
        for o in c['ops']:
            k = o['op'] + (':' + o['how'] if 'how' in o else '')
            ops[k] = ops.get(k, 0) + 1
            saves += o['op'] in ('save', 'write')
        nsites += len(r.get('sites', []))
        inapplicable += bool(r.get('info', {}).get('inapplicable'))
    return {'ops': ops, 'loaded_documents': files, 'reconciliation_sites_observed': nsites,
            'histories_refused_by_the_api': inapplicable, 'intermediate_saves': saves}


def run(ctx):
    build_ok, obl, regen = core.std_setup(ctx)
    quick = ctx.quick()
    cases = corpus_cases()
    ncorpus = len(cases)
    nrand = 1000 if quick else 4000
    for _ in range(nrand):
        cases.append(gen_case(ctx.rng, 12 if quick else 40))
    exh = list(exhaustive_cases(2, 5) if quick else exhaustive_cases(4, 6))
    cases.extend(exh)
    ctx.log('running %d edit histories on the implementation' % len(cases))
    results = run_cases(cases)
    usable = [(c, r) for c, r in zip(cases, results) if 'skel_model' in r]
    terms = [c_case(r) for _, r in usable]
    ctx.log('evaluating the reconciliation model and the emission skeletons inside Coq (%d cases)' % len(terms))
    bad, errors = core.coq_eval_cases(ctx, HEADER, CASE_TYPE, terms, 'C02.mismatches', chunk=60)
    failures = failures_of(cases, results)
    known = {k['signature'] for k in core.load_known() if k.get('property') == PID}
    mismatches = []
    for i in bad[:20]:
        c, r = usable[i]
        mismatches.append({'case_index': i, 'input': c, 'explained_by_known': any(f['signature'] in known for f in r['fails'])})
    seen = set()
    for c, r in usable:
        if len(c['ops']) >= 2 and r['sites']:
            seen.add(core.canon_hash(c))
    corr = {
        'evaluations': len(usable),
        'distinct_nontrivial': len(seen),
        'rule': 'edit histories over documents built through the public constructors (random libraries, nested nodes, '
                'instances, bindings) and over the loadable shipped files; every level and every edit kind, positions '
                'uniform, >= 2 adjacent removals forced in 30 % of the histories, saves interleaved at random points and at the extreme states '
                '(fill, save, empty, save, refill, save) of a collection in 35 %; 30 % of the constructed documents are written, their libraries '
                'split into two elements of a kind, and loaded again; compared in Coq: '
                'for every save and every reconciliation site py_sync(old children, objects\' nodes) = children after, '
                'and the label tree read independently from the written bytes = emit_skel of the edited model; '
                'non-trivial = at least two operations and at least one observed reconciliation; distinct = different history',
        'samples': [{'base': c['base'], 'ops': c['ops'][:6], 'sites': r['sites'][:2]} for c, r in usable[ncorpus:ncorpus + 3]],
        'distribution': distribution(cases, results),
        'mismatches': mismatches,
        'errors': errors,
        'exhaustive': not quick,
    }
    corr['distribution']['exhaustive_single_save_cases'] = len(exh)
    corr['distribution']['exhaustive_slice'] = ('all arrangements of <= %d saved members and <= 2 fresh ones, and all k! pure reorders of '
                                                'k <= %d saved members, at the sites %s' % (((2, 5) if quick else (4, 6)) + (', '.join(EXH_SITES),)))

    def search(mm):
        extra = [m['input'] for m in mm] + [gen_case(ctx.rng, 20) for _ in range(300)]
        return failures_of(extra, run_cases(extra))

    return core.finish(
        ctx, obligations=obl, regen=regen, build_ok=build_ok, corr=corr, failures=failures, search=search,
        trusted_base=core.BASE_TRUST + [
            'hand-written model Model/Sync.v of collada.util._syncChildren and of what each save method hands to it, '
            'tied to the code by the per-site correspondence (old children, wanted nodes, children after) at every save',
            'worker glue harness/impl/c02.py: edit interpreter over the public API, snapshot of the in-memory model, '
            'independent xml.etree reader, label skeletons',
        ],
        assumptions=['objects appear at most once in a collection and XML nodes are not shared between objects (distinct identities)',
                     'primitives and transforms are immutable values (they have no save()); they are edited by replacement',
                     'source ids are not renamed (primitives hold them as strings); effect parameter order is covered by the direct oracle only',
                     'modelled, not verified in Coq (direct oracle only): effect internals, images, asset/contributors, numeric content of loaded files, node matrix = product of transforms'])


def replay(ctx, body):
    case = body.get('input') or (body.get('mismatching_cases') or [{}])[0].get('input')
    r = run_cases([case])[0]
    sig = body.get('signature')
    hit = [f for f in r['fails'] if sig is None or f['signature'] == sig]
    print(json.dumps([{k: f[k] for k in ('signature', 'what')} for f in r['fails']], indent=1))
    if hit:
        print('VIOLATION property=%s replay=%s' % (PID, body.get('replay_cmd', '').split()[-1]))
        return 1
    print('replay: the property clauses hold on this history now')
    return 0
