"""C06 - the written file says what the model says."""
import json

from harness import core
from harness.core import cN, cZ, clist, copt, ctuple, cbool
from harness.enc import xml2coq
from harness.props import c02 as H

PID = 'C06'
HEADER = ('From Coq Require Import List ZArith NArith.\n'
          'From PC Require Import Base.Atoms Base.Xml Model.Emit Check.C06.\n'
          'Import ListNotations.\n')
CASE_TYPE = 'C06.case'


class Enc(xml2coq.Enc):
    """numeric tokens are interned by value (the generator only uses short dyadic values, whose
    decimal renderings are exact), so '0.5' and '0.50' are the same number but '1' (an integer
    token) and '1.0' are different texts"""

    def num(self, token):
        key = repr(float(token))
        if key not in self.nums:
            self.nums[key] = len(self.nums)
        return self.nums[key]


def toks(enc, text):
    t = enc.toks(text if text is not None else '')
    assert t.startswith('(Some ') and t.endswith(')')
    return t[len('(Some '):-1]


def c_doc(enc, c):
    A = lambda s: cN(enc.I.atom(s))
    V = lambda s: enc.aval(s)
    OV = lambda s: copt(None if s is None else V(s))

    def source(s):
        return '(Build_source %s %s %s %s %s)' % (A(s['id']), toks(enc, s['text']), clist([A(x) for x in s['comps']]),
                                                  cZ(s['count']), cZ(s['acount']))

    def inp(i):
        return '(Build_input %s %s %s %s)' % (cZ(i[0]), A(i[1]), A(i[2]), OV(i[3]))

    def prim(p):
        kind = {'triangles': 'KTriangles', 'polylist': 'KPolylist', 'polygons': 'KPolygons', 'lines': 'KLines'}[p['kind']]
        return '(Build_prim %s %s %s %s %s %s)' % (kind, OV(p['material']), cZ(p['count']), clist([inp(i) for i in p['inputs']]),
                                                   copt(None if p['vcount'] is None else toks(enc, p['vcount'])),
                                                   clist([toks(enc, t) for t in p['ps']]))

    def geom(g):
        return '(Build_geometry %s %s %s %s %s %s %s)' % (
            V(g['id']), OV(g['name']), clist([source(s) for s in g['sources']]),
            A(g['vid']) if g['vid'] is not None else '0%N', A(g['vref']) if g['vref'] is not None else '0%N',
            clist([prim(p) for p in g['prims']]), cbool(g['double_sided']))

    def transform(t):
        kind = {'translate': 'TTranslate', 'rotate': 'TRotate', 'scale': 'TScale', 'matrix': 'TMatrix', 'lookat': 'TLookat'}[t['kind']]
        return '(Build_transform %s %s)' % (kind, toks(enc, t['text']))

    def imat(m):
        return '(Build_imat %s %s %s)' % (V(m[0]), A(m[1]), clist(['(Build_bvi %s %s %s)' % (V(i[0]), V(i[1]), OV(i[2])) for i in m[2]]))

    def node(n):
        if 'node' in n:
            i, nm, ts, cs = n['node']
            return '(Node %s %s %s %s)' % (OV(i), OV(nm), clist([transform(t) for t in ts]), clist([node(c) for c in cs]))
        k, url, mats = n['inst']
        kind = {'geometry': 'IGeometry', 'controller': 'IController', 'light': 'ILight', 'camera': 'ICamera', 'node': 'INode'}[k]
        return '(Inst %s %s %s)' % (kind, A(url), clist([imat(m) for m in mats]))

    def vals(ps):
        return clist([ctuple(A(k), toks(enc, v)) for k, v in ps])

    def light(l):
        kind = {'directional': 'LDirectional', 'ambient': 'LAmbient', 'point': 'LPoint', 'spot': 'LSpot'}[l['kind']]
        return '(Build_light %s %s %s %s)' % (V(l['id']), kind, toks(enc, l['color']), vals(l['params']))

    def camera(x):
        return '(Build_camera %s %s %s)' % (V(x['id']), 'CPerspective' if x['kind'] == 'perspective' else 'COrthographic', vals(x['params']))
    return '(Build_doc %s %s %s %s %s %s %s %s %s)' % (
        clist([geom(g) for g in c['geometries']]), clist([light(l) for l in c['lights']]),
        clist([camera(x) for x in c['cameras']]), clist([V(i) for i in c['images']]), clist([V(e) for e in c['effects']]),
        clist(['(Build_material %s %s %s)' % (V(m[0]), V(m[1]), A(m[2])) for m in c['materials']]),
        clist([node(n) for n in c['nodes']]),
        clist(['(Build_vscene %s %s)' % (V(s[0]), clist([node(n) for n in s[1]])) for s in c['scenes']]),
        copt(None if c['scene'] is None else A(c['scene'])))


def c_case(res):
    enc = Enc()
    x, _ = xml2coq.encode_bytes(res['xml'].encode('utf-8'), enc, reader='minidom')
    d = c_doc(enc, res['content'])
    table = clist([ctuple(cN(enc.I.atom(s['id'])), cN(enc.I.atom(s['id'] + '-array')))
                   for g in res['content']['geometries'] for s in g['sources']])
    return ctuple(x, d, table)


CV_TAGS = ['color', 'constant_attenuation', 'linear_attenuation', 'quadratic_attenuation', 'zfar', 'falloff_angle']


def gen_cv(rng):
    """a small element, a tag, a value or None, an `after` list or None"""
    kids = []
    for _ in range(rng.randint(0, 5)):
        kids.append([rng.choice(CV_TAGS), rng.choice([None, '1.5', '0.25 2', '7'])])
    after = None if rng.random() < 0.3 else rng.sample(CV_TAGS, rng.randint(0, 4))
    return {'kids': kids, 'tag': rng.choice(CV_TAGS), 'value': rng.choice([None, None, '2.5', '3', '0.125']), 'after': after}


def c_cv(case, res):
    enc = Enc()
    A = lambda s_: cN(enc.I.atom(s_))

    def kid(u, tg, tx):
        return '(El %s %s %s [] %s [])' % (cN(u), A(xml2coq.ET and 'http://www.collada.org/2005/11/COLLADASchema'), A(tg), enc.toks(tx))
    before = clist([kid(i + 1, tg, tx) for i, (tg, tx) in enumerate(case['kids'])])
    got = clist([kid(u, tg, tx) for u, tg, tx in res['kids']])
    return ctuple(A(case['tag']), copt(None if case['value'] is None else toks(enc, case['value'])),
                  copt(None if case['after'] is None else clist([A(a) for a in case['after']])), before, got)


def gen_case(rng, quick):
    k = rng.random()
    if k < 0.35:
        # a constructor program only (the model built through the public constructors)
        return {'base': {'kind': 'gen', 'seed': rng.randrange(1 << 30), 'size': rng.choice([1, 2, 3, 4])}, 'ops': []}
    return H.gen_case(rng, 10 if quick else 30, files_fraction=0.2)


def run(ctx):
    build_ok, obl, regen = core.std_setup(ctx)
    quick = ctx.quick()
    cases = H.corpus_cases(PID)
    ncorpus = len(cases)
    for _ in range(750 if quick else 3000):
        cases.append(gen_case(ctx.rng, quick))
    # the exhaustive single-save slice of C02 (arrangements and pure reorders at every site): direct oracle
    cases.extend(H.exhaustive_cases(1, 4) if quick else H.exhaustive_cases(3, 5))
    ctx.log('running %d constructor programs / edit histories on the implementation' % len(cases))
    results = H.run_cases(cases, pid=PID, content=True)
    usable = [(c, r) for c, r in zip(cases, results) if 'content' in r]
    terms = [c_case(r) for _, r in usable]
    ctx.log('reading the written bytes with minidom and comparing with emit of the model inside Coq (%d cases)' % len(terms))
    bad, errors = core.coq_eval_cases(ctx, HEADER, CASE_TYPE, terms, 'C06.mismatches', chunk=20)
    # second correspondence: _correctValInNode on small elements
    cvs = [gen_cv(ctx.rng) for _ in range(400 if quick else 4000)]
    cvres = core.run_impl('c02', {'cv_cases': cvs, 'pid': PID}, timeout=120)
    cvterms = [c_cv(c, r) for c, r in zip(cvs, cvres) if 'kids' in r]
    cvbad, cverr = core.coq_eval_cases(ctx, HEADER, 'C06.cv_case', cvterms, 'C06.cv_mismatches', chunk=200, label='cv')
    errors = errors + cverr
    if len(cvterms) != len(cvs):
        errors.append({'error': '_correctValInNode raised on %d small elements: %s' % (
            len(cvs) - len(cvterms), [r.get('error') for r in cvres if 'error' in r][:2])})
    failures = H.failures_of(cases, results, pid=PID)
    known = {k['signature'] for k in core.load_known() if k.get('property') == PID}
    mismatches = []
    for i in bad[:20]:
        c, r = usable[i]
        mismatches.append({'case_index': i, 'input': c, 'explained_by_known': any(f['signature'] in known for f in r['fails'])})
    usable_cv = [(c, r) for c, r in zip(cvs, cvres) if 'kids' in r]
    for i in cvbad[:5]:
        mismatches.append({'case_index': i, 'correct_val_case': usable_cv[i][0], 'implementation': usable_cv[i][1],
                           'input': {'base': {'kind': 'gen', 'seed': 1, 'size': 2}, 'ops': [{'op': 'attr', 'what': 'light', 'pos': 0, 'r': 1}]},
                           'explained_by_known': False})
    seen = set()
    for c, r in usable:
        libs = r['info'].get('libs', {})
        if sum(libs.values()) >= 3:
            seen.add(core.canon_hash(c))
    dist = H.distribution(cases, results)
    dist['pure_constructor_programs'] = sum(1 for c in cases if not c['ops'])
    dist['compared_in_coq'] = len(usable)
    dist['correctValInNode_cases_compared_in_coq'] = len(cvterms)
    dist['oracle_only_loaded_documents'] = sum(1 for c, r in zip(cases, results) if 'content' not in r and 'skel_model' in r)
    corr = {
        'evaluations': len(usable),
        'distinct_nontrivial': len(seen),
        'rule': 'documents built through the public constructors (every primitive kind and input layout incl. shared offsets and '
                'normals reusing the position source, four light kinds, two camera kinds, effects, materials, nested nodes with the '
                'instance kinds and material bindings, library nodes, default scene) and edit histories on them; the written bytes are '
                'read with xml.dom.minidom and Check/C06.v demands read_doc(file) = content of the model (compared through emit_doc); '
                'loaded shipped files are checked by the direct oracle only; non-trivial = at least three library objects; distinct = different program/history',
        'samples': [{'base': c['base'], 'ops': c['ops'][:4], 'libs': r['info'].get('libs')} for c, r in usable[:3]],
        'distribution': dist,
        'mismatches': mismatches,
        'errors': errors,
    }

    def search(mm):
        extra = [m['input'] for m in mm] + [gen_case(ctx.rng, False) for _ in range(300)]
        return H.failures_of(extra, H.run_cases(extra, pid=PID), pid=PID)

    return core.finish(
        ctx, obligations=obl, regen=regen, build_ok=build_ok, corr=corr, failures=failures, search=search,
        trusted_base=core.BASE_TRUST + [
            'hand-written codecs Model/Emit.v (emit_K / read_K), tied to the code by reading the written bytes with minidom and '
            'comparing with the model content inside Coq',
            'worker glue harness/impl/c02.py (content_of: model values rendered with the documented formats "%.7g" / str() by the '
            'runtime; independent xml.etree reader for the direct oracle) and harness/enc/xml2coq.py',
        ],
        assumptions=['H_fmt: float source data is written with "%.7g", every other number with str(); numeric tokens are compared by value on short dyadic inputs',
                     'modelled, not verified in Coq (direct oracle only): effect internals (shader parameters, maps, newparam surface/sampler2D, opaque mode, double_sided extra), images, asset and contributors, controllers, Name/IDREF sources, documents loaded from files, TriangleSet._recreateXmlNode for strip/fan-loaded sets, _correctValInNode child order'])


def replay(ctx, body):
    case = body.get('input') or (body.get('mismatching_cases') or [{}])[0].get('input')
    r = H.run_cases([case], pid=PID)[0]
    sig = body.get('signature')
    hit = [f for f in r['fails'] if sig is None or f['signature'] == sig]
    print(json.dumps([{k: f[k] for k in ('signature', 'what')} for f in r['fails']], indent=1))
    if hit:
        print('VIOLATION property=%s replay=%s' % (PID, body.get('replay_cmd', '').split()[-1]))
        return 1
    print('replay: the property clauses hold on this input now')
    return 0
