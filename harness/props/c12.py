"""C12 - scene traversal yields every instance once, correctly transformed and bound."""
import json
import os

from harness import core
from harness.core import cN, cZ, clist, ctuple, cnat
from harness.gen import c12docs

IMPORTS = ('From Coq Require Import List ZArith NArith.\n'
           'From PC Require Import Base.Py Base.Mat Gen.Transforms Gen.Bound Model.Transforms Model.Traverse Check.C12.\n'
           'Import ListNotations.\n')
CASE_TYPE = 'C12.case'
TAGS = {'translate': 0, 'rotate': 1, 'scale': 2, 'matrix': 3}
MAX_PATHS = 80


# ------------------------------------------------------------------ encoding

def c_vec(v):
    return ctuple(*[cZ(x) for x in v])


def c_lib(lib):
    A = c12docs.atoms(lib)
    S = c12docs.sym_atoms(lib)
    geoms = []
    for g in lib['geoms']:
        prims = []
        for p in g['prims']:
            prims.append(ctuple(cnat({'triangles': 0, 'polylist': 1, 'polygons': 2, 'lines': 3}[p['kind']]),
                                cN(0 if p['symbol'] is None else S[p['symbol']]),
                                clist([c_vec(v) for v in g['verts']]),
                                'None' if not p['normals'] else '(Some %s)' % clist([c_vec(v) for v in g['normals']])))
        geoms.append(ctuple(cN(A[g['id']]), clist(prims)))
    ctrls = []
    for c in lib['controllers']:
        if c['kind'] == 'skin':
            ctrls.append(ctuple(cN(A[c['id']]), ctuple(cnat(0), clist([cZ(x) for x in c['bsm']]), cN(A[c['geometry']]))))
        else:
            ctrls.append(ctuple(cN(A[c['id']]), ctuple(cnat(1), '[]', cN(A[c['geometry']]))))
    lights = [ctuple(cN(A[l['id']]), cnat(c12docs.LIGHT_KINDS.index(l['kind']))) for l in lib['lights']]
    cams = [ctuple(cN(A[c['id']]), cnat(0 if c['kind'] == 'perspective' else 1)) for c in lib['cameras']]
    return 'Definition thelib : C12.lib := C12.Lib\n  %s\n  %s\n  %s\n  %s.\n' % (clist(geoms), clist(ctrls), clist(lights), clist(cams))


def c_transform(t):
    fl = t[1] if t[0] == 'matrix' else t[1:]
    return ctuple(cnat(TAGS[t[0]]), clist([cZ(x) for x in fl]))


def c_binds(A, binds):
    S = A['__symbols__']
    return clist([ctuple(cN(S[s]), cN(A[m])) for s, m in binds])


def c_node(A, n, names):
    t = n['t']
    if t == 'node':
        return '(SNode (C12.nm %s) %s)' % (clist([c_transform(x) for x in n['transforms']]),
                                           clist([c_node(A, c, names) for c in n['children']]))
    if t == 'inst':
        return '(SInst %s)' % names[n['ref']]
    if t == 'geom':
        return '(SGeom %s %s)' % (cN(A[n['ref']]), c_binds(A, n['binds']))
    if t == 'ctrl':
        return '(SCtrl %s %s)' % (cN(A[n['ref']]), c_binds(A, n['binds']))
    if t == 'light':
        return '(SLight %s)' % cN(A[n['ref']])
    if t == 'cam':
        return '(SCam %s)' % cN(A[n['ref']])
    return 'SExtra'


def dependency_order(case):
    """shared nodes (library nodes and instantiated top-level scene nodes) in an order in which
    every node comes after the nodes it instantiates"""
    table = c12docs.resolve(case)
    order, seen = [], set()

    def deps(n, acc):
        if n['t'] == 'inst':
            acc.append(n['ref'])
        elif n['t'] == 'node':
            for c in n['children']:
                deps(c, acc)

    def visit(i):
        if i in seen:
            return
        seen.add(i)
        acc = []
        deps(table[i], acc)
        for d in acc:
            visit(d)
        order.append(i)
    for n in case['libnodes'] + case['roots']:
        visit(n['id'])
    return order


def c_case(lib, case, obs):
    A = dict(c12docs.atoms(lib))
    A['__symbols__'] = c12docs.sym_atoms(lib)
    table = c12docs.resolve(case)
    names = {i: 'x_%s' % i for i in table}
    lets = ''
    for i in dependency_order(case):
        lets += 'let %s : C12.zsnode := %s in\n' % (names[i], c_node(A, table[i], names))
    zl = lambda l: clist([cZ(x) for x in l])
    o = [clist([zl(x) for x in obs[k]]) for k in ('geometry', 'controller', 'camera', 'light')]
    return '(%s%s)' % (lets, ctuple(clist([names[r['id']] for r in case['roots']]), *o))


# ------------------------------------------------------------------ running

def crashed(case, reason):
    return {'obs': None, 'fails': [{'clause': 'crash-or-hang', 'site': 'worker', 'detail': reason}]}


def run_cases(lib, cases, timeout=120):
    out = []
    if len(cases) > 1:
        # pre-flight: if the very first case already kills or hangs the worker, do not bisect whole batches
        pre = core.run_cases_bisect('c12', cases[:1], lambda cs: {'lib': lib, 'cases': cs}, crashed, 40)
        if pre[0]['obs'] is None and pre[0]['fails'][0]['clause'] == 'crash-or-hang':
            return pre + [{'obs': None, 'fails': [{'clause': 'not-run', 'site': 'worker', 'detail': 'the first case already crashed or hung'}]} for c in cases[1:]]
    chunks = [cases[i:i + 60] for i in range(0, len(cases), 60)]
    from concurrent.futures import ThreadPoolExecutor
    with ThreadPoolExecutor(max_workers=core.NCPU) as ex:
        for res in ex.map(lambda ch: core.run_cases_bisect('c12', ch, lambda cs: {'lib': lib, 'cases': cs}, crashed, timeout), chunks):
            out.extend(res)
    return out


def gen_cases(rng, lib, n):
    out, rejected = [], 0
    while len(out) < n:
        c = c12docs.gen_case(rng, lib, forward_refs=(rng.random() < 0.25))
        if not c12docs.acyclic(c):
            rejected += 1
            continue
        b, cnt = c12docs.path_bound(c)
        if c.get('edit_after'):
            b = max(b, c12docs.path_bound(c12docs.edited(c, c['edit_after']))[0])
        if c.get('enter'):
            b = b * c12docs.norm_inf(c12docs.transform_matrix(c['enter'][1]))
        if b >= c12docs.LIMIT or cnt > MAX_PATHS:
            rejected += 1
            continue
        out.append(c)
    return out, rejected


def failure_of(lib, case, f):
    return {'signature': 'C12:%s:%s' % (f['clause'], f['site']), 'clause': f['clause'],
            'what': '%s (%s): %s' % (f['clause'], f['site'], f['detail'][:300]),
            'input': {'lib': lib, 'case': shrink(lib, case, f)}, 'detail': f}


def shrink(lib, case, f, rounds=8):
    """greedy: per round, try every single deletion (a root, an unreferenced library node, one
    child anywhere, one transform) in ONE worker call and keep the first that still fails"""
    def refs(n, acc):
        if n['t'] == 'inst':
            acc.add(n['ref'])
        elif n['t'] == 'node':
            for c in n['children']:
                refs(c, acc)
        return acc

    def child_paths(n, prefix):
        if n['t'] != 'node':
            return
        for i, ch in enumerate(n['children']):
            yield prefix + [i]
            for x in child_paths(ch, prefix + [i]):
                yield x

    def variants(c):
        used = set()
        for n in c['libnodes'] + c['roots']:
            refs(n, used)
        for i in range(len(c['roots'])):
            if len(c['roots']) > 1 and c['roots'][i]['id'] not in used:
                d = json.loads(json.dumps(c))
                del d['roots'][i]
                yield d
        for i in range(len(c['libnodes'])):
            if c['libnodes'][i]['id'] not in used:
                d = json.loads(json.dumps(c))
                del d['libnodes'][i]
                d['liborder'] = list(range(len(d['libnodes'])))
                yield d
        for key in ('roots', 'libnodes'):
            for ri in range(len(c[key])):
                for pth in child_paths(c[key][ri], []):
                    d = json.loads(json.dumps(c))
                    n = d[key][ri]
                    for i in pth[:-1]:
                        n = n['children'][i]
                    del n['children'][pth[-1]]
                    yield d
    cur = case
    for _ in range(rounds):
        cands = [v for v in variants(cur) if c12docs.acyclic(v)][:150]
        if not cands:
            break
        try:
            res = run_cases(lib, cands, timeout=120)
        except Exception:  # noqa
            break
        hit = [v for v, r in zip(cands, res) if any(x['clause'] == f['clause'] and x['site'] == f['site'] for x in r['fails'])]
        if not hit:
            break
        cur = min(hit, key=lambda v: len(json.dumps(v)))
    return cur


def first_failures(lib, cases, results, limit=5):
    out, seen = [], set()
    for c, r in zip(cases, results):
        for f in r['fails']:
            if f['clause'] == 'not-run':
                continue
            sig = (f['clause'], f['site'])
            if sig in seen:
                continue
            seen.add(sig)
            out.append(failure_of(lib, c, f))
            if len(out) >= limit:
                return out
    return out


def run(ctx):
    build_ok, obl, regen = core.std_setup(ctx)
    quick = ctx.quick()
    rng = ctx.rng
    lib = c12docs.gen_library(rng)
    n = 600 if quick else 6000
    cases, rejected = gen_cases(rng, lib, n)
    ctx.log('running %d scene graphs on the implementation' % len(cases))
    results = run_cases(lib, cases)
    failures = first_failures(lib, cases, results)
    good = [(c, r) for c, r in zip(cases, results) if r['obs'] is not None]
    terms = [c_case(lib, c, r['obs']) for c, r in good]
    ctx.log('evaluating the model on the %d scene graphs inside Coq' % len(terms))
    header = IMPORTS + c_lib(lib)
    bad, errors = core.coq_eval_cases(ctx, header, CASE_TYPE, terms, 'C12.mismatches thelib', chunk=40)
    mismatches = [{'case_index': i, 'input': {'lib': lib, 'case': good[i][0]}, 'implementation_observed': good[i][1]['obs'],
                   'explained_by_known': False} for i in bad[:10]]
    # distribution
    depth_h, paths_h, kinds = {}, {}, {k: 0 for k in c12docs.KINDS}
    shared, nested_shared, multi, distinct = 0, 0, 0, set()

    def depth(nd, table, d=0):
        if nd['t'] == 'node':
            return max([d + 1] + [depth(c, table, d + 1) for c in nd['children']])
        if nd['t'] == 'inst':
            return depth(table[nd['ref']], table, d)
        return d

    def count_inst(nd, acc):
        if nd['t'] == 'inst':
            acc[nd['ref']] = acc.get(nd['ref'], 0) + 1
        elif nd['t'] == 'node':
            for c in nd['children']:
                count_inst(c, acc)
    for c, r in zip(cases, results):
        table = c12docs.resolve(c)
        dmax = max(depth(x, table) for x in c['roots'])
        depth_h[dmax] = depth_h.get(dmax, 0) + 1
        np_ = len(c12docs.paths(c))
        paths_h[min(np_ // 10 * 10, 100)] = paths_h.get(min(np_ // 10 * 10, 100), 0) + 1
        acc = {}
        for x in c['roots'] + c['libnodes']:
            count_inst(x, acc)
        if acc:
            shared += 1
        if any(v > 1 for v in acc.values()):
            multi += 1
        lacc = {}
        for x in c['libnodes']:
            count_inst(x, lacc)
        if lacc:
            nested_shared += 1
        if r['obs']:
            for k in c12docs.KINDS:
                kinds[k] += len(r['obs'][k])
        if np_ >= 2:
            distinct.add(core.canon_hash(c))
    corr = {
        'evaluations': len(cases),
        'distinct_nontrivial': len(distinct),
        'rule': 'scene graphs of depth <= 5 and fan-out <= 4 over a generated library (6 geometries with triangles/polylist/'
                'polygons/lines primitives with and without normals and material symbols, 4 lights, 2 cameras, 2 skins, 1 morph), '
                '0-4 library nodes instantiated through instance_node (several times, nested, forward references in the file), '
                'instance_node of top-level scene nodes, 0-3 integer transforms per node (matrix/translate/scale/rotate by '
                'multiples of 90 degrees), material binding tables with duplicate, missing and surplus symbols; loaded from the '
                'generated XML; every bound object of the four kinds is compared with the Coq model (target, matrix, bound '
                'vertices and normals of every primitive, material, light/camera vectors, skin geometry).  '
                'non-trivial = at least two instance paths; distinct = different scene description',
        'samples': [{'roots': c['roots'], 'libnodes': c['libnodes'], 'observed_counts': {k: len(v) for k, v in r['obs'].items()}}
                    for c, r in good[:2]],
        'distribution': {'max_depth_histogram': depth_h, 'instance_paths_histogram': paths_h, 'bound_objects_by_kind': kinds,
                         'cases_with_instance_node': shared, 'cases_instantiating_a_node_more_than_once': multi,
                         'cases_with_nested_library_instances': nested_shared, 'rejected_by_magnitude_or_size': rejected},
        'mismatches': mismatches,
        'errors': errors,
    }

    def search(mm):
        extra, _ = gen_cases(rng, lib, 1200)
        extra = [m['input']['case'] for m in mm if m.get('input')] + extra
        return first_failures(lib, extra, run_cases(lib, extra))

    return core.finish(
        ctx, obligations=obl, regen=regen, build_ok=build_ok, corr=corr, failures=failures, search=search,
        trusted_base=core.BASE_TRUST + [
            'harness/translate/transforms.py: the ast reading of Node.objects / NodeNode.objects / Scene.objects / the four '
            'instance nodes in scene.py (numpy.dot argument order, matrix handed down, kind strings)',
            'hand-written models of the bound primitives (v * M^T[:3,:3] + M[:3,3]), the material dictionary, bound lights and '
            'cameras (Model/Traverse.v), tied to triangleset.py/polylist.py/polygons.py/lineset.py/light.py/camera.py/'
            'controller.py by the correspondence only',
            'instance_node is modelled as the referred node embedded at the instantiation point (resolution is C07)',
        ],
        assumptions=['integer-valued matrices, vertices and normals (float32 results exact); float behaviour of the same code '
                     'paths is covered by C13\'s tolerance oracle for the node matrices only'])


def replay(ctx, body):
    inp = body.get('input') or (body.get('mismatching_cases') or [{}])[0].get('input')
    if not inp:
        print('replay: nothing to re-execute (no input recorded): %s' % json.dumps(body.get('no_longer_checks')))
        return 0
    lib, case = inp['lib'], inp['case']
    r = run_cases(lib, [case])[0]
    print(json.dumps(r['fails'], indent=1))
    if r['fails']:
        print('VIOLATION property=C12 replay=%s' % body.get('replay_cmd', '').split()[-1])
        return 1
    if r['obs'] is not None and body.get('kind') == 'no-failing-input-found':
        # the tie had broken: rebuild the model from the tree under test, then compare inside Coq
        core.build(ctx, target=['Check/C12.vo'])
        bad, errors = core.coq_eval_cases(ctx, IMPORTS + c_lib(lib), CASE_TYPE, [c_case(lib, case, r['obs'])], 'C12.mismatches thelib')
        if bad or errors:
            print('model and implementation differ on this scene: %s' % json.dumps(errors)[:500])
            print('VIOLATION property=C12 replay=%s' % body.get('replay_cmd', '').split()[-1])
            return 1
    print('replay: the property clauses hold on this scene now')
    return 0
