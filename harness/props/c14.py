"""C14 - id-indexed library lists stay coherent under every mutation."""
import itertools
import json

from harness import core
from harness.core import cN, cZ, clist, copt, ctuple

HEADER = ('From Coq Require Import List ZArith NArith.\n'
          'From PC Require Import Base.Outcome Base.Py Model.IndexedList Check.C14.\n'
          'Import ListNotations.\n')
CASE_TYPE = 'C14.case'

ALPHABET = [1, 2, 3, 4]


def obj_id(uid):
    # uid determines id; 9 objects over a 4-letter alphabet, collisions frequent
    return ALPHABET[uid % len(ALPHABET)]


def gen_obj(rng):
    u = rng.randint(1, 9)
    return [u, obj_id(u)]


def gen_key(rng, n, allow_obj=False):
    r = rng.random()
    if r < 0.55:
        # positions concentrated around the valid range, both signs, some out of range
        return ['int', rng.randint(-n - 2, n + 2)]
    if r < 0.9 or not allow_obj:
        return ['id', rng.choice(ALPHABET + [7])]
    return ['obj', gen_obj(rng)]


OPKINDS = ['append', 'extend', 'iadd', 'insert', 'setitem', 'delitem', 'pop', 'remove', 'clear',
           'reassign', 'reverse', 'bulk_fail', 'extend_self', 'reassign_rev']
WEIGHTS = [4, 3, 3, 4, 4, 4, 4, 4, 1, 2, 1, 2, 1, 1]
# Python argument forms of the bulk operations (the model is the same for all of them)
FORMS = ['list', 'tuple', 'gen', 'iter', 'indexedlist', 'adopt']


def gen_op(rng, n):
    k = rng.choices(OPKINDS, WEIGHTS)[0]
    if k == 'append':
        return [k, gen_obj(rng)]
    if k in ('extend', 'iadd', 'reassign'):
        return [k, [gen_obj(rng) for _ in range(rng.randint(0, 3))], rng.choice(FORMS)]
    if k == 'bulk_fail':
        # which bulk operation, the items yielded before the iterable raises
        return [k, rng.choice(['extend', 'iadd', 'reassign', 'reassign_scalar']),
                [gen_obj(rng) for _ in range(rng.randint(0, 2))]]
    if k in ('insert', 'setitem'):
        return [k, gen_key(rng, n), gen_obj(rng)]
    if k == 'delitem':
        return [k, gen_key(rng, n)]
    if k == 'pop':
        return [k, None if rng.random() < 0.4 else gen_key(rng, n)]
    if k == 'remove':
        return [k, gen_key(rng, n, allow_obj=True) if rng.random() < 0.5 else ['obj', gen_obj(rng)]]
    return [k]


def gen_case(rng, maxlen):
    init = [gen_obj(rng) for _ in range(rng.choice([0, 0, 1, 2, 3, 5]))]
    n = len(init)
    ops = []
    for _ in range(rng.randint(1, maxlen)):
        op = gen_op(rng, n)
        ops.append(op)
        # rough length tracking only steers the key generator
        if op[0] == 'append' or op[0] == 'insert':
            n += 1
        elif op[0] in ('extend', 'iadd'):
            n += len(op[1])
        elif op[0] in ('delitem', 'pop', 'remove'):
            n = max(0, n - 1)
        elif op[0] == 'clear':
            n = 0
        elif op[0] == 'reassign':
            n = len(op[1])
        elif op[0] == 'extend_self':
            n *= 2
    return {'alphabet': ALPHABET + [7], 'init': init, 'ops': ops}


def exhaustive_cases():
    """All histories of length <= 2 from a fixed op alphabet on every initial list of length <= 2
    over three objects (two of which share an id)."""
    objs = [[1, 1], [2, 2], [5, 1]]
    keys = [['int', 0], ['int', -1], ['int', 2], ['id', 1], ['id', 3]]
    opsA = [['append', objs[2]], ['iadd', [objs[0]]], ['clear'], ['reverse'], ['pop', None]]
    for k in keys:
        opsA += [['insert', k, objs[2]], ['setitem', k, objs[1]], ['delitem', k], ['pop', k], ['remove', k]]
    opsA += [['remove', ['obj', o]] for o in objs]
    inits = [[]] + [[o] for o in objs] + [[a, b] for a in objs for b in objs]
    for init in inits:
        for n in (1, 2):
            for ops in itertools.product(opsA, repeat=n):
                yield {'alphabet': [1, 2, 3], 'init': init, 'ops': [list(o) for o in ops]}


# ---- encoding into Coq

def c_obj(o):
    return ctuple(cN(o[0]), cN(o[1]))


def c_key(k):
    if k[0] == 'int':
        return '(KInt %s)' % cZ(k[1])
    if k[0] == 'id':
        return '(KId %s)' % cN(k[1])
    return '(KObj %s)' % c_obj(k[1])


def c_op(op):
    k = op[0]
    if k == 'append':
        return '(Append %s)' % c_obj(op[1])
    if k == 'extend':
        return '(Extend %s)' % clist([c_obj(o) for o in op[1]])
    if k == 'iadd':
        return '(IAdd %s)' % clist([c_obj(o) for o in op[1]])
    if k == 'reassign':
        return '(Reassign %s)' % clist([c_obj(o) for o in op[1]])
    if k == 'insert':
        return '(Insert %s %s)' % (c_key(op[1]), c_obj(op[2]))
    if k == 'setitem':
        return '(SetItem %s %s)' % (c_key(op[1]), c_obj(op[2]))
    if k == 'delitem':
        return '(DelItem %s)' % c_key(op[1])
    if k == 'pop':
        return '(Pop %s)' % copt(None if op[1] is None else c_key(op[1]))
    if k == 'remove':
        return '(Remove %s)' % c_key(op[1])
    if k == 'clear':
        return 'Clear'
    if k == 'reverse':
        return 'Reverse'
    if k == 'bulk_fail':
        return 'BulkFail'
    if k == 'extend_self':
        return 'ExtendSelf'
    if k == 'reassign_rev':
        return 'ReassignRev'
    raise ValueError(k)


def c_obs(o):
    code, popped, items, gets = o
    return ctuple(core.cnat(code), copt(None if popped is None else cN(popped)),
                  clist([cN(u) for u in items]), clist([cN(u) for u in gets]))


def c_case(case, obs):
    return ctuple(clist([cN(a) for a in case['alphabet']]), clist([c_obj(o) for o in case['init']]),
                  clist([c_op(o) for o in case['ops']]), clist([c_obs(o) for o in obs]))


# ---- running

def crashed(case, reason):
    return {'obs': [], 'fails': [{'step': -1, 'op': ['worker'], 'kind': 'crash-or-hang',
                                 'detail': 'the implementation did not survive this history: ' + reason}]}


def run_impl_cases(cases):
    from concurrent.futures import ThreadPoolExecutor
    chunks = [(i, cases[i:i + 400]) for i in range(0, len(cases), 400)]

    def one(job):
        off, ch = job
        return core.run_cases_bisect('c14', ch, lambda cs: {'cases': cs, 'offset': off}, crashed, timeout=120)
    with ThreadPoolExecutor(max_workers=core.NCPU) as ex:
        outs = list(ex.map(one, chunks))
    return [r for out in outs for r in out]


def failure_of(case, res):
    f = res['fails'][0]
    return {'signature': 'C14:%s:%s' % (f['kind'], f['op'][0]), 'clause': f['kind'],
            'what': 'IndexedList.%s: %s' % (f['op'][0], f['detail']),
            'input': shrink(case, f['kind']), 'detail': f}


def first_failures(cases, results, limit=6):
    """one (shrunk) failure per distinct signature"""
    out, seen = [], set()
    for c, r in zip(cases, results):
        if r['fails']:
            f = r['fails'][0]
            sig = (f['kind'], f['op'][0])
            if sig in seen:
                continue
            seen.add(sig)
            out.append(failure_of(c, r))
            if len(out) >= limit:
                break
    return out


def shrink(case, kind):
    try:
        return core.run_impl('c14', {'shrink': case, 'kind': kind}, timeout=120)
    except Exception:  # noqa
        return case


def corpus_cases():
    import os
    d = os.path.join(core.VERIF, 'corpus', 'C14')
    out = []
    if os.path.isdir(d):
        for fn in sorted(os.listdir(d)):
            if fn.endswith('.json'):
                out.append(json.load(open(os.path.join(d, fn))))
    return out


def run(ctx):
    build_ok, obl, regen = core.std_setup(ctx)
    quick = ctx.quick()
    cases = corpus_cases()
    ncorpus = len(cases)
    nrand = 2000 if quick else 40000
    for _ in range(nrand):
        cases.append(gen_case(ctx.rng, 12 if ctx.rng.random() < 0.8 else 30))
    nexh = 0
    if not quick:
        ex = list(exhaustive_cases())
        nexh = len(ex)
        cases.extend(ex)
    # the same kind of histories run WITHOUT any look-up between the operations (direct oracle
    # only: the per-step observations the Coq comparison needs would themselves be look-ups)
    nsparse = 1500 if quick else 15000
    sparse = []
    for _ in range(nsparse):
        c = gen_case(ctx.rng, 6 if ctx.rng.random() < 0.8 else 14)
        c['sparse'] = True
        sparse.append(c)
    ctx.log('running %d histories on the implementation (+%d without intermediate look-ups)' % (len(cases), len(sparse)))
    results = run_impl_cases(cases)
    sparse_results = run_impl_cases(sparse)
    terms = [c_case(c, r['obs']) for c, r in zip(cases, results)]
    ctx.log('evaluating the model on the same histories inside Coq')
    bad, errors = core.coq_eval_cases(ctx, HEADER, CASE_TYPE, terms, 'C14.mismatches', chunk=400)
    failures = first_failures(cases + sparse, results + sparse_results)
    mismatches = []
    for i in bad[:20]:
        mismatches.append({'case_index': i, 'input': cases[i], 'implementation_observed': results[i]['obs'],
                           'explained_by_known': False})
    # distribution
    seen = set()
    opcount = {}
    errcount = 0
    lens = {}
    for c, r in zip(cases, results):
        h = core.canon_hash([c['init'], c['ops']])
        nontrivial = len(c['ops']) >= 2 and any(o[0] != 0 for o in r['obs']) or len({tuple(x) for x in c['init']}) >= 1
        collide = len({o[1] for o in c['init']}) < len({o[0] for o in c['init']})
        if len(c['ops']) >= 2:
            seen.add(h)
        for o in c['ops']:
            opcount[o[0]] = opcount.get(o[0], 0) + 1
        errcount += sum(1 for o in r['obs'] if o[0] != 0)
        lens[min(len(c['ops']) // 5 * 5, 30)] = lens.get(min(len(c['ops']) // 5 * 5, 30), 0) + 1
    corr = {
        'evaluations': len(cases),
        'distinct_nontrivial': len(seen),
        'rule': 'random histories over 9 objects / 5 ids (collisions frequent), every operation kind and argument form '
                '(int, negative int, id, object), initial list installed through the library attribute; '
                'non-trivial = at least two operations; distinct = different (initial list, history); '
                'thorough adds every history of length <= 2 from a 33-op alphabet on all initial lists of length <= 2',
        'samples': [{'init': c['init'], 'ops': c['ops'], 'observed': r['obs']} for c, r in list(zip(cases, results))[ncorpus:ncorpus + 3]],
        'distribution': {'ops_by_kind': opcount, 'steps_that_raised': errcount, 'history_length_histogram': lens,
                         'corpus_cases': ncorpus, 'exhaustive_slice_cases': nexh,
                         'histories_without_intermediate_lookups': len(sparse)},
        'mismatches': mismatches,
        'errors': errors,
        'exhaustive': bool(nexh),
    }

    def search(mm):
        # the direct oracle already ran on every history; widen it
        extra = [gen_case(ctx.rng, 30) for _ in range(20000)]
        res = run_impl_cases(extra)
        return first_failures(extra, res)

    return core.finish(
        ctx, obligations=obl, regen=regen, build_ok=build_ok, corr=corr, failures=failures, search=search,
        trusted_base=core.BASE_TRUST + [
            'hand-written model Model/IndexedList.v of collada.util.IndexedList, tied to the code by the '
            'step-by-step correspondence (list contents, get() for every id, exception class, popped object)',
            'objects are modelled as (identity, id) pairs; ids are not changed while an object is in a list (renames are C02)',
        ],
        assumptions=['slice assignment/deletion and sort() are outside the property\'s operation list and are not modelled'])


def replay(ctx, body):
    if body.get('kind') == 'no-failing-input-found':
        # the replay names proof obligations / correspondence cases that no longer check: regenerate,
        # rebuild, re-check the obligations and re-run the named cases through model and implementation
        build_ok, obl, regen = core.std_setup(ctx)
        print('regeneration: %s' % json.dumps(regen))
        broken = (not build_ok) or bool(obl['problems']) or not obl['obligations'] or obl['discharged'] != obl['obligations']
        cases = [m['input'] for m in (body.get('mismatching_cases') or []) if m.get('input')]
        bad, errors = [], []
        if cases and not broken:
            results = run_impl_cases(cases)
            terms = [c_case(c, r['obs']) for c, r in zip(cases, results)]
            bad, errors = core.coq_eval_cases(ctx, HEADER, CASE_TYPE, terms, 'C14.mismatches', chunk=400)
        if broken or bad or errors:
            print('still broken: proofs %s; correspondence cases differing %s %s'
                  % (json.dumps(obl['problems'])[:800], bad, json.dumps(errors)[:300]))
            print('VIOLATION property=C14 replay=%s no-failing-input-found' % body.get('replay_cmd', '').split()[-1])
            return 1
        print('replay: all %d proof obligations check against the regenerated programs and the named cases agree now'
              % obl['obligations'])
        return 0
    case = body.get('input') or (body.get('mismatching_cases') or [{}])[0].get('input')
    r = run_impl_cases([case])[0]
    print(json.dumps(r['fails'], indent=1))
    if r['fails']:
        print('VIOLATION property=C14 replay=%s' % body.get('replay_cmd', '').split()[-1])
        return 1
    print('replay: the property clauses hold on this history now')
    return 0
