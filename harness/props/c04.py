"""C04 - every written document is schema-valid COLLADA 1.4.1 and self-consistent."""
import base64
import copy
import json
import os
import re
import xml.etree.ElementTree as ET

from harness import core
from harness.core import cN, cZ, clist, copt, ctuple
from harness.enc import c04enc
from harness.enc.atoms import NS_141

HEADER = ('From Coq Require Import List ZArith NArith.\n'
          'From PC Require Import Base.Atoms Base.Xml Model.SchemaSyntax Model.Schema Model.Bookkeeping Check.C04.\n'
          'Import ListNotations.\n')

HEADER_M = HEADER.replace('Check.C04.', 'Model.EmitDoc Check.C04.')

SHIPPED = ['duck_triangles.dae', 'duck_polylist.dae', 'trifans.dae', 'tristrips.dae', 'cube_tristrips.dae',
           'empty_triangles.dae', 'empty_triangles_with_multiple_ns.dae']
SEM_ORDER = ['VERTEX', 'NORMAL', 'TEXCOORD', 'TEXBINORMAL', 'TEXTANGENT', 'COLOR', 'TANGENT', 'BINORMAL']
FILTERS = ['NONE', 'NEAREST', 'LINEAR', 'NEAREST_MIPMAP_NEAREST', 'LINEAR_MIPMAP_NEAREST', 'NEAREST_MIPMAP_LINEAR',
           'LINEAR_MIPMAP_LINEAR']
SHADER_PROPS = {
    'phong': ['emission', 'ambient', 'diffuse', 'specular', 'shininess', 'reflective', 'reflectivity', 'transparent',
              'transparency', 'index_of_refraction'],
    'lambert': ['emission', 'ambient', 'diffuse', 'reflective', 'reflectivity', 'transparent', 'transparency',
                'index_of_refraction'],
    'constant': ['emission', 'reflective', 'reflectivity', 'transparent', 'transparency', 'index_of_refraction'],
}
SHADER_PROPS['blinn'] = SHADER_PROPS['phong']
ALL_PROPS = SHADER_PROPS['phong']
FLOAT_PROPS = ('shininess', 'reflectivity', 'transparency', 'index_of_refraction')
VEC_NAMES = ['clauses: array-count', 'accessor-source', 'accessor-count-stride', 'accessor-stride-params', 'prim-count',
             'vertex-input', 'unique-ids']
BOOK_INDEX = {'array-count': 0, ('accessor', 'source'): 1, ('accessor', 'count-stride'): 2,
              ('accessor', 'stride-params'): 3, 'prim-count': 4, 'vertex-input': 5, 'unique-ids': 6}


# --------------------------------------------------------------------------- generators

class Names:
    """fresh NCNames: letters, digits, '.', '-', '_', a non-ASCII letter; never a digit first"""
    BASES = ['a', 'geo', 'Mesh_1', 'x-y', '_u', 'n.0', '\u00e9t\u00e9', 'Z9', 'lib-1.b']

    def __init__(self, rng, start=0):
        self.rng = rng
        self.n = start

    def fresh(self):
        self.n += 1
        return '%s%d' % (self.rng.choice(self.BASES), self.n)


def dy(rng):
    """a float that float32 and '%.7g' represent exactly"""
    return rng.choice([0.0, 1.0, -1.0, 0.5, 2.0, 0.25, -3.5, 10.0, 0.125, 7.75, 100.0, -0.0625])


def gen_color(rng, n=None):
    return [dy(rng) for _ in range(n or rng.choice([3, 4]))]


def gen_geometry(rng, nm, matsyms):
    rows = rng.randint(1, 4)
    pos = {'kind': 'float', 'id': nm.fresh(), 'data': [dy(rng) for _ in range(rows * 3)], 'comps': ['X', 'Y', 'Z']}
    sources = [pos]
    extra_inputs = []
    if rng.random() < 0.6:
        r2 = rng.randint(1, 3)
        s = {'kind': 'float', 'id': nm.fresh(), 'data': [dy(rng) for _ in range(r2 * 3)], 'comps': ['X', 'Y', 'Z']}
        sources.append(s)
        extra_inputs.append(('NORMAL', s, r2))
    ntex = rng.choice([0, 0, 1, 2])
    for _ in range(ntex):
        r2 = rng.randint(1, 3)
        s = {'kind': 'float', 'id': nm.fresh(), 'data': [dy(rng) for _ in range(r2 * 2)], 'comps': ['S', 'T']}
        sources.append(s)
        extra_inputs.append(('TEXCOORD', s, r2))
    if rng.random() < 0.25:
        r2 = rng.randint(1, 2)
        s = {'kind': 'float', 'id': nm.fresh(), 'data': [dy(rng) for _ in range(r2 * 4)], 'comps': ['R', 'G', 'B', 'A']}
        sources.append(s)
        extra_inputs.append(('COLOR', s, r2))
    if rng.random() < 0.2:
        r2 = rng.randint(1, 2)
        for sem in ('TEXTANGENT', 'TEXBINORMAL'):
            s = {'kind': 'float', 'id': nm.fresh(), 'data': [dy(rng) for _ in range(r2 * 3)], 'comps': ['X', 'Y', 'Z']}
            sources.append(s)
            extra_inputs.append((sem, s, r2))
    if rng.random() < 0.15:
        # sources no primitive reads, of the other two kinds
        sources.append({'kind': 'name', 'id': nm.fresh(), 'data': [nm.fresh() for _ in range(rng.randint(0, 3))], 'comps': ['JOINT']})
    if rng.random() < 0.1:
        sources.append({'kind': 'idref', 'id': nm.fresh(), 'data': [nm.fresh() for _ in range(rng.randint(1, 3))], 'comps': ['MORPH_TARGET']})
    if rng.random() < 0.3:
        # a second candidate positions source that no primitive reads
        sources.append({'kind': 'float', 'id': nm.fresh(), 'data': [dy(rng) for _ in range(3 * rng.randint(1, 3))], 'comps': ['X', 'Y', 'Z']})
    r = rng.random()
    if r < 0.5:
        # sources in arbitrary order: the constructor builds <vertices> for the FIRST source, which
        # need not be the one the primitives take their VERTEX from (save() has to re-target it)
        rng.shuffle(sources)
    elif r < 0.65:
        sources.remove(pos)
        sources.append(pos)
    prims = []
    for _ in range(rng.choice([0, 1, 1, 1, 2, 3])):
        kind = rng.choice(['triangles', 'triangles', 'lines', 'polylist', 'polygons'])
        layout = rng.choice(['shared', 'distinct', 'gaps'])
        inputs = [[0, 'VERTEX', '#' + pos['id'], None]]
        maxrow = [rows]
        off = 0
        texset = 0
        chosen = [e for e in extra_inputs if rng.random() < 0.7]
        if kind != 'triangles':
            chosen = [e for e in chosen if e[0] not in ('TEXTANGENT', 'TEXBINORMAL')]
        for sem, s, r2 in chosen:
            if layout == 'distinct':
                off += 1
            elif layout == 'gaps':
                off += rng.choice([1, 2])
            st = None
            if sem in ('TEXCOORD', 'TEXTANGENT', 'TEXBINORMAL'):
                st = texset if rng.random() < 0.8 else None
                if sem == 'TEXCOORD':
                    texset += 1
            inputs.append([off, sem, '#' + s['id'], st])
            while len(maxrow) <= off:
                maxrow.append(10 ** 6)
            maxrow[off] = min(maxrow[off], r2)
        nind = max(i[0] for i in inputs) + 1
        while len(maxrow) < nind:
            maxrow.append(10 ** 6)
        maxrow = [1 if m == 10 ** 6 else m for m in maxrow]
        npr = rng.choice([0, 1, 1, 2, 3])
        if kind == 'triangles':
            vcs = [3] * npr
        elif kind == 'lines':
            vcs = [2] * npr
        else:
            vcs = [rng.choice([3, 3, 4, 5, 1, 0] if kind == 'polylist' else [3, 4, 5]) for _ in range(npr)]
        idx = []
        for _ in range(sum(vcs)):
            for o in range(nind):
                idx.append(rng.randrange(maxrow[o]))
        p = {'kind': kind, 'inputs': inputs, 'indices': idx, 'vcounts': vcs, 'nind': nind,
             'material': rng.choice(matsyms) if (matsyms and rng.random() < 0.7) else None}
        prims.append(p)
    return {'id': nm.fresh(), 'name': rng.choice(['', nm.fresh()]), 'sources': sources, 'prims': prims, 'pos': pos['id'],
            'double_sided': rng.random() < 0.2}


def gen_effect(rng, nm, images):
    shader = rng.choice(['phong', 'lambert', 'blinn', 'constant'])
    params, samplers = [], []
    if images and rng.random() < 0.6:
        for _ in range(rng.choice([1, 1, 2])):
            sid = nm.fresh()
            params.append({'kind': 'surface', 'id': sid, 'image': rng.choice(images),
                           'format': rng.choice([None, 'A8R8G8B8', 'R8G8B8'])})
            smp = nm.fresh()
            params.append({'kind': 'sampler', 'id': smp, 'surface': sid, 'min': rng.choice([None] + FILTERS),
                           'mag': rng.choice([None] + FILTERS)})
            samplers.append(smp)
    props = {}
    for p in ALL_PROPS:
        if p not in SHADER_PROPS[shader]:
            props[p] = None
        elif p in FLOAT_PROPS:
            if p in ('transparency', 'index_of_refraction') and rng.random() < 0.4:
                props[p] = None
            else:
                props[p] = ['float', dy(rng)]
        else:
            r = rng.random()
            if r < 0.15:
                props[p] = None
            elif r < 0.4 and samplers:
                props[p] = ['map', rng.choice(samplers), rng.choice(['UV', 'CHANNEL1', nm.fresh()])]
            else:
                props[p] = ['color', gen_color(rng)]
    return {'id': nm.fresh(), 'shader': shader, 'params': params, 'props': props,
            'opaque': rng.choice([None, 'A_ONE', 'RGB_ZERO']), 'double_sided': rng.random() < 0.3}


def gen_light(rng, nm):
    k = rng.choice(['ambient', 'directional', 'point', 'spot'])
    r = {'kind': k, 'id': nm.fresh(), 'color': gen_color(rng, 3)}
    if k in ('point', 'spot'):
        for a in ('catt', 'latt', 'qatt'):
            r[a] = rng.choice([None, dy(rng)])
    if k == 'spot':
        r['fang'] = rng.choice([None, 45.0, 10.0])
        r['fexp'] = rng.choice([None, 1.0, 0.5])
    return r


def gen_camera(rng, nm):
    if rng.random() < 0.5:
        combo = rng.choice([('xfov',), ('yfov',), ('xfov', 'aspect'), ('yfov', 'aspect'), ('xfov', 'yfov')])
        r = {'kind': 'perspective'}
    else:
        combo = rng.choice([('xmag',), ('ymag',), ('xmag', 'aspect'), ('ymag', 'aspect'), ('xmag', 'ymag')])
        r = {'kind': 'orthographic'}
    r.update({'id': nm.fresh(), 'znear': rng.choice([0.125, 1.0]), 'zfar': rng.choice([100.0, 1000.0])})
    for c in combo:
        r[c] = rng.choice([45.0, 30.0, 1.5, 2.0])
    return r


def gen_transform(rng):
    k = rng.choice(['translate', 'rotate', 'scale', 'matrix', 'lookat'])
    if k == 'translate' or k == 'scale':
        return [k, dy(rng), dy(rng), dy(rng)]
    if k == 'rotate':
        return [k, 0.0, 0.0, 1.0, rng.choice([90.0, 45.0, -30.0])]
    if k == 'matrix':
        return [k, [dy(rng) for _ in range(16)]]
    return [k, [dy(rng), dy(rng), 5.0], [0.0, 0.0, 0.0], [0.0, 1.0, 0.0]]


def gen_matnode(rng, nm, sym, materials):
    ins = []
    for i in range(rng.choice([0, 0, 1, 2])):
        ins.append([rng.choice(['UV', 'CHANNEL1', nm.fresh()]), rng.choice(['TEXCOORD', 'COLOR']),
                    rng.choice([None, '0', '1'])])
    return {'symbol': sym, 'target': rng.choice(materials), 'inputs': ins}


def gen_node(rng, nm, lib, depth, libnodes):
    children = []
    for c in lib['cameras']:
        if rng.random() < 0.3:
            children.append(['camera', c])
    for g, syms in lib['geometries']:
        if rng.random() < 0.5:
            mns = []
            if lib['materials']:
                for s in syms:
                    if rng.random() < 0.8:
                        mns.append(gen_matnode(rng, nm, s, lib['materials']))
            children.append(['geometry', g, mns])
    for lg in lib['lights']:
        if rng.random() < 0.3:
            children.append(['light', lg])
    for ln in libnodes:
        if rng.random() < 0.3:
            children.append(['instance_node', ln])
    if depth < 2:
        for _ in range(rng.choice([0, 0, 1, 2])):
            children.append(['node', gen_node(rng, nm, lib, depth + 1, libnodes)])
    if rng.random() < 0.15:
        children.append(['extra'])
    nid = nm.fresh()
    return {'id': nid, 'name': rng.choice([None, nm.fresh()]),
            'transforms': [gen_transform(rng) for _ in range(rng.choice([0, 1, 2, 3]))], 'children': children}


DATES = ['2021-03-04T05:06:07', '2021-03-04T05:06:07.250000', '2021-03-04T05:06:07+05:30', '2021-03-04T05:06:07-03:00',
         '2021-03-04T05:06:07.125000+00:00', '0999-12-31T23:59:59', '0050-01-01T00:00:00+14:00', '9999-12-31T23:59:59.999999-11:45',
         '2024-02-29T12:00:00+00:00']
KINDS = ['geometries', 'lights', 'cameras', 'images', 'effects', 'materials', 'nodes', 'scenes']


def gen_one(rng, nm, kind):
    nolib = {'cameras': [], 'lights': [], 'materials': [], 'geometries': []}
    if kind == 'geometries':
        return gen_geometry(rng, nm, [])
    if kind == 'lights':
        return gen_light(rng, nm)
    if kind == 'cameras':
        return gen_camera(rng, nm)
    if kind == 'images':
        return {'id': nm.fresh(), 'path': 'x/y.png'}
    if kind == 'effects':
        return gen_effect(rng, nm, [])
    if kind == 'materials':
        return {'id': nm.fresh(), 'name': nm.fresh(), 'effect_recipe': gen_effect(rng, nm, [])}
    if kind == 'nodes':
        return gen_node(rng, nm, nolib, 2, [])
    return {'id': nm.fresh(), 'nodes': [gen_node(rng, nm, nolib, 2, [])]}


def gen_library_swap(rng, nm):
    """between two writes, one library is emptied and the first object of another kind is created
    (all ordered pairs of kinds come up over a run)"""
    a, b = rng.sample(KINDS, 2)
    return [['empty_library', b], ['write'], ['empty_library', a], ['add_one', b, gen_one(rng, nm, b)], ['write']]


def gen_asset(rng, nm):
    a = {}
    if rng.random() < 0.5:
        a['title'] = rng.choice(['A title', 'x', 'with <angle> & amp'])
    if rng.random() < 0.3:
        a['subject'] = 'subject ' + nm.fresh()
    if rng.random() < 0.3:
        a['revision'] = rng.choice(['1.0', 'rev 2'])
    if rng.random() < 0.3:
        a['keywords'] = 'k1 k2'
    if rng.random() < 0.5:
        a['unitname'] = rng.choice(['meter', 'inch', 'cm'])
        a['unitmeter'] = rng.choice([1.0, 0.0254, 0.01])
    if rng.random() < 0.5:
        a['upaxis'] = rng.choice(['X_UP', 'Y_UP', 'Z_UP'])
    cs = []
    for _ in range(rng.choice([0, 1, 1, 2])):
        c = {}
        for f in ('author', 'authoring_tool', 'comments', 'copyright'):
            if rng.random() < 0.5:
                c[f] = rng.choice(['someone', 'tool 1.0', 'line one', '(c) 2026'])
        if rng.random() < 0.3:
            c['source_data'] = rng.choice(['file:///tmp/a.max', 'http://example.org/x%20y', 'a/b.dae'])
        cs.append(c)
    a['contributors'] = cs
    if rng.random() < 0.5:
        # user-supplied dates: naive and aware, fractional seconds, offsets +-hh:mm, a year below 1000
        a['created'] = rng.choice(DATES)
    if rng.random() < 0.5:
        a['modified'] = rng.choice(DATES)
    return a


def gen_content(rng, nm, want_scene=True):
    """a bundle of library objects (recipe of the 'add' operation)"""
    r = {}
    if rng.random() < 0.7:
        r['asset'] = gen_asset(rng, nm)
    images = [{'id': nm.fresh(), 'path': rng.choice(['a/b.png', './tex.jpg', 'file:///c:/x.tga', 'b%20c.png'])}
              for _ in range(rng.choice([0, 1, 1, 2]))]
    r['images'] = images
    effects = [gen_effect(rng, nm, [i['id'] for i in images]) for _ in range(rng.choice([0, 1, 1, 2, 3]))]
    r['effects'] = effects
    materials = []
    for e in effects:
        if rng.random() < 0.8:
            materials.append({'id': nm.fresh(), 'name': nm.fresh(), 'effect': e['id']})
    r['materials'] = materials
    matsyms = [nm.fresh() for _ in range(2)]
    geoms = [gen_geometry(rng, nm, matsyms) for _ in range(rng.choice([0, 1, 1, 2]))]
    r['geometries'] = geoms
    r['lights'] = [gen_light(rng, nm) for _ in range(rng.choice([0, 1, 2]))]
    r['cameras'] = [gen_camera(rng, nm) for _ in range(rng.choice([0, 1, 2]))]
    lib = {'cameras': [c['id'] for c in r['cameras']], 'lights': [x['id'] for x in r['lights']],
           'materials': [m['id'] for m in materials],
           'geometries': [(g['id'], sorted({p['material'] for p in g['prims'] if p['material']})) for g in geoms]}
    libnodes = []
    r['nodes'] = []
    for _ in range(rng.choice([0, 0, 1, 2])):
        n = gen_node(rng, nm, lib, 1, list(libnodes))
        r['nodes'].append(n)
        libnodes.append(n['id'])
    r['scenes'] = []
    if want_scene:
        for _ in range(rng.choice([0, 1, 1, 2])):
            r['scenes'].append({'id': nm.fresh(),
                                'nodes': [gen_node(rng, nm, lib, 0, libnodes) for _ in range(rng.choice([1, 1, 2]))]})
        if r['scenes'] and rng.random() < 0.8:
            r['scene'] = rng.randrange(len(r['scenes']))
    return r, lib, libnodes


def gen_edit_op(rng, nm, lib, libnodes):
    k = rng.choice(['rename', 'set_name', 'remove', 'node_transform', 'node_transform', 'node_del_transform', 'node_child',
                    'node_del_child', 'scene_node', 'source_data', 'add_prim', 'del_prim', 'geom_double_sided',
                    'effect_set', 'effect_shader', 'effect_misc', 'sampler_filters', 'surface_format', 'light_set',
                    'camera_set', 'asset', 'contributor_set', 'matnode_inputs', 'geomnode_materials', 'add', 'add_source',
                    'swap_positions', 'swap_positions', 'effect_set', 'effect_set', 'replace_asset', 'replace_asset',
                    'replace_object', 'replace_object', 'replace_object', 'replace_scene',
                    'dup_source', 'dup_source', 'rename_source_reuse', 'source_data', 'source_data', 'dup_object', 'dup_object', 'dup_node',
                    'effect_add_params', 'geomnode_materials', 'matnode_inputs', 'set_scene'])
    i, j = rng.randrange(8), rng.randrange(8)
    if k == 'rename':
        return [k, rng.choice(['geometries', 'lights', 'cameras', 'images', 'effects', 'materials', 'scenes']), i, nm.fresh()]
    if k == 'set_name':
        return [k, rng.choice(['geometries', 'materials']), i, nm.fresh()]
    if k == 'remove':
        return [k, rng.choice(['lights', 'cameras', 'images', 'materials', 'effects', 'geometries']), i]
    if k == 'node_transform':
        return [k, i, rng.randrange(4), gen_transform(rng)]
    if k in ('node_del_transform', 'node_del_child', 'del_prim'):
        return [k, i, j]
    if k == 'node_child':
        opts = [['extra'], ['node', gen_node(rng, nm, {'cameras': [], 'lights': [], 'materials': [], 'geometries': []}, 2, [])]]
        for c in lib['cameras']:
            opts.append(['camera', c])
        for lg in lib['lights']:
            opts.append(['light', lg])
        for g, syms in lib['geometries']:
            opts.append(['geometry', g, []])
        return [k, i, rng.choice(opts)]
    if k == 'scene_node':
        return [k, i, rng.randrange(3), gen_node(rng, nm, lib, 1, libnodes)]
    if k == 'source_data':
        # the Python form of the replacement array (shaped / flat / another width) and, sometimes,
        # a components tuple of another arity
        return [k, i, j, rng.randint(1, 5), rng.choice(['shaped', 'flat', 'flat', 'wide']),
                rng.choice([None, None, ['S', 'T'], ['X', 'Y', 'Z'], ['R', 'G', 'B', 'A'], ['W']])]
    if k == 'swap_positions':
        return [k, i, nm.fresh()]
    if k == 'replace_asset':
        return [k, gen_asset(rng, nm)]
    if k == 'dup_source':
        return [k, i, j, nm.fresh()]
    if k == 'rename_source_reuse':
        return [k, i, j, nm.fresh(), rng.random() < 0.7]
    if k == 'dup_object':
        return [k, rng.choice(['lights', 'cameras', 'materials', 'effects', 'geometries']), i, nm.fresh()]
    if k == 'dup_node':
        return [k, i, nm.fresh(), j]
    if k == 'effect_add_params':
        return [k, i, nm.fresh(), nm.fresh(), j, rng.choice([None, 'A8R8G8B8']), rng.choice([None] + FILTERS),
                rng.choice([None] + FILTERS), rng.random() < 0.5]
    if k == 'set_scene':
        return [k, rng.choice([None, i])]
    if k == 'replace_scene':
        return [k, i]
    if k == 'replace_object':
        which = rng.choice(['lights', 'cameras', 'images', 'effects', 'materials', 'geometries'])
        if which == 'lights':
            r = gen_light(rng, nm)
        elif which == 'cameras':
            r = gen_camera(rng, nm)
        elif which == 'images':
            r = {'path': rng.choice(['new/tex.png', 'z.jpg'])}
        elif which == 'effects':
            r = gen_effect(rng, nm, [])
        elif which == 'materials':
            r = {'name': nm.fresh()}
        else:
            r = gen_geometry(rng, nm, [nm.fresh()])
        return [k, which, i, r]
    if k == 'add_source':
        return [k, i, {'kind': 'float', 'id': nm.fresh(), 'data': [dy(rng) for _ in range(2 * rng.randint(0, 3))], 'comps': ['S', 'T']}]
    if k == 'add_prim':
        return [k, i, j, rng.choice(['triangles', 'lines', 'polylist', 'polygons']), rng.randint(0, 2), rng.choice([None, nm.fresh()])]
    if k == 'geom_double_sided':
        return [k, i, rng.random() < 0.5]
    if k == 'effect_set':
        # the worker resolves the property among those of the effect's current shader
        vc = rng.choice([None, ['color', gen_color(rng)], ['color', gen_color(rng)], ['map', j, 'UV']])
        vf = rng.choice([None, ['float', dy(rng)], ['float', dy(rng)]])
        return [k, i, rng.randrange(10), vc, vf]
    if k == 'effect_shader':
        sh = rng.choice(['phong', 'lambert', 'blinn', 'constant'])
        props = {}
        for p in ALL_PROPS:
            if p not in SHADER_PROPS[sh]:
                props[p] = None
            elif p in ('ambient', 'diffuse', 'specular'):
                props[p] = ['color', gen_color(rng)]
            elif p == 'shininess':
                props[p] = ['float', dy(rng)]
        return [k, i, sh, props]
    if k == 'effect_misc':
        return [k, i, rng.random() < 0.5, rng.choice(['A_ONE', 'RGB_ZERO'])]
    if k == 'sampler_filters':
        return [k, i, rng.choice([None] + FILTERS), rng.choice([None] + FILTERS)]
    if k == 'surface_format':
        return [k, i, rng.choice(['A8R8G8B8', 'R8G8B8', 'R5G6B5'])]
    if k == 'light_set':
        return [k, i, {'color': gen_color(rng, 3), 'constant_att': rng.choice([None, 1.0]), 'quad_att': rng.choice([None, 0.5]),
                       'falloff_ang': rng.choice([None, 30.0])}]
    if k == 'camera_set':
        return [k, i, {'znear': rng.choice([0.5, 1.0]), 'zfar': rng.choice([50.0, 500.0])}]
    if k == 'asset':
        return [k, {kk: vv for kk, vv in gen_asset(rng, nm).items()}]
    if k == 'contributor_set':
        return [k, i, {rng.choice(['author', 'comments', 'copyright', 'authoring_tool']): rng.choice([None, 'changed'])}]
    if k == 'matnode_inputs':
        return [k, i, j, [[nm.fresh(), 'TEXCOORD', rng.choice([None, '0', '3'])] for _ in range(rng.randrange(3))], nm.fresh()]
    if k == 'geomnode_materials':
        if lib['materials'] and rng.random() < 0.7:
            return [k, i, gen_matnode(rng, nm, nm.fresh(), lib['materials'])]
        return [k, i, 'clear']
    if k == 'add':
        content, lib2, ln2 = gen_content(rng, nm, want_scene=rng.random() < 0.5)
        content.pop('scene', None)
        for kk in ('cameras', 'lights', 'materials', 'geometries'):
            lib[kk] = lib[kk] + lib2[kk]
        return [k, content]
    raise ValueError(k)


def expand(rng, op):
    """an edit, possibly preceded by the steps that make it bite: a shading property is first
    removed and the document written, so that setting it re-introduces it into an existing element"""
    if op[0] == 'effect_set' and (op[3] is not None or op[4] is not None) and rng.random() < 0.6:
        return [[op[0], op[1], op[2], None, None], ['write'], op]
    if op[0] in ('replace_asset', 'replace_object', 'replace_scene', 'rename', 'dup_source', 'dup_object',
                 'rename_source_reuse') and rng.random() < 0.5:
        return [['write'], op]      # replacement on a document that was saved once already
    return [op]


def gen_scratch(rng, n):
    nm = Names(rng, n * 1000)
    content, lib, libnodes = gen_content(rng, nm)
    ops = [['add', content]]
    pure = True
    if rng.random() < 0.35:
        pure = False
        if rng.random() < 0.5:
            ops.append(['write'])
        for _ in range(rng.randint(1, 5)):
            ops += expand(rng, gen_edit_op(rng, nm, lib, libnodes))
        if rng.random() < 0.35:
            ops += gen_library_swap(rng, nm)
        if rng.random() < 0.3:
            ops.append(['reload'])
            for _ in range(rng.randint(0, 3)):
                ops += expand(rng, gen_edit_op(rng, nm, lib, libnodes))
    ops.append(['write'])
    return {'kind': 'scratch', 'ops': ops, 'pure': pure, 'numform': rng.choice(['py', 'py', 'f32', 'f64'])}


def gen_edit(rng, n, base_name):
    nm = Names(rng, n * 1000)
    lib = {'cameras': [], 'lights': [], 'materials': [], 'geometries': []}
    ops = []
    for _ in range(rng.randint(0, 7)):
        ops += expand(rng, gen_edit_op(rng, nm, lib, []))
        if ops[-1][0] == 'swap_positions' and rng.random() < 0.6:
            ops.append(['write'])
        if rng.random() < 0.1:
            ops.append(['reload'])
        elif rng.random() < 0.1:
            ops.append(['write'])
    if rng.random() < 0.3:
        ops += gen_library_swap(rng, nm)
    ops.append(['write'])
    return {'kind': 'edit', 'base_name': base_name, 'ops': ops, 'pure': False, 'numform': rng.choice(['py', 'f32', 'f64'])}


# --------------------------------------------------------------------------- mutations for cross-validation

def q(t):
    return '{%s}%s' % (NS_141, t)


def mutate(rng, data):
    """one random single mutation of a document; returns (kind, bytes) or None"""
    ET.register_namespace('', NS_141)
    root = ET.fromstring(data)
    els = [e for e in root.iter() if isinstance(e.tag, str)]
    parents = [e for e in els if len(e)]
    kind = rng.choice(['drop-child', 'swap', 'bad-ncname', 'list-length', 'dup-id', 'unknown-attr', 'bad-enum',
                       'bad-number', 'drop-attr', 'dup-child', 'junk-text', 'bad-date', 'bad-count', 'bad-uri'])
    try:
        if kind == 'drop-child':
            p = rng.choice(parents)
            p.remove(rng.choice(list(p)))
        elif kind == 'swap':
            cands = [(p, i) for p in parents for i in range(len(p) - 1) if p[i].tag != p[i + 1].tag]
            p, i = rng.choice(cands)
            a, b = p[i], p[i + 1]
            p.remove(b)
            p.insert(i, b)
        elif kind == 'bad-ncname':
            cands = [(e, a) for e in els for a in ('id', 'name', 'sid', 'symbol', 'material', 'texcoord') if e.get(a) is not None]
            e, a = rng.choice(cands)
            e.set(a, rng.choice(['1bad', 'a b', '', 'x:y', '-z', '#h', 'ok_name.1', ' padded ']))
        elif kind == 'list-length':
            cands = [e for e in els if e.tag in (q('color'), q('translate'), q('rotate'), q('matrix'), q('scale'), q('lookat'), q('p'), q('float_array'), q('vcount'))]
            e = rng.choice(cands)
            toks = (e.text or '').split()
            if rng.random() < 0.5 and toks:
                toks.pop()
            else:
                toks.append('1')
            e.text = ' '.join(toks)
        elif kind == 'dup-id':
            cands = [e for e in els if e.get('id') is not None]
            a, b = rng.sample(cands, 2)
            b.set('id', a.get('id'))
        elif kind == 'unknown-attr':
            rng.choice(els).set(rng.choice(['foo', 'ident', 'count', 'url']), rng.choice(['1', 'x']))
        elif kind == 'bad-enum':
            cands = [e for e in els if e.tag in (q('up_axis'), q('minfilter'), q('magfilter'))] + [root]
            e = rng.choice(cands)
            if e is root:
                e.set('version', rng.choice(['1.5', '1.4.0', '1.4.1 ', 'x']))
            else:
                e.text = rng.choice(['W_UP', 'LINEAR', 'Y_UP', 'nearest'])
        elif kind == 'bad-number':
            cands = [e for e in els if e.tag in (q('float_array'), q('color'), q('float'), q('p'), q('znear'), q('translate')) and (e.text or '').split()]
            e = rng.choice(cands)
            toks = e.text.split()
            toks[rng.randrange(len(toks))] = rng.choice(['nan', 'abc', '1e5', 'NaN', '-1', '1.5', '+3', 'INF', '0x10', '1,5'])
            e.text = ' '.join(toks)
        elif kind == 'drop-attr':
            cands = [e for e in els if e.attrib]
            e = rng.choice(cands)
            del e.attrib[rng.choice(sorted(e.attrib))]
        elif kind == 'dup-child':
            p = rng.choice(parents)
            c = rng.choice(list(p))
            c2 = copy.deepcopy(c)
            for x in c2.iter():
                if x.get('id') is not None:
                    x.set('id', x.get('id') + '_copy')
            p.insert(list(p).index(c) + rng.choice([0, 1]), c2)
        elif kind == 'junk-text':
            p = rng.choice(parents)
            if rng.random() < 0.5:
                p.text = 'junk'
            else:
                p[0].tail = 'junk'
        elif kind == 'bad-date':
            e = root.find('%s/%s' % (q('asset'), q(rng.choice(['created', 'modified']))))
            e.text = rng.choice(['2026-09-30 19:27:48', '2026-13-01T00:00:00', 'yesterday', '2026-02-29T10:00:00Z', '2024-02-29T10:00:00+01:00', ''])
        elif kind == 'bad-count':
            cands = [e for e in els if e.get('count') is not None or e.get('offset') is not None or e.get('stride') is not None]
            e = rng.choice(cands)
            a = rng.choice([x for x in ('count', 'offset', 'stride') if e.get(x) is not None])
            e.set(a, rng.choice(['-1', '1.0', 'x', '', '007', '+2']))
        elif kind == 'bad-uri':
            cands = [(e, a) for e in els for a in ('url', 'target', 'source') if e.get(a) is not None]
            e, a = rng.choice(cands)
            e.set(a, rng.choice(['#a#b', 'no hash', '%zz', '#ok', 'a/b c', '{x}', 'plain', '^caret', 'back\\slash', 'pipe|', '`tick`', '[br]', '%41ok', 'a%2', '#', '']))
    except (IndexError, ValueError, AttributeError):
        return None
    return kind, ET.tostring(root, encoding='utf-8', xml_declaration=True)


# --------------------------------------------------------------------------- encoding of cases

def bookvec(fails):
    v = [0] * 7
    for clause, site, _ in fails:
        key = (clause, site) if clause == 'accessor' else clause
        if clause == 'unique-ids':
            v[6] = 1
        else:
            v[BOOK_INDEX[key]] += 1
    return v


def c_nats(v):
    return clist([core.cnat(x) for x in v])


def c_dcase(data, scratch, pyvec):
    lt, term, _ = c04enc.encode_doc(data)
    return ctuple(lt, term, core.cbool(scratch), c_nats(pyvec))


def c_xcase(data, expected):
    lt, term, _ = c04enc.encode_doc(data)
    return ctuple(lt, term, core.cbool(expected))


def fmt_float(v):
    return '%.7g' % v


def model_cases(recipe, data):
    """emit-model cases (Coq terms) for the sources and primitives of a pure from-scratch document:
    the model's inputs come from the recipe, the element from the written bytes"""
    enc = c04enc.Enc04()
    root = ET.fromstring(data)
    scases, pcases = [], []
    content = recipe['ops'][0][1]
    bysrc = {s.get('id'): s for s in root.iter(q('source')) if s.get('id')}
    bygeom = {g.get('id'): g for g in root.iter(q('geometry'))}
    for g in content.get('geometries', []):
        for s in g['sources']:
            x = bysrc.get(s['id'])
            if x is None:
                continue
            if s['kind'] == 'float':
                vals = enc.toks(' '.join(fmt_float(v) for v in s['data']))[6:-1]
                arrtag, ptype = 'float_array', 'float'
            else:
                vals = enc.toks(' '.join(s['data']))[6:-1]
                arrtag, ptype = ('Name_array', 'IDREF') if s['kind'] == 'name' else ('IDREF_array', 'IDREF')
            m = '(SrcM %s %s %s %s %s %s)' % (cN(enc.I.atom(s['id'])), cN(enc.I.atom(s['id'] + '-array')), vals,
                                              clist([cN(enc.I.atom(c)) for c in s['comps']]),
                                              cN(enc.I.atom(arrtag)), cN(enc.I.atom(ptype)))
            scases.append(ctuple(m, enc.element(x)))
        gx = bygeom.get(g['id'])
        if gx is None:
            continue
        mesh = gx.find(q('mesh'))
        prims = [c for c in mesh if c.tag.split('}')[-1] in c04enc.PRIMS]
        # Geometry.save re-targets <vertices> at the source the primitives' VERTEX inputs name
        vref = g['pos'] if g['prims'] else g['sources'][0]['id']
        vid = vref + '-vertices'
        for p, x in zip(g['prims'], prims):
            ins = sorted(p['inputs'], key=lambda i: SEM_ORDER.index(i[1]))
            cins = clist(['(InpM %s %s %s %s)' % (cZ(i[0]), cN(enc.I.atom(i[1])), enc.aval(i[2]),
                                                 copt(None if i[3] is None else enc.aval(str(i[3])))) for i in ins])
            nind = p['nind']
            if p['kind'] == 'polygons':
                streams, pos = [], 0
                for vc in p['vcounts']:
                    streams.append(p['indices'][pos:pos + vc * nind])
                    pos += vc * nind
            else:
                streams = [p['indices']]
            cidx = clist([clist(['TInt %s' % cZ(v) for v in st]) for st in streams])
            kind = {'triangles': 'KTriangles', 'lines': 'KLines', 'polygons': 'KPolygons'}.get(p['kind'])
            if kind is None:
                kind = '(KPolylist %s)' % clist([cZ(v) for v in p['vcounts']])
            mat = copt(None if p['material'] is None else enc.aval(p['material']))
            m = '(PrimM %s %s %s %s)' % (kind, cins, cidx, mat)
            pcases.append(ctuple(cN(enc.I.atom(vid)), cN(enc.I.atom(vref)), m, enc.element(x)))
    return scases, pcases


# --------------------------------------------------------------------------- the whole-writer model (Model/EmitDoc.v)

def _fnum(v):
    return repr(float(v))


class DocModel:
    """Encodes the user content of a pure from-scratch recipe as a Coq term of type EmitDoc.doc.
    Numbers are formatted with the runtime (repr of a Python float; '%.7g' for source data), free
    text is tokenised like the written file; the defaults the constructors apply (transparency,
    colour padding, name = id, surface format) are applied here as the code documents them."""

    def __init__(self, enc):
        self.enc = enc

    def T(self, text):
        return self.enc.toks(text)[6:-1]

    def OT(self, text):
        return 'None' if text is None else '(Some %s)' % self.T(str(text))

    def nums(self, vals):
        return self.T(' '.join(_fnum(v) for v in vals))

    def onum(self, v):
        return 'None' if v is None else '(Some %s)' % self.nums([v])

    def av(self, s):
        return self.enc.aval(s)

    def at(self, s):
        return cN(self.enc.word(s))

    def asset(self, r, root):
        a = root.find(q('asset'))
        cs = []
        for c in r.get('contributors', []):
            cs.append('(Contributor %s %s %s %s %s)' % (self.OT(c.get('author')), self.OT(c.get('authoring_tool')), self.OT(c.get('comments')),
                                                         self.OT(c.get('copyright')), self.OT(c.get('source_data'))))
        unit = 'None'
        if r.get('unitname') is not None and r.get('unitmeter') is not None:
            unit = '(Some (%s, %s))' % (self.av(r['unitname']), self.av(str(r['unitmeter'])))
        return '(Asset %s %s %s %s %s %s %s %s %s)' % (
            clist(cs), self.T(a.find(q('created')).text), self.T(a.find(q('modified')).text), self.OT(r.get('keywords')),
            self.OT(r.get('revision')), self.OT(r.get('subject')), self.OT(r.get('title')), unit, self.T(r.get('upaxis') or 'Y_UP'))

    def camera(self, r):
        persp = r['kind'] == 'perspective'
        x, y = (r.get('xfov'), r.get('yfov')) if persp else (r.get('xmag'), r.get('ymag'))
        return '(Camera %s %s %s %s %s %s %s)' % (self.av(r['id']), core.cbool(persp), self.onum(x), self.onum(y), self.onum(r.get('aspect')),
                                                  self.nums([r['znear']]), self.nums([r['zfar']]))

    def pval(self, v):
        if v is None:
            return 'None'
        if v[0] == 'color':
            col = list(v[1])
            while len(col) < 3:
                col.append(0.0)
            while len(col) < 4:
                col.append(1.0)
            return '(Some (VColor %s))' % self.nums(col)
        if v[0] == 'float':
            return '(Some (VFloat %s))' % self.nums([v[1]])
        return '(Some (VMap %s %s))' % (self.av(v[1]), self.av(v[2]))

    def effect(self, r):
        ps = []
        for p in r.get('params', []):
            if p['kind'] == 'surface':
                ps.append('(PSurface %s %s %s)' % (self.av(p['id']), self.T(p['image']), self.T(p.get('format') or 'A8R8G8B8')))
            else:
                ps.append('(PSampler %s %s %s %s)' % (self.av(p['id']), self.T(p['surface']), self.OT(p.get('min') or None), self.OT(p.get('mag') or None)))
        props = dict(r['props'])
        if props.get('transparency') is None:
            props['transparency'] = ['float', 0.0 if r.get('opaque') == 'RGB_ZERO' else 1.0]
        sh = {'phong': 'ShPhong', 'lambert': 'ShLambert', 'blinn': 'ShBlinn', 'constant': 'ShConstant'}[r['shader']]
        return '(Effect %s %s %s %s %s %s %s)' % (self.av(r['id']), self.av('common'), clist(ps), sh,
                                                 ' '.join(self.pval(props.get(k)) for k in ALL_PROPS),
                                                 core.cbool(r.get('opaque') == 'RGB_ZERO'), self.T('1' if r.get('double_sided') else '0'))

    def source(self, s):
        if s['kind'] == 'float':
            vals = self.T(' '.join(fmt_float(v) for v in s['data']))
            arrtag, ptype = 'float_array', 'float'
        else:
            vals = self.T(' '.join(s['data']))
            arrtag, ptype = ('Name_array', 'IDREF') if s['kind'] == 'name' else ('IDREF_array', 'IDREF')
        return '(SrcM %s %s %s %s %s %s)' % (self.at(s['id']), self.at(s['id'] + '-array'), vals,
                                            clist([self.at(c) for c in s['comps']]), self.at(arrtag), self.at(ptype))

    def prim(self, p):
        ins = sorted(p['inputs'], key=lambda i: SEM_ORDER.index(i[1]))
        cins = clist(['(InpM %s %s %s %s)' % (cZ(i[0]), self.at(i[1]), self.av(i[2]), copt(None if i[3] is None else self.av(str(i[3])))) for i in ins])
        nind = p['nind']
        if p['kind'] == 'polygons':
            streams, pos = [], 0
            for vc in p['vcounts']:
                streams.append(p['indices'][pos:pos + vc * nind])
                pos += vc * nind
        else:
            streams = [p['indices']]
        cidx = clist([clist(['TInt %s' % cZ(v) for v in st]) for st in streams])
        kind = {'triangles': 'KTriangles', 'lines': 'KLines', 'polygons': 'KPolygons'}.get(p['kind']) or \
            '(KPolylist %s)' % clist([cZ(v) for v in p['vcounts']])
        return '(PrimM %s %s %s %s)' % (kind, cins, cidx, copt(None if p['material'] is None else self.av(p['material'])))

    def geometry(self, g):
        vref = g['pos'] if g['prims'] else g['sources'][0]['id']
        return '(Geometry %s %s %s %s %s %s %s %s)' % (
            self.av(g['id']), copt(self.av(g['name']) if g.get('name') else None), self.source(g['sources'][0]),
            clist([self.source(s) for s in g['sources'][1:]]), self.at(vref + '-vertices'), self.at(vref),
            clist([self.prim(p) for p in g['prims']]), core.cbool(bool(g.get('double_sided'))))

    def light(self, r):
        k = {'ambient': 'LAmbient', 'directional': 'LDirectional', 'point': 'LPoint', 'spot': 'LSpot'}[r['kind']]
        pt = r['kind'] in ('point', 'spot')
        sp = r['kind'] == 'spot'
        return '(Light %s %s %s %s %s %s %s %s)' % (self.av(r['id']), k, self.nums(r['color']),
                                                   self.onum(r.get('catt') if pt else None), self.onum(r.get('latt') if pt else None),
                                                   self.onum(r.get('qatt') if pt else None), self.onum(r.get('fang') if sp else None),
                                                   self.onum(r.get('fexp') if sp else None))

    def transform(self, t):
        k = {'translate': 'TTranslate', 'rotate': 'TRotate', 'scale': 'TScale', 'matrix': 'TMatrix', 'lookat': 'TLookat'}[t[0]]
        if t[0] == 'matrix':
            vals = t[1]
        elif t[0] == 'lookat':
            vals = list(t[1]) + list(t[2]) + list(t[3])
        else:
            vals = t[1:]
        return '(%s, %s)' % (k, self.nums(vals))

    def matnode(self, m):
        ins = clist(['(Bvi %s %s %s)' % (self.av(i[0]), self.av(i[1]), copt(None if i[2] is None else self.av(str(i[2])))) for i in m.get('inputs', [])])
        return '(MatNode %s %s %s)' % (self.av(m['symbol']), self.at(m['target']), ins)

    def child(self, c):
        k = c[0]
        if k == 'camera':
            return '(SCamera %s)' % self.at(c[1])
        if k == 'geometry':
            return '(SGeometry %s %s)' % (self.at(c[1]), clist([self.matnode(m) for m in c[2]]))
        if k == 'light':
            return '(SLight %s)' % self.at(c[1])
        if k == 'instance_node':
            return '(SInst %s)' % self.at(c[1])
        if k == 'node':
            return self.node(c[1])
        return 'SExtra'

    def node(self, n):
        return '(SNode %s %s %s %s)' % (self.av(n['id']), self.av(n['name'] if n.get('name') is not None else n['id']),
                                        clist([self.transform(t) for t in n.get('transforms', [])]),
                                        clist([self.child(c) for c in n.get('children', [])]))

    def doc(self, content, root):
        for w in ('GOOGLEEARTH', 'MAX3D', 'POSITION'):
            self.enc.word(w)
        scenes = content.get('scenes', [])
        cs = clist(['(VScene %s %s %s)' % (self.av(s['id']), self.node(s['nodes'][0]), clist([self.node(n) for n in s['nodes'][1:]])) for s in scenes])
        sc = 'None' if content.get('scene') is None else '(Some %s)' % self.at(scenes[content['scene']]['id'])
        return '(Doc %s %s %s %s %s %s %s %s %s %s)' % (
            self.asset(content.get('asset', {}), root),
            clist([self.camera(c) for c in content.get('cameras', [])]),
            clist([self.effect(e) for e in content.get('effects', [])]),
            clist([self.geometry(g) for g in content.get('geometries', [])]),
            clist(['(Image %s %s)' % (self.av(i['id']), self.T(i['path'])) for i in content.get('images', [])]),
            clist([self.light(x) for x in content.get('lights', [])]),
            clist(['(Material %s %s %s)' % (self.av(m['id']), self.av(m['name']), self.at(m['effect'])) for m in content.get('materials', [])]),
            clist([self.node(n) for n in content.get('nodes', [])]), cs, sc)


def c_mcase(recipe, data):
    enc = c04enc.Enc04()
    root = ET.fromstring(data)
    term = enc.element(root)
    d = DocModel(enc).doc(recipe['ops'][0][1], root)
    return ctuple(enc.lex_table(), term, d)


# --------------------------------------------------------------------------- oracle

ERR_RE = re.compile(r"Element '(?:\{[^}]*\})?([^']+)'(?:, attribute '(?:\{[^}]*\})?([^']+)')?: (.*)")


def schema_signature(msg):
    m = ERR_RE.search(msg or '')
    if not m:
        return 'C04:schema:unparsed', msg
    el, at, text = m.groups()
    if 'This element is not expected' in text:
        kind = 'unexpected-element'
    elif 'Missing child element' in text:
        kind = 'missing-child'
    elif 'is not a valid value' in text:
        kind = 'invalid-value'
    elif 'is not allowed' in text:
        kind = 'attribute-not-allowed'
    elif 'is required but missing' in text:
        kind = 'attribute-missing'
    elif 'Character content' in text:
        kind = 'text-in-element-only'
    else:
        kind = 'other'
    return 'C04:schema:%s%s:%s' % (el, '@' + at if at else '', kind), text[:200]


VARIANT_BASES = ['corpus:rich_base.dae', 'corpus:sparse_base.dae', 'corpus:strip_base.dae']
CORPUS_BASES = ['corpus:rich_base.dae', 'corpus:rich_base.dae+split', 'duck_triangles.dae+split', 'corpus:sparse_base.dae',
                'corpus:sparse_base.dae', 'corpus:strip_base.dae']


def base_path(name):
    if name.startswith('corpus:'):
        return os.path.join(core.VERIF, 'corpus', 'C04', name.split(':', 1)[1].replace('+split', ''))
    return os.path.join(core.REPO, 'collada', 'tests', 'data', name.replace('+split', ''))


class Harness:
    def __init__(self, ctx):
        self.ctx = ctx
        self.xl = c04enc.Xmllint(core.REPO, ctx.scratch)
        self.bases = {}

    def base(self, name):
        """shrunk shipped document (bytes), or None when it is not a schema-valid base"""
        if name not in self.bases:
            if name.endswith('+split'):
                self.bases[name] = c04enc.split_libraries(self.base(name[:-6]))
            else:
                self.bases[name] = c04enc.shrink_dae(open(base_path(name), 'rb').read())
        return self.bases[name]

    def run_recipes(self, recipes):
        payload = []
        for r in recipes:
            r2 = dict(r)
            if r['kind'] == 'edit' and 'base' not in r:
                r2['base'] = base64.b64encode(self.base(r['base_name'])).decode()
            payload.append(r2)
        chunks = [payload[i:i + 40] for i in range(0, len(payload), 40)]

        def crashed(case, reason):
            return {'ok': False, 'crash': True, 'error': 'crash-or-hang: ' + reason, 'docs': []}

        def one(ch):
            return core.run_cases_bisect('c04', ch, lambda cs: {'recipes': cs}, crashed, timeout=300)
        from concurrent.futures import ThreadPoolExecutor
        with ThreadPoolExecutor(max_workers=core.NCPU) as ex:
            outs = list(ex.map(one, chunks))
        return [x for o in outs for x in o]


def doc_failures(recipe, di, data, xres, fails):
    out = []
    if xres is not None and not xres[0]:
        sig, text = schema_signature(xres[1])
        out.append({'signature': sig, 'clause': 'schema-valid', 'what': 'written document does not validate: %s' % xres[1][:200],
                    'input': {'recipe': recipe, 'doc_index': di}, 'detail': text})
    for clause, site, detail in fails:
        out.append({'signature': 'C04:%s:%s' % (clause, site), 'clause': clause, 'what': 'bookkeeping: ' + detail,
                    'input': {'recipe': recipe, 'doc_index': di}, 'detail': detail})
    return out


def run(ctx):
    build_ok, obl, regen = core.std_setup(ctx)
    H = Harness(ctx)
    quick = ctx.quick()
    rng = ctx.rng
    have_xl = H.xl.available()
    ctx.log('xmllint: %s' % (H.xl.exe if have_xl else 'ABSENT - no cross-validation in this run'))

    # ---- (a) shipped files: cross-validation pool and bases for edit histories
    xdocs = []      # (label, bytes) for cross-validation
    valid_bases = []
    for name in SHIPPED + CORPUS_BASES:
        try:
            full = open(base_path(name), 'rb').read()
            small = H.base(name)
        except Exception as e:  # noqa
            ctx.log('shipped file %s unusable: %r' % (name, e))
            continue
        xdocs.append(('shipped-shrunk:' + name, small))
        if len(full) < 20000 and not name.endswith('+split'):
            xdocs.append(('shipped:' + name, full))
    if have_xl:
        ver = H.xl.validate_many([d for _, d in xdocs])
        for (label, d), (ok, _) in zip(xdocs, ver):
            if label.startswith('shipped-shrunk:') and ok:
                valid_bases.append(label.split(':', 1)[1])
    else:
        valid_bases = ['duck_triangles.dae', 'duck_polylist.dae', 'trifans.dae', 'tristrips.dae'] + CORPUS_BASES
    ctx.log('schema-valid shipped bases: %s' % valid_bases)

    # ---- (b) documents written by the implementation
    nscratch, nedit = (100, 80) if quick else (1600, 1200)
    recipes = [gen_scratch(rng, i) for i in range(nscratch)]
    recipes += [gen_edit(rng, nscratch + i, rng.choice(valid_bases)) for i in range(nedit)] if valid_bases else []
    cdir = os.path.join(core.VERIF, 'corpus', 'C04')
    ncorpus = 0
    if os.path.isdir(cdir):
        for fn in sorted(os.listdir(cdir)):
            if fn.endswith('.json'):
                recipes.insert(0, json.load(open(os.path.join(cdir, fn)))['recipe'])
                ncorpus += 1
    # ---- every schema-valid, self-consistent single-step neighbour of the corpus bases is loaded and
    # written (one element duplicated / removed / emptied, one attribute removed)
    vdocs = []
    for name in VARIANT_BASES:
        try:
            vdocs += [(name + ':' + lab, d) for lab, d in c04enc.variants(H.base(name))]
        except Exception as e:  # noqa
            ctx.log('variants of %s unusable: %r' % (name, e))
    if have_xl:
        vver = H.xl.validate_all([d for _, d in vdocs], jobs=min(8, core.NCPU))
        vvalid = [(lab, d) for (lab, d), (ok, _) in zip(vdocs, vver) if ok and not c04enc.book_fails(d)]
    else:
        cand = [v for v in rng.sample(vdocs, min(60, len(vdocs))) if not c04enc.book_fails(v[1])]
        vb, _ = core.coq_eval_cases(ctx, HEADER, 'C04.xcase', [c_xcase(d, True) for _, d in cand], 'C04.xmismatches', chunk=15, label='vfilter')
        vvalid = [v for i, v in enumerate(cand) if i not in set(vb)]
    nvariants = len(vvalid)
    variant_first = len(recipes)
    for lab, d in vvalid:
        recipes.append({'kind': 'edit', 'base_name': lab, 'base': base64.b64encode(d).decode(), 'ops': [['write']], 'pure': False,
                        'variant': True})
    # ---- every single assignment of an optional field that save() has to create a child for, on the
    # corpus bases (oracle-only like the variants): contributor fields, light parameters, sampler
    # filters, shader parameters
    nsingle = 0
    for name in ('corpus:rich_base.dae', 'corpus:sparse_base.dae'):
        if name not in valid_bases:
            continue
        singles = []
        for c in range(2):
            for f, v in (('author', 'filled'), ('authoring_tool', 'filled'), ('comments', 'filled'), ('copyright', 'filled'),
                         ('source_data', 'file:///filled')):
                singles.append(['contributor_set', c, {f: v}])
        for li in range(3):
            for a in ('constant_att', 'linear_att', 'quad_att', 'falloff_ang', 'falloff_exp'):
                singles.append(['light_set', li, {a: 0.5}])
        for si in range(2):
            for mn, mg in (('LINEAR', None), (None, 'LINEAR'), ('NEAREST', 'LINEAR')):
                singles.append(['sampler_filters', si, mn, mg])
        for ei in range(2):
            for k in range(10):
                singles.append(['effect_set', ei, k, ['color', [0.5, 0.5, 0.5, 1.0]], ['float', 0.5]])
        for op in singles:
            recipes.append({'kind': 'edit', 'base_name': name, 'ops': [op, ['write']], 'pure': False, 'variant': True})
            nsingle += 1
    nvariants += nsingle
    ctx.log('%d single-step variants of the corpus bases, %d schema-valid and self-consistent; %d single optional-field assignments'
            % (len(vdocs), nvariants - nsingle, nsingle))
    ctx.log('running %d recipes on the implementation' % len(recipes))
    results = H.run_recipes(recipes)
    docs = []       # (recipe index, doc index, bytes, scratch-conformance wanted)
    raised = []
    odocs = []      # variant outputs checked by the direct oracle only (xmllint + Python bookkeeping)
    in_coq = set(rng.sample(range(variant_first, len(recipes)), min(20 if quick else 400, len(recipes) - variant_first)))
    for ri, (r, res) in enumerate(zip(recipes, results)):
        if not res['ok']:
            raised.append({'recipe_index': ri, 'error': res['error']})
        nd = len(res['docs'])
        for di, b in enumerate(res['docs']):
            if r.get('variant') and have_xl and ri not in in_coq:
                odocs.append((ri, di, base64.b64decode(b)))
            else:
                docs.append((ri, di, base64.b64decode(b), r['kind'] == 'scratch'))
    ctx.log('%d documents written (%d recipes raised: %s)' % (len(docs), len(raised), [x['error'][:80] for x in raised[:3]]))

    xres = H.xl.validate_many([d for _, _, d, _ in docs]) if have_xl else [None] * len(docs)
    pyfails = [c04enc.book_fails(d) for _, _, d, _ in docs]
    dterms = [c_dcase(d, scratch, bookvec(f)) for (_, _, d, scratch), f in zip(docs, pyfails)]
    ctx.log('validating every written document inside Coq')
    dbad, derr = core.coq_eval_cases(ctx, HEADER, 'C04.dcase', dterms, 'C04.dmismatches', chunk=12, label='docs')

    # ---- emit-model cases
    sterms, pterms = [], []
    for ri, di, d, scratch in docs:
        r = recipes[ri]
        if r.get('pure') and r['kind'] == 'scratch' and di == len(results[ri]['docs']) - 1:
            s, p = model_cases(r, d)
            sterms += s
            pterms += p
    mterms, mrecipes = [], []
    for ri, di, d, scratch in docs:
        r = recipes[ri]
        if r.get('pure') and r['kind'] == 'scratch' and di == len(results[ri]['docs']) - 1:
            mterms.append(c_mcase(r, d))
            mrecipes.append(ri)
    mbad, merr = core.coq_eval_cases(ctx, HEADER_M, 'C04.mcase', mterms, 'C04.mmismatches', chunk=12, label='model')
    sbad, serr = core.coq_eval_cases(ctx, HEADER, 'C04.scase', sterms, 'C04.smismatches', chunk=100, label='srcs')
    pbad, perr = core.coq_eval_cases(ctx, HEADER, 'C04.pcase', pterms, 'C04.pmismatches', chunk=100, label='prims')

    # ---- (c) cross-validation of translator + interpreter against xmllint
    xstats = {'pool': 0, 'valid': 0, 'invalid': 0, 'by_mutation': {}}
    disagreements = []
    if have_xl:
        nmut = 110 if quick else 1500
        seeds = [d for (_, _, d, _), xr in zip(docs, xres) if xr[0]]
        for i in range(nmut):
            if not seeds:
                break
            m = mutate(rng, seeds[i % len(seeds)])
            if m is not None:
                xdocs.append(('mutation:' + m[0], m[1]))
        xver = H.xl.validate_many([d for _, d in xdocs])
        xterms = [c_xcase(d, ok) for (_, d), (ok, _) in zip(xdocs, xver)]
        xbad, xerr = core.coq_eval_cases(ctx, HEADER, 'C04.xcase', xterms, 'C04.xmismatches', chunk=15, label='xval')
        for (label, _), (ok, _) in zip(xdocs, xver):
            xstats['pool'] += 1
            xstats['valid' if ok else 'invalid'] += 1
            k = label.split(':')[1] if label.startswith('mutation:') else label.split(':')[0]
            st = xstats['by_mutation'].setdefault(k, [0, 0])
            st[0 if ok else 1] += 1
        for i in xbad:
            disagreements.append({'doc': xdocs[i][0], 'xmllint_valid': xver[i][0], 'xmllint_message': xver[i][1][:200],
                                  'text': xdocs[i][1].decode('utf-8', 'replace')[:30000]})
        if xerr:
            disagreements.append({'coq_errors': xerr})
        # written documents: the in-Coq verdict against xmllint's
        if not derr:
            vterms_idx = [i for i in dbad]
            if vterms_idx:
                vb, verr = core.coq_eval_cases(ctx, HEADER, 'C04.xcase',
                                               [c_xcase(docs[i][2], xres[i][0]) for i in vterms_idx],
                                               'C04.xmismatches', chunk=15, label='xdocs')
                for j in vb:
                    i = vterms_idx[j]
                    disagreements.append({'doc': 'written document of recipe %d' % docs[i][0], 'xmllint_valid': xres[i][0],
                                          'xmllint_message': xres[i][1][:200], 'recipe': recipes[docs[i][0]]})
    if disagreements:
        p = core.write_replay(ctx, 90, {'kind': 'harness-error', 'what': 'Gallina validator and xmllint disagree',
                                        'disagreements': disagreements[:10]})
        print('HARNESS ERROR property=C04: the in-Coq schema validator (translator + interpreter) and xmllint disagree on '
              '%d document(s); details in %s' % (len(disagreements), p), flush=True)
        ctx.close()
        return 2

    # ---- verdict
    failures = []
    if not have_xl and dbad and not derr:
        # without xmllint the in-Coq validator is the schema oracle
        vb, _ = core.coq_eval_cases(ctx, HEADER, 'C04.xcase', [c_xcase(docs[i][2], True) for i in dbad],
                                    'C04.xmismatches', chunk=15, label='coqoracle')
        for j in vb[:10]:
            ri, di, d, _ = docs[dbad[j]]
            failures.append({'signature': 'C04:schema:coq-validator', 'clause': 'schema-valid',
                             'what': 'written document rejected by the in-Coq schema validator (xmllint absent)',
                             'input': {'recipe': recipes[ri], 'doc_index': di}, 'detail': 'validate schema141 doc = false'})
    for ri, res in enumerate(results):
        if res.get('crash'):
            failures.append({'signature': 'C04:crash-or-hang:write', 'clause': 'crash-or-hang', 'kind': 'crash-or-hang',
                             'what': 'building/writing the document crashed or hung the worker: %s' % res['error'][:200],
                             'input': {'recipe': recipes[ri], 'doc_index': 0}, 'detail': res['error']})
    for (ri, di, d, _), xr, fl in zip(docs, xres, pyfails):
        failures += doc_failures(recipes[ri], di, d, xr, fl)
    if odocs:
        oxr = H.xl.validate_all([d for _, _, d in odocs], jobs=min(8, core.NCPU))
        for (ri, di, d), xr in zip(odocs, oxr):
            failures += doc_failures(recipes[ri], di, d, xr, c04enc.book_fails(d))
    mismatches = []
    known = {k['signature'] for k in core.load_known() if k.get('property') == 'C04'}
    for i in dbad[:20]:
        ri, di, d, _ = docs[i]
        fs = doc_failures(recipes[ri], di, d, xres[i], pyfails[i])
        mismatches.append({'kind': 'written-document', 'recipe_index': ri, 'doc_index': di, 'input': {'recipe': recipes[ri], 'doc_index': di},
                           'oracle': [f['signature'] for f in fs],
                           'explained_by_known': bool(fs) and all(f['signature'] in known for f in fs)})
    for i in mbad[:5]:
        mismatches.append({'kind': 'whole-writer-model (wf_user of the encoded content, emit d = written tree)', 'recipe_index': mrecipes[i],
                           'input': {'recipe': recipes[mrecipes[i]], 'doc_index': 0}, 'explained_by_known': False})
    for i in sbad[:5]:
        mismatches.append({'kind': 'emit-model-source', 'case_index': i, 'explained_by_known': False})
    for i in pbad[:5]:
        mismatches.append({'kind': 'emit-model-primitive', 'case_index': i, 'explained_by_known': False})

    seen = set()
    dist = {'recipes': len(recipes), 'scratch': nscratch, 'edit_histories': len(recipes) - nscratch - ncorpus - nvariants, 'corpus': ncorpus,
            'recipes_that_raised': len(raised), 'raised_examples': raised[:3],
            'documents': len(docs) + len(odocs), 'variant_bases': nvariants, 'variant_documents_oracle_only': len(odocs), 'whole_writer_model_cases': len(mterms), 'source_model_cases': len(sterms), 'primitive_model_cases': len(pterms),
            'xmllint': H.xl.exe if have_xl else 'absent', 'cross_validation': xstats, 'bases': valid_bases,
            'ops': {}, 'prim_kinds': {}, 'shaders': {}, 'lights': {}, 'cameras': {}}
    for r in recipes:
        for op in r['ops']:
            dist['ops'][op[0]] = dist['ops'].get(op[0], 0) + 1
            if op[0] == 'add':
                c = op[1]
                for g in c.get('geometries', []):
                    for p in g['prims']:
                        dist['prim_kinds'][p['kind']] = dist['prim_kinds'].get(p['kind'], 0) + 1
                for e in c.get('effects', []):
                    dist['shaders'][e['shader']] = dist['shaders'].get(e['shader'], 0) + 1
                for x in c.get('lights', []):
                    dist['lights'][x['kind']] = dist['lights'].get(x['kind'], 0) + 1
                for x in c.get('cameras', []):
                    dist['cameras'][x['kind']] = dist['cameras'].get(x['kind'], 0) + 1
    for (ri, di, d, _) in docs:
        if len(d) > 1500:
            seen.add(core.canon_hash([recipes[ri]['ops'], di]))
    corr = {
        'evaluations': len(docs) + len(sterms) + len(pterms) + len(mterms),
        'distinct_nontrivial': len(seen),
        'rule': 'a written document counts as non-trivial when it is larger than 1500 bytes (more than the empty skeleton); '
                'distinct = different (recipe, write index)',
        'samples': [{'recipe_ops': [o[0] for o in recipes[ri]['ops']], 'bytes': len(d), 'xmllint': (xr[0] if xr else None),
                     'bookkeeping_failures': fl} for (ri, di, d, _), xr, fl in list(zip(docs, xres, pyfails))[:3]],
        'distribution': dist,
        'mismatches': mismatches,
        'errors': derr + serr + perr + merr,
    }

    def search(mm):
        extra = [gen_scratch(rng, 5000 + i) for i in range(150)]
        extra += [gen_edit(rng, 6000 + i, rng.choice(valid_bases)) for i in range(100)] if valid_bases else []
        res = H.run_recipes(extra)
        out = []
        ds = [(r, di, base64.b64decode(b)) for r, x in zip(extra, res) for di, b in enumerate(x['docs'])]
        xr = H.xl.validate_many([d for _, _, d in ds]) if have_xl else [None] * len(ds)
        for (r, di, d), x in zip(ds, xr):
            out += doc_failures(r, di, d, x, c04enc.book_fails(d))
        return out

    return core.finish(
        ctx, obligations=obl, regen=regen, build_ok=build_ok, corr=corr, failures=failures, search=search,
        trusted_base=core.BASE_TRUST + [
            'XSD->Gallina translator harness/translate/schema141.py (accepted fragment and cut list in the header of Gen/Schema141.v) '
            'and interpreter Model/Schema.v, cross-validated in this run against xmllint on shipped files, written documents '
            'and single-mutation invalidations' + ('' if have_xl else ' - NOT in this run: xmllint absent'),
            'lexical classification of strings (NCName, Name, NMTOKEN, dateTime, anyURI, double, boolean) in harness/enc/c04enc.py',
            'hand-written emit grammar Model/EmitGrammar.v, tied to the code by checking conforms on every from-scratch document',
            'hand-written emit model of sources and primitives Model/Bookkeeping.v, tied by comparing the emitted element with the written one',
        ],
        assumptions=['xs:IDREF resolution is not checked (libxml2 does not either)',
                     'ID uniqueness inside the validator is keyed on the attribute name id of elements the schema declares',
                     'value constraints assumed of the user: NCName ids/names/symbols, unique ids (including derived -array/-vertices), '
                     '3-component light colours, shader-specific parameters (no texture for float parameters), node children in schema '
                     'order, non-empty scenes, one VERTEX source per geometry, no zfar on point lights, finite floats, <extra> with a technique'],
        extra={'xmllint_present': have_xl})


def replay(ctx, body):
    H = Harness(ctx)
    inp = body.get('input') or (body.get('mismatching_cases') or [{}])[0].get('input')
    if not inp:
        print('replay: nothing to replay in this file (%s)' % body.get('kind'))
        return 0
    recipe = inp['recipe']
    res = H.run_recipes([recipe])[0]
    if res.get('crash'):
        print('the worker crashed or hung again: %s' % res['error'][:300])
        print('VIOLATION property=C04 replay=%s' % body.get('replay_cmd', '').split()[-1])
        return 1
    if not res['docs']:
        print('replay: the recipe wrote no document (%s)' % res.get('error'))
        return 0
    docs = [base64.b64decode(b) for b in res['docs']]
    di = min(inp.get('doc_index', len(docs) - 1), len(docs) - 1)
    d = docs[di]
    xr = H.xl.validate_many([d])[0] if H.xl.available() else None
    fl = c04enc.book_fails(d)
    fails = doc_failures(recipe, di, d, xr, fl)
    if xr is None:
        core.std_setup(ctx)
        bad, err = core.coq_eval_cases(ctx, HEADER, 'C04.dcase', [c_dcase(d, False, bookvec(fl))], 'C04.dmismatches', label='replay')
        if bad or err:
            fails.append({'signature': 'C04:schema:coq-validator', 'what': 'the in-Coq validator rejects the written document'})
    print(json.dumps([{'signature': f['signature'], 'what': f['what']} for f in fails], indent=1))
    if fails:
        print('VIOLATION property=C04 replay=%s' % body.get('replay_cmd', '').split()[-1])
        return 1
    print('replay: the written document validates and its bookkeeping agrees now')
    return 0
